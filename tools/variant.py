#!/usr/bin/env python3
"""Seeded-variant tooling (analysis of modified source, nothing is executed).

  variant.py make <name> <prop> <file> <old> <new> [--why text]   create selftest/variants/<name>.patch (+ .json)
  variant.py run <name>|all [--keep]        apply to a scratch copy, type-check, run the property's check on it;
                                            the variant must compile and the named rule must report it
The scratch copy lives under $TMPDIR and is removed afterwards."""
import json, os, shutil, subprocess, sys, tempfile
VERIF = os.path.dirname(os.path.dirname(os.path.abspath(__file__)))
VDIR = os.path.join(VERIF, 'selftest', 'variants')
REPO = '/repo'


def scratch():
    d = tempfile.mkdtemp(prefix='yv-repo-')
    rc = subprocess.call(['rsync', '-a', '--exclude', 'target', '--exclude', '.git/worktrees', REPO + '/', d + '/'])
    if rc not in (0, 24):      # 24: files vanished while copying (another worktree's lock file)
        raise RuntimeError('rsync failed: %d' % rc)
    return d


def make(name, prop, file, old, new, why, rule):
    d = scratch()
    try:
        p = os.path.join(d, file)
        s = open(p).read()
        if s.count(old) != 1:
            print('pattern occurs %d times in %s' % (s.count(old), file)); sys.exit(2)
        open(p, 'w').write(s.replace(old, new))
        diff = subprocess.check_output(['git', '-C', d, 'diff'], text=True)
        open(os.path.join(VDIR, name + '.patch'), 'w').write(diff)
        json.dump({'name': name, 'property': prop, 'rule': rule, 'why': why, 'file': file},
                  open(os.path.join(VDIR, name + '.json'), 'w'), indent=1)
        print('wrote', name)
    finally:
        shutil.rmtree(d, ignore_errors=True)


def run_one(d, name):
    meta = json.load(open(os.path.join(VDIR, name + '.json')))
    subprocess.check_call(['git', '-C', d, 'checkout', '-q', '--', '.'])
    r = subprocess.run(['git', '-C', d, 'apply', os.path.join(VDIR, name + '.patch')],
                       stdout=subprocess.PIPE, stderr=subprocess.STDOUT, text=True)
    if r.returncode != 0:
        return '%-40s PATCH-DOES-NOT-APPLY %s' % (name, r.stdout[-200:]), 1
    env = dict(os.environ, VERIF_REPO=d)
    r = subprocess.run([os.path.join(VERIF, 'check'), meta['property'], '--no-evidence'], env=env,
                       stdout=subprocess.PIPE, stderr=subprocess.STDOUT, text=True)
    out = r.stdout
    fired = [l for l in out.splitlines() if l.strip().startswith('rule ')]
    want = meta.get('rule')
    if want == 'NONE':   # benign variant: behaviour-preserving edit, the check must stay silent
        if r.returncode == 0:
            return '%-40s BENIGN-OK (no report, as required)' % name, 0
        if r.returncode == 2 and not fired:
            # fail-closed: an anchor moved, no verdict is given - tolerated for a benign edit, but shown
            why = [l for l in out.splitlines() if 'ANCHOR-MISSING' in l or 'INFRA' in l][:1]
            return '%-40s BENIGN-NOVERDICT (exit 2: %s)' % (name, (why[0][:150] if why else '?')), 0
        return '%-40s FALSE-ALARM (rc=%d)\n%s' % (name, r.returncode, out[-800:]), 1
    hit = [l for l in fired if want is None or ('rule %s ' % want) in l]
    if r.returncode == 1 and hit:
        return '%-40s DETECTED by %s (%d reports)' % (name, want, len(fired)), 0
    if r.returncode == 2:
        return '%-40s EXIT2 (does not compile or anchor missing)\n%s' % (name, out[-800:]), 1
    return '%-40s MISSED (rc=%d)\n%s' % (name, r.returncode, out[-600:]), 1


def run(names, jobs=8):
    import concurrent.futures
    import queue
    jobs = max(1, min(jobs, len(names)))
    pool = queue.Queue()
    dirs = []
    bad = 0
    try:
        for _ in range(jobs):
            d = scratch()
            dirs.append(d)
            pool.put(d)

        def work(name):
            d = pool.get()
            try:
                return run_one(d, name)
            finally:
                pool.put(d)
        with concurrent.futures.ThreadPoolExecutor(max_workers=jobs) as ex:
            for line, b in ex.map(work, names):
                print(line, flush=True)
                bad += b
    finally:
        for d in dirs:
            shutil.rmtree(d, ignore_errors=True)
    return bad


if __name__ == '__main__':
    if sys.argv[1] == 'make':
        a = sys.argv[2:]
        why = ''; rule = None
        if '--why' in a:
            i = a.index('--why'); why = a[i + 1]; del a[i:i + 2]
        if '--rule' in a:
            i = a.index('--rule'); rule = a[i + 1]; del a[i:i + 2]
        make(a[0], a[1], a[2], a[3], a[4], why, rule)
    else:
        names = sys.argv[2:]
        if names == ['all']:
            names = sorted(f[:-6] for f in os.listdir(VDIR) if f.endswith('.patch'))
        sys.exit(1 if run(names) else 0)
