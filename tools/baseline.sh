#!/bin/bash
# Runs the repository's pinned baseline (guard OFF: no hooks exist, fix commits are
# unguarded) and compares with /root/.vp/BASELINE.json's stable_pass list.
# usage: tools/baseline.sh [repo dir]   exit 0 iff every stable_pass test passed.
set -u
REPO=${1:-/repo}
OUT=$(mktemp -d)
cd "$REPO" || exit 2
CARGO_NET_OFFLINE=true NEXTEST_PROFILE=pb cargo nextest run --workspace --no-fail-fast \
  --tool-config-file pb:/w/lib/nextest.toml --profile pb --test-threads 8 --offline >"$OUT/log" 2>&1
J=$(find "$REPO/target/nextest/pb" -name junit.xml | head -1)
python3 - "$J" <<'PY'
import json,sys,xml.etree.ElementTree as ET
base=set(json.load(open('/root/.vp/BASELINE.json'))['stable_pass'])
root=ET.parse(sys.argv[1]).getroot()
passed=set();failed=set()
for tc in root.iter('testcase'):
    tid=(tc.get('classname') or '')+'::'+(tc.get('name') or '')
    if tc.find('failure') is not None or tc.find('error') is not None: failed.add(tid)
    elif tc.find('skipped') is None: passed.add(tid)
missing=sorted(base-passed)
print('baseline: %d stable tests, %d passed now, %d missing/failed' % (len(base), len(base&passed), len(missing)))
for m in missing[:40]: print('  NOT PASSING:', m)
sys.exit(1 if missing else 0)
PY
rc=$?
rm -rf "$OUT"
exit $rc
