#!/bin/bash
# tools/mkrevert.sh <sha> <Cxx> <rule> '<why>' : files the reverse of a /repo fix commit (production files only) as a
# selftest variant that the named rule must report.
set -e
sha=$1; prop=$2; rule=$3; why=$4
V=/verif/selftest/variants; name=$prop-revert-fix-$sha
wt=$(mktemp -d -u /tmp/mkrevert-XXXX)
git -C /repo worktree add -q --detach "$wt" HEAD
( cd "$wt" && git revert --no-commit "$sha" >/dev/null && git diff HEAD > "$V/$name.patch" ) || { git -C /repo worktree remove --force "$wt"; exit 1; }
git -C /repo worktree remove --force "$wt"
git -C /repo apply --check "$V/$name.patch"
python3 - "$name" "$prop" "$rule" "$why" <<'PY'
import json,sys,re
name,prop,rule,why=sys.argv[1:5]
files=re.findall(r'^\+\+\+ [ab]/(.*)$', open('/verif/selftest/variants/%s.patch'%name).read(), re.M)
json.dump({'name':name,'property':prop,'rule':rule,'why':why,'file':files[0]}, open('/verif/selftest/variants/%s.json'%name,'w'), indent=1)
print('wrote',name,files)
PY
