#!/usr/bin/env python3
"""Confirms a seeded change independently and files it under /verif/seeded/<id>/.

  seedconfirm.py <id> <seed dir> --target <repo file to append the demo to | new:<path>> --cmd '<cargo test command>'
                 [--demo demo_test.rs] [--detected-by 'C09.R4' | --missed]

Steps (scratch worktree of /repo's HEAD outside /repo and /verif, removed afterwards):
  1. clean tree + demo: the command must pass;  2. patch + demo: it must fail;
  3. patch alone: the pinned baseline (tools/baseline.sh) must still pass;
  4. the static check's verdict on the patched tree is recorded."""
import argparse, json, os, shutil, subprocess, sys, tempfile
VERIF = os.path.dirname(os.path.dirname(os.path.abspath(__file__)))

ap = argparse.ArgumentParser()
ap.add_argument('id'); ap.add_argument('seeddir')
ap.add_argument('--target', required=True); ap.add_argument('--cmd', required=True)
ap.add_argument('--demo', default='demo_test.rs')
ap.add_argument('--prop', default=None)
ap.add_argument('--skip-baseline', action='store_true')
a = ap.parse_args()
prop = a.prop or a.id.split('-')[0]
wt = tempfile.mkdtemp(prefix='seedconfirm-')
os.rmdir(wt)
subprocess.check_call(['git', '-C', '/repo', 'worktree', 'add', '-q', '--detach', wt, 'HEAD'])
env = dict(os.environ, CARGO_NET_OFFLINE='true', CARGO_TARGET_DIR=os.environ.get('SEEDCONFIRM_TARGET', '/tmp/seedconfirm-target'))
log = []


def sh(cmd, **kw):
    r = subprocess.run(cmd, shell=True, cwd=wt, env=env, stdout=subprocess.PIPE, stderr=subprocess.STDOUT, text=True, **kw)
    return r.returncode, r.stdout


def add_demo():
    demo = open(os.path.join(a.seeddir, a.demo)).read()
    if a.target.startswith('new:'):
        p = os.path.join(wt, a.target[4:])
        os.makedirs(os.path.dirname(p), exist_ok=True)
        open(p, 'w').write(demo)
    else:
        p = os.path.join(wt, a.target)
        s = open(p).read()
        i = s.rstrip().rfind('}')
        open(p, 'w').write(s[:i] + '\n' + demo + '\n}\n')


def reset():
    sh('git checkout -q -- . && git clean -qfd')


ok = True
try:
    patch = os.path.join(a.seeddir, 'patch.diff')
    rc, out = sh('git apply --check %s' % patch)
    if rc != 0:
        print('PATCH DOES NOT APPLY to current HEAD:', out); sys.exit(3)
    add_demo()
    rc1, out1 = sh(a.cmd)
    log.append('clean tree + demo: `%s` -> rc=%d %s' % (a.cmd, rc1, [l for l in out1.splitlines() if l.startswith('test result')][-1:]))
    reset()
    sh('git apply %s' % patch)
    add_demo()
    rc2, out2 = sh(a.cmd)
    log.append('patched tree + demo: `%s` -> rc=%d %s' % (a.cmd, rc2, [l for l in out2.splitlines() if l.startswith('test result') or 'panicked' in l][-2:]))
    reset()
    sh('git apply %s' % patch)
    if a.skip_baseline:
        rc3, out3 = 0, 'skipped'
    else:
        r = subprocess.run([os.path.join(VERIF, 'tools', 'baseline.sh'), wt], env=env, stdout=subprocess.PIPE, stderr=subprocess.STDOUT, text=True)
        rc3, out3 = r.returncode, r.stdout
    log.append('patched tree, pinned baseline: rc=%d %s' % (rc3, out3.strip().splitlines()[-1:] if out3.strip() else ''))
    r = subprocess.run([os.path.join(VERIF, 'check'), prop, '--no-evidence'], env=dict(os.environ, VERIF_REPO=wt),
                       stdout=subprocess.PIPE, stderr=subprocess.STDOUT, text=True)
    rules = sorted({l.split()[1] for l in r.stdout.splitlines() if l.strip().startswith('rule ')})
    verdict = 'DETECTED by %s' % ', '.join(rules) if r.returncode == 1 else ('MISSED' if r.returncode == 0 else 'EXIT2 ' + r.stdout[-300:])
    log.append('static check on patched tree: ./check %s -> rc=%d %s' % (prop, r.returncode, verdict))
    for l in log:
        print(l)
    ok = (rc1 == 0 and rc2 != 0 and rc3 == 0)
    print('CONFIRMED' if ok else 'NOT CONFIRMED')
    if ok:
        dst = os.path.join(VERIF, 'seeded', a.id)
        os.makedirs(dst, exist_ok=True)
        shutil.copy(patch, os.path.join(dst, 'patch.diff'))
        shutil.copy(os.path.join(a.seeddir, a.demo), os.path.join(dst, a.demo))
        meta = {}
        mp = os.path.join(a.seeddir, 'meta.json')
        if os.path.exists(mp):
            try:
                meta = json.load(open(mp))
            except Exception:
                meta = {'raw_meta': open(mp).read()}
        meta.update({'id': a.id, 'property': prop, 'demo_target': a.target, 'demo_command': a.cmd,
                     'confirmed_by_framework_owner': log, 'static_check_verdict': verdict,
                     'repo_head_at_confirmation': subprocess.check_output(['git', '-C', '/repo', 'rev-parse', '--short', 'HEAD'], text=True).strip()})
        json.dump(meta, open(os.path.join(dst, 'meta.json'), 'w'), indent=1)
finally:
    subprocess.call(['git', '-C', '/repo', 'worktree', 'remove', '--force', wt])
sys.exit(0 if ok else 1)
