#!/usr/bin/env python3-vt
import json, glob, jsonschema, sys
ok = True
jsonschema.validate(json.load(open('/verif/MANIFEST.json')), json.load(open('/root/.vp/MANIFEST.schema.json')))
es = json.load(open('/root/.vp/EVIDENCE.schema.json'))
for f in sorted(glob.glob('/verif/evidence/C*.json')):
    try:
        jsonschema.validate(json.load(open(f)), es)
    except Exception as e:
        ok = False; print('INVALID', f, str(e)[:300])
print('manifest valid; evidence files valid' if ok else 'problems')
sys.exit(0 if ok else 1)
