#!/bin/bash
# seed2variant.sh <patch> <variant name> <Cxx> <rule> '<why>': file an (independent) seeded patch as a selftest variant
set -e
cp "$1" /verif/selftest/variants/$2.patch
python3 - "$2" "$3" "$4" "$5" <<'PY'
import json,sys,re
name,prop,rule,why=sys.argv[1:5]
files=re.findall(r'^\+\+\+ [ab]/(.*)$', open('/verif/selftest/variants/%s.patch'%name).read(), re.M)
json.dump({'name':name,'property':prop,'rule':rule,'why':why,'file':files[0]}, open('/verif/selftest/variants/%s.json'%name,'w'), indent=1)
print('wrote',name)
PY
