#!/usr/bin/env python3
"""Regenerates MANIFEST.json from the rule modules present under rules/ (a property
without a rule module is listed under not_applicable with the reason)."""
import importlib, json, os, sys
VERIF = os.path.dirname(os.path.dirname(os.path.abspath(__file__)))
sys.path.insert(0, os.path.join(VERIF, 'ycheck')); sys.path.insert(0, VERIF)
props = [json.loads(l) for l in open(os.path.join(VERIF, 'properties.jsonl'))]
NA = json.load(open(os.path.join(VERIF, 'tools', 'not_applicable.json'))) if os.path.exists(os.path.join(VERIF, 'tools', 'not_applicable.json')) else {}
CLAIMED = json.load(open(os.path.join(VERIF, 'tools', 'claimed.json')))
fixes = []
kf = json.load(open(os.path.join(VERIF, 'known_findings.json')))
for f in kf.get('fixed', []):
    if f['commit'] not in fixes: fixes.append(f['commit'])
# the withdrawn repair and its revert (DESIGN section 5, row 51) are changes of /repo too
for c in ('a17af0e', '1b065ea'):
    if c not in fixes: fixes.append(c)
checks = []; na = []
for p in props:
    pid = p['id']
    path = os.path.join(VERIF, 'rules', pid + '.py')
    if pid in NA or not os.path.exists(path) or pid not in CLAIMED:
        na.append({'property_id': pid, 'reason': NA.get(pid, 'no static rule set has been implemented for this property yet')})
        continue
    mod = importlib.import_module('rules.' + pid)
    RS = mod.RS
    kinds = sorted({k for r in RS.rules for k in r.kind.split('+')})
    checks.append({
        'property_id': pid,
        'quick_cmd': './check %s --tier quick' % pid,
        'thorough_cmd': './check %s --tier thorough' % pid,
        'evidence_file': 'evidence/%s.json' % pid,
        'replay_cmd_template': './check %s --replay {path}' % pid,
        'engine': 'yfacts+ycheck',
        'level_claimed': {
            'category': 'other',
            'text': ('Static analysis of the type-checked program (no execution). Decides, for every path/site of the '
                     'current source, these structural clauses that the property rests on: ' + RS.explanation +
                     ' NOT decided (behavioural remainder, other technique families): ' + RS.not_decided),
            'design_ref': 'DESIGN.md section 4, ' + pid,
        },
        'level_note': ('Trusted: rustc nightly HIR/MIR construction and trait resolution; the reference tables and '
                       'allow-lists in rules/%s.py; ' % pid + '; '.join(RS.trusted + RS.assumptions)),
        'technique': 'static analysis: custom rustc_private driver facts (MIR CFG dominance/path rules, HIR decision '
                     'tables, call-graph ownership); rule kinds ' + ', '.join(kinds),
    })
man = {
    'version': 1,
    'setup_cmd': 'cd /verif/yfacts && CARGO_NET_OFFLINE=true cargo build --offline',
    'hooks': {
        'guard': 'yash_rs_verif',
        'enable': 'no hooks are needed: the analysis reads the unmodified sources (the cfg name is reserved and unused)',
        'baseline_off_cmd': '/verif/tools/baseline.sh /repo',
        'source_commits': fixes,
        'add_only': True,
    },
    'engines': [
        {'name': 'yfacts', 'path': 'yfacts/', 'kind_free_text': 'rustc_private driver: pre-lowering MIR via mir_built override, HIR trees with resolved paths, items, type walks', 'serves_properties': [c['property_id'] for c in checks]},
        {'name': 'ycheck', 'path': 'ycheck/', 'kind_free_text': 'Python rule engine: dominance, must-pass-through, resource pairing, guards, decision tables, who-may-call/write', 'serves_properties': [c['property_id'] for c in checks]},
    ],
    'checks': checks,
    'not_applicable': na,
    'notes': 'All claims are at clause level (level other): see DESIGN.md. Genuine defects found are in known_findings.json.',
}
json.dump(man, open(os.path.join(VERIF, 'MANIFEST.json'), 'w'), indent=1)
print('checks:', [c['property_id'] for c in checks]); print('not_applicable:', [n['property_id'] for n in na])
