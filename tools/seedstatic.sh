#!/bin/bash
# usage: seedstatic.sh <prop> <patch> : apply a patch to a scratch copy of /repo and run the static check on it
P=$1; PATCH=$2
D=$(mktemp -d /tmp/seedstatic-XXXX)
rsync -a --exclude target --exclude .git/worktrees /repo/ $D/ 2>/dev/null
if ! git -C $D apply "$PATCH"; then echo "PATCH DOES NOT APPLY"; rm -rf $D; exit 3; fi
VERIF_REPO=$D /verif/check $P --no-evidence 2>&1 | grep -E "^  rule|^VIOLATION|^ANCHOR|^INFRA|RULE-ERROR|^C[0-9]+:" | cut -c1-400
rm -rf $D
