#!/bin/bash
# benigneval.sh <patch> [props...] : apply a behaviour-preserving patch to a scratch copy and run the given checks (default: all 20);
# prints one line per property whose check does not exit 0
PATCH=$1; shift
PROPS=${@:-C01 C02 C03 C04 C05 C06 C07 C08 C09 C10 C11 C12 C13 C14 C15 C16 C17 C18 C19 C20}
D=$(mktemp -d /tmp/benigneval-XXXX)
rsync -a --exclude target --exclude .git/worktrees /repo/ $D/ 2>/dev/null
if ! git -C $D apply "$PATCH" 2>/dev/null; then echo "$PATCH: PATCH-DOES-NOT-APPLY"; rm -rf $D; exit 3; fi
for P in $PROPS; do
  OUT=$(VERIF_REPO=$D /verif/check $P --no-evidence 2>&1); RC=$?
  if [ $RC -ne 0 ]; then echo "$PATCH: $P rc=$RC"; echo "$OUT" | grep -E "^  rule|^ANCHOR|^INFRA|RULE-ERROR" | cut -c1-300 | head -6; fi
done
echo "$PATCH: done"
rm -rf $D
