#!/bin/bash
# Runs the repository's scripted tests (yash-cli/tests/scripted_test), which need LANG and are therefore not part of the pinned
# baseline of this sandbox. Reference result on the pinned tree: 98 pass, job_control_ex fails (no controlling terminal here).
# usage: tools/scripted.sh [repo dir]; exit 0 iff nothing but job_control_ex fails.
REPO=${1:-/repo}
cd "$REPO/yash-cli" || exit 2
OUT=$(LANG=C CARGO_NET_OFFLINE=true cargo test --offline --test scripted_test 2>&1 | grep "^test .* FAILED\|test result")
echo "$OUT"
BAD=$(echo "$OUT" | grep "^test .* FAILED$" | grep -v "job_control_ex" | wc -l)
[ "$BAD" -eq 0 ]
