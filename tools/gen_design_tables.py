#!/usr/bin/env python3
"""Regenerates the machine-written parts of DESIGN.md (between the BEGIN/END markers):
the rule catalogue (from rules/*.py), the variant catalogue (selftest/variants/*.json) and the
seeded-change table (seeded/*/meta.json)."""
import importlib, json, os, re, sys, glob
VERIF = os.path.dirname(os.path.dirname(os.path.abspath(__file__)))
sys.path.insert(0, os.path.join(VERIF, 'ycheck')); sys.path.insert(0, VERIF)
props = [json.loads(l) for l in open(os.path.join(VERIF, 'properties.jsonl'))]


def catalogue():
    out = []
    for p in props:
        pid = p['id']
        try:
            mod = importlib.import_module('rules.' + pid)
        except Exception as e:
            out.append('### %s - (no rule module: %s)\n' % (pid, e)); continue
        RS = mod.RS
        out.append('### %s - %s\n' % (pid, p['title']))
        out.append('*Decided:* %s\n' % RS.explanation)
        out.append('*Not decided:* %s\n' % RS.not_decided)
        vs = sorted(glob.glob(os.path.join(VERIF, 'selftest', 'variants', pid + '-*.json')))
        byrule = {}
        for v in vs:
            m = json.load(open(v))
            byrule.setdefault(m.get('rule') or 'NONE', []).append(m['name'])
        out.append('| rule | kind | tier | clause | seeded variants that must be reported |\n|---|---|---|---|---|')
        for r in RS.rules:
            out.append('| %s | %s | %s | %s | %s |' % (r.id, r.kind, r.tier, r.title.replace('|', '\\|'), ', '.join(n[len(pid) + 1:] for n in byrule.get(r.id, [])) or '-'))
        if byrule.get('NONE'):
            out.append('\nBenign variants (behaviour-preserving edits that must stay silent): %s.' % ', '.join(n[len(pid) + 1:] for n in byrule['NONE']))
        out.append('')
    return '\n'.join(out)


def seeded():
    out = ['| id | property | what the change does | needs, to manifest | verdict when first evaluated | verdict now |', '|---|---|---|---|---|---|']
    for d in sorted(glob.glob(os.path.join(VERIF, 'seeded', '*', 'meta.json'))):
        m = json.load(open(d))
        def cell(x, n):
            return re.sub(r'\s+', ' ', str(x or '')).replace('|', '/')[:n]
        out.append('| %s | %s | %s | %s | %s | %s |' % (m['id'], m['property'], cell(m.get('title') or m.get('what_breaks'), 150),
                                                       cell(m.get('needs_to_manifest'), 170), cell(m.get('first_static_verdict', m.get('static_check_verdict')), 60),
                                                       cell(m.get('current_static_verdict', m.get('static_check_verdict')), 60)))
    return '\n'.join(out)


p = os.path.join(VERIF, 'DESIGN.md')
s = open(p).read()
for name, text in (('RULE-CATALOGUE', catalogue()), ('SEEDED-TABLE', seeded())):
    b, e = '<!-- BEGIN %s -->' % name, '<!-- END %s -->' % name
    if b in s and e in s:
        i, j = s.index(b) + len(b), s.index(e)
        s = s[:i] + '\n' + text + '\n' + s[j:]
open(p, 'w').write(s)
print('DESIGN.md tables regenerated')
