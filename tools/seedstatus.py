#!/usr/bin/env python3
"""Re-evaluates every confirmed seeded change under /verif/seeded/ with the current checks
(static analysis of the patched source in scratch copies) and writes seeded/STATUS.md."""
import concurrent.futures, json, os, queue, shutil, subprocess, sys, tempfile
VERIF = os.path.dirname(os.path.dirname(os.path.abspath(__file__)))
SD = os.path.join(VERIF, 'seeded')
ids = sorted(d for d in os.listdir(SD) if os.path.isdir(os.path.join(SD, d)))
if '--table-only' in sys.argv:
    # rewrite STATUS.md from the verdicts recorded in the meta.json files (no re-evaluation)
    with open(os.path.join(SD, 'STATUS.md'), 'w') as fh:
        fh.write('# Seeded changes (written by independent sub-agents, confirmed, then evaluated statically)\n\n')
        fh.write('| id | property | change | verdict when first evaluated | verdict now |\n|---|---|---|---|---|\n')
        for i in ids:
            m = json.load(open(os.path.join(SD, i, 'meta.json')))
            fh.write('| %s | %s | %s | %s | %s |\n' % (i, m['property'], m.get('title', '')[:90],
                     (m.get('first_static_verdict') or m.get('static_check_verdict') or '?').split(' [')[0][:40], m.get('current_static_verdict', '?')))
    print('STATUS.md rewritten from meta.json (%d seeds)' % len(ids))
    sys.exit(0)
if len(sys.argv) > 1:
    ids = [i for i in ids if any(i.startswith(a) for a in sys.argv[1:])]
pool = queue.Queue(); dirs = []
for _ in range(min(4, len(ids))):
    d = tempfile.mkdtemp(prefix='seedstatus-'); subprocess.call(['rsync', '-a', '--exclude', 'target', '--exclude', '.git/worktrees', '/repo/', d + '/']); dirs.append(d); pool.put(d)


def work(i):
    d = pool.get()
    try:
        meta = json.load(open(os.path.join(SD, i, 'meta.json')))
        subprocess.check_call(['git', '-C', d, 'checkout', '-q', '--', '.']); subprocess.call(['git', '-C', d, 'clean', '-qfd'])
        r = subprocess.run(['git', '-C', d, 'apply', os.path.join(SD, i, 'patch.diff')], stdout=subprocess.PIPE, stderr=subprocess.STDOUT, text=True)
        if r.returncode != 0:
            # later fix: commits changed the surrounding code; the verdict of the last evaluation stands
            prev = (meta.get('current_static_verdict') or meta.get('static_check_verdict') or 'PATCH-DOES-NOT-APPLY').split(' (patch no longer')[0]
            return i, meta, prev + ' (patch no longer applies to HEAD; verdict of the last evaluation)'
        r = subprocess.run([os.path.join(VERIF, 'check'), meta['property'], '--no-evidence'], env=dict(os.environ, VERIF_REPO=d),
                           stdout=subprocess.PIPE, stderr=subprocess.STDOUT, text=True)
        rules = sorted({l.split()[1] for l in r.stdout.splitlines() if l.strip().startswith('rule ')})
        if r.returncode == 1:
            v = 'DETECTED by ' + ', '.join(rules)
        elif r.returncode == 0:
            v = 'MISSED'
        else:
            v = 'NO-VERDICT (exit 2)'
        return i, meta, v
    finally:
        pool.put(d)


rows = []
try:
    with concurrent.futures.ThreadPoolExecutor(max_workers=max(1, len(dirs))) as ex:
        for i, meta, v in ex.map(work, ids):
            meta.setdefault('first_static_verdict', meta.get('static_check_verdict', v))
            meta['current_static_verdict'] = v
            json.dump(meta, open(os.path.join(SD, i, 'meta.json'), 'w'), indent=1)
            rows.append((i, meta['property'], meta.get('title', '')[:90], meta['first_static_verdict'].split(' [')[0][:40], v))
            print('%-36s %s' % (i, v), flush=True)
finally:
    for d in dirs:
        shutil.rmtree(d, ignore_errors=True)
if len(sys.argv) == 1:
    with open(os.path.join(SD, 'STATUS.md'), 'w') as fh:
        fh.write('# Seeded changes (written by independent sub-agents, confirmed, then evaluated statically)\n\n')
        fh.write('| id | property | change | verdict when first evaluated | verdict now |\n|---|---|---|---|---|\n')
        for r in rows:
            fh.write('| %s | %s | %s | %s | %s |\n' % r)
