#!/usr/bin/env python3
"""seedbatch.py <list file> [workers]: confirm many delivered seeds in parallel.
List file lines: <new id> <delivered dir>   (meta.json there gives demo_kind / demo_target / demo_command)."""
import concurrent.futures, json, os, subprocess, sys, queue
VERIF = os.path.dirname(os.path.dirname(os.path.abspath(__file__)))
items = [l.split() for l in open(sys.argv[1]) if l.strip() and not l.startswith('#')]
workers = int(sys.argv[2]) if len(sys.argv) > 2 else 3
pool = queue.Queue()
for i in range(workers):
    pool.put('/tmp/seedconfirm-target-%d' % i)


def work(it):
    sid, d = it
    m = json.load(open(os.path.join(d, 'meta.json')))
    tgt = m['demo_target']
    demo = 'demo_test.rs'
    if m.get('demo_kind') == 'new':
        tgt = 'new:' + tgt
        if not os.path.exists(os.path.join(d, demo)):
            demo = os.path.basename(m['demo_target'])
    t = pool.get()
    try:
        r = subprocess.run([os.path.join(VERIF, 'tools', 'seedconfirm.py'), sid, d, '--target', tgt, '--cmd', m['demo_command'], '--demo', demo],
                           env=dict(os.environ, SEEDCONFIRM_TARGET=t), stdout=subprocess.PIPE, stderr=subprocess.STDOUT, text=True)
        return sid, r.returncode, r.stdout
    finally:
        pool.put(t)


with concurrent.futures.ThreadPoolExecutor(max_workers=workers) as ex:
    for sid, rc, out in ex.map(work, items):
        print('=====', sid, 'rc=%d' % rc)
        print(out[-1500:], flush=True)
