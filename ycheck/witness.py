"""K-WITNESS: compile-fail witnesses (ywit crate), run with `cargo +nightly test --doc`.

The witness crate is instantiated in a scratch directory with path dependencies on the
repository being checked; dependency builds are cached in .cache/ywit-target."""
import json
import os
import re
import shutil
import subprocess
import tempfile

from engine import Rule, VERIF
from facts import AnchorMissing

_results = {}


def run(repo):
    if repo in _results:
        return _results[repo]
    d = tempfile.mkdtemp(prefix='ywit-')
    try:
        os.makedirs(os.path.join(d, 'src'))
        shutil.copy(os.path.join(VERIF, 'ywit', 'src', 'lib.rs'), os.path.join(d, 'src', 'lib.rs'))
        with open(os.path.join(VERIF, 'ywit', 'Cargo.toml.in')) as fh:
            toml = fh.read().replace('@REPO@', repo)
        with open(os.path.join(d, 'Cargo.toml'), 'w') as fh:
            fh.write(toml)
        shutil.copy(os.path.join(repo, 'Cargo.lock'), os.path.join(d, 'Cargo.lock'))
        env = dict(os.environ, CARGO_NET_OFFLINE='true',
                   CARGO_TARGET_DIR=os.path.join(VERIF, '.cache', 'ywit-target'))
        r = subprocess.run(['cargo', '+nightly', 'test', '--doc', '--offline'], cwd=d, env=env,
                           stdout=subprocess.PIPE, stderr=subprocess.STDOUT, text=True)
        res = {}
        for m in re.finditer(r'^test src/lib\.rs - (\w+) \(line \d+\)( - compile fail| - compile)? \.\.\. (\w+)', r.stdout, re.M):
            res[m.group(1)] = (m.group(3), (m.group(2) or '').strip(' -'))
        if not res:
            raise AnchorMissing('witness crate did not run: %s' % r.stdout[-1500:])
        _results[repo] = (res, r.stdout)
        return _results[repo]
    finally:
        shutil.rmtree(d, ignore_errors=True)


def add(RS, rid, names, title):
    """Register a thorough-tier rule: every named witness is rejected by the type
    checker (with its error code) and every twin `<name>_twin` compiles."""
    def fn(cx):
        res, out = run(getattr(cx.F, 'repo', '/repo'))
        for n in names:
            for nm, want_kind in ((n, 'compile fail'), (n + '_twin', 'compile')):
                if nm not in res:
                    if nm.endswith('_twin'):
                        continue
                    raise AnchorMissing('witness %s did not run' % nm)
                status, kind = res[nm]
                cx.site('witness %s: %s (%s)' % (nm, status, kind))
                if status != 'ok':
                    if nm.endswith('_twin'):
                        raise AnchorMissing('twin %s no longer compiles: the witness would pass for the wrong reason' % nm)
                    cx.violation('ywit::' + n, 'witness-compiles', 'the violating client program `%s` is accepted by the type checker '
                                 '(or fails with a different error than the one that encodes the property)' % n, loc='ywit/src/lib.rs')
    RS.rules.append(Rule(rid, 'K-WITNESS', title, fn, tier='thorough'))
