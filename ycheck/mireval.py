"""Finite-domain evaluation of small pure functions on their MIR *facts* (K-TABLE by evaluation).

A rule hands abstract tokens of its own choosing (a `char`, a struct of flags, an enum variant) to `call(F, fn, args)`
and gets the value the function computes, so that the complete table of a predicate over a small domain can be compared
with a reference table whatever shape the function is written in (match, if chain, helpers, early returns, `matches!`).
Nothing of /repo runs: the interpreter walks the statement / terminator facts extracted by the driver. Only what a
pure table function needs is modelled (scalars, field-less and field-carrying ADTs, tuples, references to locals,
switches, a few `core` predicates); anything else raises `Undecidable`, which rules turn into "no verdict" (exit 2).
"""
import re


class Undecidable(Exception):
    pass


# Unicode White_Space (what char::is_whitespace answers)
WHITE_SPACE = set([0x20, 0x85, 0xA0, 0x1680, 0x2028, 0x2029, 0x202F, 0x205F, 0x3000]) | set(range(0x9, 0xE)) | set(range(0x2000, 0x200B))

_STD_ENUM_ORDER = {
    'core::option::Option': ['None', 'Some'],
    'core::result::Result': ['Ok', 'Err'],
    'core::ops::control_flow::ControlFlow': ['Continue', 'Break'],
    'core::cmp::Ordering': ['Less', 'Equal', 'Greater'],
}
_INT_TY = re.compile(r'^[iu](8|16|32|64|128|size)$')


def adt(name, variant, fields=None):
    return {'adt': name, 'variant': variant, 'fields': dict(fields or {})}


def char(c):
    return ('char', ord(c) if isinstance(c, str) else c)


def _variant_names(F, name):
    base = name.split('<')[0]
    if base in _STD_ENUM_ORDER:
        return _STD_ENUM_ORDER[base]
    a = F.adts.get(base)
    if a is None:
        raise Undecidable('unknown ADT %s' % name)
    return [v['name'] for v in a['variants']]


def _const(o):
    c, ty = str(o.get('c')), (o.get('ty') or '')
    if c in ('true', 'false'):
        return c == 'true'
    if c == '()':
        return ()
    m = re.match(r"^'(.*)'$", c, re.S)
    if m or ty == 'char':
        body = m.group(1) if m else c
        esc = {'\\\\': '\\', "\\'": "'", '\\n': '\n', '\\t': '\t', '\\r': '\r', '\\0': '\0', '\\"': '"'}
        if body in esc:
            return ('char', ord(esc[body]))
        mu = re.match(r'^\\u\{([0-9a-fA-F]+)\}$', body)
        if mu:
            return ('char', int(mu.group(1), 16))
        if len(body) == 1:
            return ('char', ord(body))
        raise Undecidable('char constant %r' % c)
    m = re.match(r'^(-?\d+)(_[iu](8|16|32|64|128|size))?$', c)
    if m:
        return int(m.group(1))
    if o.get('fn'):
        return ('fn', o['fn'])
    raise Undecidable('constant %r : %s' % (c, ty))


class _Frame:
    def __init__(self, body):
        self.body = body
        self.cells = [[None] for _ in body.locals]


def _get_path(v, path):
    for e in path:
        if e == '*':
            if not (isinstance(v, tuple) and v and v[0] == 'ref'):
                raise Undecidable('deref of a non-reference')
            v = _get_path(v[1][0], v[2])
        elif isinstance(e, dict) and 'f' in e:
            if isinstance(v, dict) and 'fields' in v:
                if e['f'] not in v['fields']:
                    raise Undecidable('field %s' % e['f'])
                v = v['fields'][e['f']]
            elif isinstance(v, tuple) and v and v[0] == 'tuple':
                v = v[1][int(e['f'])]
            else:
                raise Undecidable('field of a non-aggregate')
        elif isinstance(e, dict) and 'v' in e:
            if not (isinstance(v, dict) and v.get('variant') == e['v']):
                raise Undecidable('downcast to another variant')
        else:
            raise Undecidable('projection %r' % (e,))
    return v


def _set_path(cell, path, val):
    if not path:
        cell[0] = val
        return
    # navigate to the parent, through references
    v = cell[0]
    for i, e in enumerate(path[:-1]):
        if e == '*':
            if not (isinstance(v, tuple) and v and v[0] == 'ref'):
                raise Undecidable('deref of a non-reference')
            return _set_path(v[1], list(v[2]) + list(path[i + 1:]), val)
        v = _get_path(v, [e])
    last = path[-1]
    if last == '*':
        if not (isinstance(v, tuple) and v and v[0] == 'ref'):
            raise Undecidable('deref of a non-reference')
        return _set_path(v[1], list(v[2]), val)
    if isinstance(last, dict) and 'f' in last and isinstance(v, dict) and 'fields' in v:
        v['fields'][last['f']] = val
        return
    raise Undecidable('store through %r' % (last,))


class Machine:
    def __init__(self, F, std=None, max_steps=20000, max_depth=6):
        self.F = F
        self.std = std or {}
        self.steps = 0
        self.max_steps = max_steps
        self.max_depth = max_depth

    # ---- operands / places
    def place(self, fr, pl):
        return _get_path(fr.cells[pl['l']][0], pl.get('p') or [])

    def operand(self, fr, o):
        if 'cp' in o or 'mv' in o:
            v = self.place(fr, o.get('cp') or o.get('mv'))
            if v is None:
                raise Undecidable('read of an unset local')
            return v
        return _const(o)

    def rvalue(self, fr, rv):
        k = rv['k']
        if k == 'use':
            return self.operand(fr, rv['o'])
        if k == 'ref':
            pl = rv['pl']
            path = list(pl.get('p') or [])
            cell = fr.cells[pl['l']]
            # `&*r` is r itself
            if path and path[0] == '*' and isinstance(cell[0], tuple) and cell[0] and cell[0][0] == 'ref':
                base = cell[0]
                return ('ref', base[1], list(base[2]) + path[1:])
            return ('ref', cell, path)
        if k == 'binop':
            a, b = self.operand(fr, rv['a']), self.operand(fr, rv['b'])
            op = rv['op']
            av = a[1] if isinstance(a, tuple) and a and a[0] == 'char' else a
            bv = b[1] if isinstance(b, tuple) and b and b[0] == 'char' else b
            if isinstance(av, dict) or isinstance(bv, dict):
                raise Undecidable('binop on aggregates')
            table = {'Eq': lambda: av == bv, 'Ne': lambda: av != bv, 'Lt': lambda: av < bv, 'Le': lambda: av <= bv,
                     'Gt': lambda: av > bv, 'Ge': lambda: av >= bv, 'BitAnd': lambda: av & bv, 'BitOr': lambda: av | bv,
                     'BitXor': lambda: av ^ bv, 'Add': lambda: av + bv, 'Sub': lambda: av - bv, 'Mul': lambda: av * bv}
            if op in table:
                return table[op]()
            m = re.match(r'^(Add|Sub|Mul)WithOverflow$', op)
            if m:
                return ('tuple', [table[m.group(1)](), False])
            raise Undecidable('binop %s' % op)
        if k == 'unop':
            v = self.operand(fr, rv['o'])
            if rv['op'] == 'Not':
                return (not v) if isinstance(v, bool) else ~v
            if rv['op'] == 'Neg':
                return -v
            raise Undecidable('unop %s' % rv['op'])
        if k == 'cast':
            v = self.operand(fr, rv['o'])
            ty = rv.get('ty') or ''
            if isinstance(v, tuple) and v and v[0] == 'char' and _INT_TY.match(ty):
                bits = {'u8': 8, 'u16': 16}.get(ty)
                return v[1] & ((1 << bits) - 1) if bits else v[1]
            if isinstance(v, bool) and _INT_TY.match(ty):
                return int(v)
            if isinstance(v, int) and ty == 'char':
                return ('char', v)
            if isinstance(v, int) and _INT_TY.match(ty):
                bits = {'u8': 8, 'u16': 16, 'u32': 32, 'u64': 64}.get(ty)
                return v & ((1 << bits) - 1) if bits else v
            if isinstance(v, tuple) and v and v[0] in ('ref', 'fn'):
                return v
            raise Undecidable('cast to %s' % ty)
        if k == 'discr':
            v = self.place(fr, rv['pl'])
            if not isinstance(v, dict):
                raise Undecidable('discriminant of a non-ADT')
            return _variant_names(self.F, v['adt']).index(v['variant'])
        if k == 'agg':
            ops = [self.operand(fr, o) for o in rv.get('ops') or []]
            if rv.get('ak') == 'adt':
                names = rv.get('fields') or [str(i) for i in range(len(ops))]
                names = [n if isinstance(n, str) else str(i) for i, n in enumerate(names)]
                return {'adt': rv['adt'], 'variant': rv.get('variant'), 'fields': dict(zip(names, ops))}
            if rv.get('ak') == 'tuple':
                return ('tuple', ops)
            raise Undecidable('aggregate %s' % rv.get('ak'))
        raise Undecidable('rvalue %s' % k)

    # ---- calls
    def call(self, fn, args, depth=0):
        for pat, impl in self.std.items():
            if re.search(pat, fn):
                return impl(self, args)
        r = _std_call(self, fn, args)
        if r is not NotImplemented:
            return r
        body = self.F.bodies.get(fn)
        if body is None or not fn.startswith('yash_') and not fn.startswith('<yash_'):
            raise Undecidable('call of %s' % fn)
        if depth >= self.max_depth or body.d.get('coroutine'):
            raise Undecidable('call depth / coroutine at %s' % fn)
        return self.run(body, args, depth + 1)

    def run(self, body, args, depth=0):
        if len(args) != body.argc:
            raise Undecidable('arity of %s' % body.fn)
        fr = _Frame(body)
        for i, a in enumerate(args):
            fr.cells[i + 1][0] = a
        b = 0
        while True:
            self.steps += 1
            if self.steps > self.max_steps:
                raise Undecidable('step limit')
            blk = body.blocks[b]
            for s in blk['s']:
                if s['k'] == 'assign':
                    val = self.rvalue(fr, s['rv'])
                    _set_path(fr.cells[s['lhs']['l']], list(s['lhs'].get('p') or []), val)
                elif s['k'] in ('dead', 'live', 'nop', 'fakeread', 'ascribe', 'storage', 'placemention', 'retag', 'coverage'):
                    continue
                elif s['k'] == 'setdiscr':
                    raise Undecidable('set_discriminant')
            t = blk['t']
            k = t['k']
            if k == 'return':
                return fr.cells[0][0]
            if k in ('goto', 'falseedge', 'falseunwind', 'drop'):
                b = t['to']
            elif k == 'switch':
                v = self.operand(fr, t['d'])
                if isinstance(v, bool):
                    v = int(v)
                elif isinstance(v, tuple) and v and v[0] == 'char':
                    v = v[1]
                if not isinstance(v, int):
                    raise Undecidable('switch on a non-scalar')
                b = next((tgt for val, tgt in t['ts'] if int(val) == v), t.get('else'))
                if b is None:
                    raise Undecidable('switch without a matching edge')
            elif k == 'assert':
                b = t['to']
            elif k == 'call':
                f = t['f']
                name = f.get('def') or f.get('decl')
                if f.get('indirect') is not None:
                    fv = self.operand(fr, f['indirect'])
                    if not (isinstance(fv, tuple) and fv[0] == 'fn'):
                        raise Undecidable('indirect call')
                    name = fv[1]
                if not name:
                    raise Undecidable('unresolved call')
                args2 = [self.operand(fr, a) for a in t['a']]
                val = self.call(name, args2, depth)
                _set_path(fr.cells[t['dest']['l']], list(t['dest'].get('p') or []), val)
                if t.get('to') is None:
                    raise Undecidable('diverging call')
                b = t['to']
            else:
                raise Undecidable('terminator %s' % k)


def _deref(v):
    while isinstance(v, tuple) and v and v[0] == 'ref':
        v = _get_path(v[1][0], v[2])
    return v


def _cp(v):
    v = _deref(v)
    if isinstance(v, tuple) and v and v[0] == 'char':
        return v[1]
    raise Undecidable('not a char')


def _std_call(m, fn, args):
    if re.search(r'char::methods::<impl char>::is_whitespace$', fn):
        return _cp(args[0]) in WHITE_SPACE
    if re.search(r'::is_ascii_whitespace$', fn):
        v = _deref(args[0])
        return (v[1] if isinstance(v, tuple) else v) in (0x20, 0x9, 0xA, 0xC, 0xD)
    if re.search(r'char::methods::<impl char>::is_ascii_digit$', fn):
        return 0x30 <= _cp(args[0]) <= 0x39
    if re.search(r'char::methods::<impl char>::is_ascii$', fn):
        return _cp(args[0]) < 0x80
    if re.search(r'char::methods::<impl char>::is_ascii_alphabetic$', fn):
        c = _cp(args[0])
        return 0x41 <= c <= 0x5A or 0x61 <= c <= 0x7A
    if re.search(r'char::methods::<impl char>::is_ascii_alphanumeric$', fn):
        c = _cp(args[0])
        return 0x41 <= c <= 0x5A or 0x61 <= c <= 0x7A or 0x30 <= c <= 0x39
    if re.search(r'char::methods::<impl char>::is_ascii_(punctuation|graphic|control)$', fn):
        c = _cp(args[0])
        kind = fn.rsplit('_', 1)[1]
        if kind == 'control':
            return c < 0x20 or c == 0x7F
        graphic = 0x21 <= c <= 0x7E
        alnum = 0x41 <= c <= 0x5A or 0x61 <= c <= 0x7A or 0x30 <= c <= 0x39
        return graphic if kind == 'graphic' else (graphic and not alnum)
    if re.search(r'<(char|bool|u8|u32|i32|usize) as core::cmp::PartialEq>::(eq|ne)$', fn) or re.search(r'core::cmp::impls::<impl core::cmp::PartialEq<&B> for &A>::(eq|ne)$', fn):
        a, b = _deref(args[0]), _deref(args[1])
        if isinstance(a, dict) or isinstance(b, dict):
            return NotImplemented
        return (a == b) if fn.endswith('::eq') else (a != b)
    if re.search(r'convert::num::<impl core::convert::TryFrom<char> for u8>::try_from$', fn):
        c = _cp(args[0])
        return adt('core::result::Result', 'Ok', {'0': c}) if c < 256 else adt('core::result::Result', 'Err', {'0': ()})
    if re.search(r'core::intrinsics::discriminant_value$', fn):
        v = _deref(args[0])
        if not isinstance(v, dict):
            raise Undecidable('discriminant_value of a non-ADT')
        return _variant_names(m.F, v['adt']).index(v['variant'])
    if re.search(r'<(\w+) as core::clone::Clone>::clone$', fn) or re.search(r'::Copy', fn):
        import copy
        return copy.deepcopy(_deref(args[0]))
    return NotImplemented


def call(F, fn, args, std=None):
    """Evaluate workspace function `fn` on `args`; raises Undecidable."""
    body = F.bodies.get(fn)
    if body is None:
        raise Undecidable('no body for %s' % fn)
    return Machine(F, std).run(body, list(args))


def ref_to(value):
    """A reference argument (`&T`) to a value of the rule's choosing."""
    return ('ref', [value], [])
