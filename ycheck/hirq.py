"""Queries over HIR facts: tree walking, node search, decision-table evaluation."""


def children(n):
    """Direct child nodes (dicts with 'k') of a HIR node, in evaluation order."""
    out = []
    if isinstance(n, dict):
        for k, v in n.items():
            if k in ('pat', 'params'):
                continue
            if isinstance(v, dict) and 'k' in v:
                out.append(v)
            elif isinstance(v, list):
                for x in v:
                    if isinstance(x, dict):
                        if 'k' in x:
                            out.append(x)
                        elif 'body' in x:  # match arm
                            if x.get('guard'):
                                out.append(x['guard'])
                            out.append(x['body'])
                    elif isinstance(x, list):  # struct fields [name, expr]
                        for y in x:
                            if isinstance(y, dict) and 'k' in y:
                                out.append(y)
    return out


def walk(n):
    """Pre-order walk over all expression nodes."""
    stack = [n]
    while stack:
        x = stack.pop()
        if not isinstance(x, dict):
            continue
        yield x
        stack.extend(reversed(children(x)))


def find(n, pred):
    return [x for x in walk(n) if pred(x)]


def calls(n, pats=None):
    """call / mcall nodes, optionally filtered by callee name patterns."""
    import mirq
    out = []
    for x in walk(n):
        if x.get('k') in ('call', 'mcall'):
            if pats is None or callee_matches(x, pats):
                out.append(x)
    return out


def callee_matches(x, pats):
    import mirq
    if isinstance(pats, str) or hasattr(pats, 'search'):
        pats = [pats]
    for key in ('def', 'decl'):
        nm = x.get(key)
        if nm:
            for p in pats:
                if mirq.name_matches(nm, p):
                    return True
    return False


def peel(n):
    """Strip blocks with a single tail expression, refs, and casts-less wrappers."""
    while isinstance(n, dict):
        if n.get('k') == 'block' and not n.get('stmts') and n.get('e'):
            n = n['e']
        elif n.get('k') == 'ref':
            n = n['a']
        else:
            break
    return n


def path_def(n):
    n = peel(n)
    if isinstance(n, dict) and n.get('k') == 'path':
        return n.get('def')
    if isinstance(n, dict) and n.get('k') == 'call' and n.get('ctor') and not n.get('a'):
        return n['ctor'].get('def')
    return None


def lit_value(n):
    n = peel(n)
    if isinstance(n, dict) and n.get('k') == 'lit':
        return n.get('v')
    return None


# ---- patterns ---------------------------------------------------------------
def pat_variants(p):
    """Set of variant paths a pattern can match at its top level, or None for
    'anything' (wildcard / binding without subpattern)."""
    k = p.get('k')
    if k in ('wild',):
        return None
    if k == 'bind':
        return pat_variants(p['sub']) if p.get('sub') else None
    if k in ('pref', 'pderef', 'pbox'):
        return pat_variants(p['sub'])
    if k == 'por':
        out = set()
        for a in p['alts']:
            v = pat_variants(a)
            if v is None:
                return None
            out |= v
        return out
    if k in ('pstruct', 'ptuplestruct'):
        return {p['p'].get('def')}
    if k == 'pexpr':
        e = p['e']
        if e.get('k') == 'path':
            return {e.get('def')}
        if e.get('k') == 'lit':
            return {('lit', e.get('v'))}
    return {('opaque', k)}


def match_table(m, domain):
    """Interpret a `match` over a single enum scrutinee: for each variant path in
    `domain` (ordered), the index of the first arm without a guard that matches
    it (guarded arms are reported separately). Returns {variant: (arm_index, arm)}
    and a list of guarded arms."""
    table = {}
    guarded = []
    for v in domain:
        for i, arm in enumerate(m['arms']):
            vs = pat_variants(arm['pat'])
            if vs is None or v in vs:
                if arm.get('guard'):
                    guarded.append((v, i, arm))
                    continue
                table[v] = (i, arm)
                break
    return table, guarded


def pat_matches_value(p, val):
    """Does pattern p match the abstract value val?

    val: ('variant', path, [field values]) | ('lit', v) | ('any',) | ('tuple', [vals])
    Returns True / False / None (undecidable: opaque pattern)."""
    k = p.get('k')
    if k == 'wild':
        return True
    if k == 'bind':
        return pat_matches_value(p['sub'], val) if p.get('sub') else True
    if k in ('pref', 'pderef', 'pbox'):
        return pat_matches_value(p['sub'], val)
    if k == 'por':
        res = False
        for a in p['alts']:
            r = pat_matches_value(a, val)
            if r is True:
                return True
            if r is None:
                res = None
        return res
    if k == 'ptuple':
        if val[0] != 'tuple':
            return None
        subs = p['sub']
        vals = val[1]
        if p.get('dd') is not None:
            return None
        res = True
        for sp, sv in zip(subs, vals):
            r = pat_matches_value(sp, sv)
            if r is False:
                return False
            if r is None:
                res = None
        return res
    if k in ('ptuplestruct', 'pstruct'):
        if val[0] != 'variant':
            return None
        if p['p'].get('def') != val[1]:
            return False
        fields = val[2] if len(val) > 2 else None
        if k == 'ptuplestruct' and fields is not None:
            res = True
            for sp, sv in zip(p['sub'], fields):
                r = pat_matches_value(sp, sv)
                if r is False:
                    return False
                if r is None:
                    res = None
            return res
        if k == 'pstruct' and isinstance(fields, dict):
            res = True
            for fname, sp in p['fields']:
                if fname in fields:
                    r = pat_matches_value(sp, fields[fname])
                    if r is False:
                        return False
                    if r is None:
                        res = None
                else:
                    if pat_variants(sp) is not None:
                        res = None
            return res
        # sub-patterns unconstrained only if all wild/bind
        subs = p.get('sub') or [x[1] for x in p.get('fields', [])]
        if all(pat_variants(s) is None for s in subs):
            return True
        return None
    if k == 'pexpr':
        e = p['e']
        if e.get('k') == 'path':
            if val[0] == 'variant':
                return e.get('def') == val[1]
            return None
        if e.get('k') == 'lit':
            if val[0] == 'lit':
                return e.get('v') == val[1]
            if val[0] == 'any':
                return None
            return None
    if k == 'prange':
        if val[0] == 'lit':
            lo = p['lo'].get('v') if p.get('lo') else None
            hi = p['hi'].get('v') if p.get('hi') else None
            v = val[1]
            try:
                if lo is not None and v < lo:
                    return False
                if hi is not None and (v > hi or (v == hi and not p.get('incl'))):
                    return False
                return True
            except TypeError:
                return None
        return None
    return None


def first_matching_arm(m, val):
    """Index and arm of the first arm matching abstract value val. Guards make
    the result undecidable -> returns (None, reason)."""
    for i, arm in enumerate(m['arms']):
        r = pat_matches_value(arm['pat'], val)
        if r is False:
            continue
        if r is None:
            return None, 'opaque pattern in arm %d' % i
        if arm.get('guard'):
            return None, 'guarded arm %d' % i
        return i, arm
    return None, 'no arm matches'


def matches_in(n, sty_contains=None):
    out = []
    for x in walk(n):
        if x.get('k') == 'match' and (sty_contains is None or sty_contains in (x.get('sty') or '')):
            out.append(x)
    return out


# ---- constant evaluation ------------------------------------------------------
def const_eval(n):
    """Evaluate a constant initialiser expression to plain Python data:
    literals -> value; tuples -> tuple; arrays -> list; unit variants / consts ->
    ('path', def); Ctor(args) -> ('ctor', def, [args]); struct literal ->
    ('struct', def, {field: value}); method/assoc calls -> ('call', name, [args])."""
    n = peel(n)
    if not isinstance(n, dict):
        return None
    k = n.get('k')
    if k == 'lit':
        return n.get('v')
    if k == 'tup':
        return tuple(const_eval(x) for x in n['a'])
    if k == 'array':
        return [const_eval(x) for x in n['a']]
    if k == 'path':
        return ('path', n.get('def'))
    if k == 'local':
        return ('local', n.get('name'))
    if k == 'call':
        if n.get('ctor'):
            return ('ctor', n['ctor'].get('def'), [const_eval(x) for x in n['a']])
        return ('call', n.get('def') or n.get('decl'), [const_eval(x) for x in n['a']])
    if k == 'mcall':
        return ('call', n.get('def') or n.get('decl'), [const_eval(n['recv'])] + [const_eval(x) for x in n['a']])
    if k == 'struct':
        return ('struct', n['p'].get('def'), {f[0]: const_eval(f[1]) for f in n['fields']})
    if k == 'unary' and n.get('op') == '-':
        v = const_eval(n['a'])
        return -v if isinstance(v, int) else ('neg', v)
    if k == 'cast':
        return const_eval(n['a'])
    if k == 'block':
        return const_eval(n.get('e')) if n.get('e') else None
    if k == 'binary':
        return ('binary', n.get('op'), const_eval(n['a']), const_eval(n['b']))
    if k == 'constblock':
        return const_eval(n['body'])
    return ('expr', k)


def short(defpath):
    return defpath.split('::')[-1] if isinstance(defpath, str) else defpath


def enum_variants(F, adt_path):
    a = F.adt(adt_path)
    return ['%s::%s' % (adt_path, v['name']) for v in a['variants']]


def fn_match_table(F, fn, adt_path, scrut_name=None):
    """The total function computed by the (single) top-level `match` over enum
    `adt_path` in function fn: {variant short name: arm body node}. Fails closed
    (raises AnchorMissing) on guards or opaque patterns."""
    from facts import AnchorMissing
    h = F.hir_of(fn)
    ms = [m for m in matches_in(h['body']) if (m.get('sty') or '').lstrip('&').strip() == adt_path]
    if scrut_name is not None:
        ms = [m for m in ms if peel(m['scrut']).get('name') == scrut_name]
    if len(ms) != 1:
        raise AnchorMissing('%s: expected one match over %s, found %d' % (fn, adt_path, len(ms)))
    m = ms[0]
    out = {}
    for v in enum_variants(F, adt_path):
        i, arm = first_matching_arm(m, ('variant', v, None))
        if i is None:
            raise AnchorMissing('%s: match over %s not decidable for %s (%s)' % (fn, adt_path, v, arm))
        out[short(v)] = (i, arm['body'])
    return out, m


def walk_lets(n):
    """All `let` statements (dicts with k == 'let') in a body, closures included."""
    out = []
    stack = [n]
    while stack:
        x = stack.pop()
        if isinstance(x, dict):
            if x.get('k') == 'let':
                out.append(x)
            stack.extend(v for v in x.values() if isinstance(v, (dict, list)))
        elif isinstance(x, list):
            stack.extend(x)
    return out
