"""Loading and indexing of the fact files written by yfacts."""
import glob
import json
import os


class AnchorMissing(Exception):
    """A rule's anchor (function, type, constant, site floor) was not found.

    Fail-closed: the check exits 2, it never passes vacuously."""


class Body:
    """One MIR body (fn, closure or coroutine body)."""

    def __init__(self, d, crate):
        self.d = d
        self.crate = crate
        self.fn = d['fn']
        self.root = d['root']
        self.kind = d['kind']
        self.file = d['file']
        self.line = d['line']
        self.blocks = d['blocks']
        self.locals = d['locals']
        self.argc = d['argc']
        self._succ = None
        self._pred = None
        self._dom = None

    # --- CFG -----------------------------------------------------------
    def term(self, b):
        return self.blocks[b]['t']

    def succ(self, b):
        """Normal-flow successors (unwind and imaginary edges dropped)."""
        if self._succ is None:
            self._succ = [self._succ_of(i) for i in range(len(self.blocks))]
        return self._succ[b]

    def _succ_of(self, b):
        t = self.blocks[b]['t']
        k = t['k']
        if k == 'goto':
            return [t['to']]
        if k == 'switch':
            out = [x[1] for x in t['ts']] + [t['else']]
            return list(dict.fromkeys(out))
        if k in ('call', 'drop', 'assert', 'falseedge', 'falseunwind'):
            return [t['to']] if t.get('to') is not None else []
        if k == 'yield':
            return [t['to']]
        return []

    def pred(self, b):
        if self._pred is None:
            self._pred = [[] for _ in self.blocks]
            for i in range(len(self.blocks)):
                for s in self.succ(i):
                    self._pred[s].append(i)
        return self._pred[b]

    def reachable(self, start=0, removed=(), removed_edges=()):
        """Blocks reachable from `start` without entering `removed` blocks and
        without taking `removed_edges` (set of (from, to))."""
        removed = set(removed)
        seen = set()
        if start in removed:
            return seen
        stack = [start]
        while stack:
            b = stack.pop()
            if b in seen:
                continue
            seen.add(b)
            for s in self.succ(b):
                if s in removed or (b, s) in removed_edges:
                    continue
                if s not in seen:
                    stack.append(s)
        return seen

    def live_blocks(self):
        return self.reachable(0)

    def dominators(self):
        """dom[b] = set of blocks dominating b (including b), over blocks
        reachable from entry by normal flow."""
        if self._dom is not None:
            return self._dom
        live = sorted(self.live_blocks())
        allb = set(live)
        dom = {b: set(allb) for b in live}
        dom[0] = {0}
        changed = True
        # reverse post order would be faster; sizes are small
        while changed:
            changed = False
            for b in live:
                if b == 0:
                    continue
                ps = [p for p in self.pred(b) if p in allb]
                if not ps:
                    continue
                new = set.intersection(*(dom[p] for p in ps)) | {b}
                if new != dom[b]:
                    dom[b] = new
                    changed = True
        self._dom = dom
        return dom

    def dominates(self, a, b):
        """Block a dominates block b."""
        dom = self.dominators()
        return b in dom and a in dom[b]

    def shortest_path(self, start, goals, removed=(), removed_edges=()):
        from collections import deque
        removed = set(removed)
        goals = set(goals)
        prev = {start: None}
        q = deque([start])
        while q:
            b = q.popleft()
            if b in goals:
                path = []
                while b is not None:
                    path.append(b)
                    b = prev[b]
                return path[::-1]
            for s in self.succ(b):
                if s in removed or (b, s) in removed_edges or s in prev:
                    continue
                prev[s] = b
                q.append(s)
        return None

    def return_blocks(self):
        return [i for i, b in enumerate(self.blocks) if b['t']['k'] == 'return']

    # --- sites -----------------------------------------------------------
    def calls(self):
        """Yield (block index, terminator) for every call terminator in live blocks."""
        live = self.live_blocks()
        for i, b in enumerate(self.blocks):
            if i in live and b['t']['k'] == 'call':
                yield i, b['t']

    def stmts(self):
        """Yield (block index, stmt index, stmt) in live blocks."""
        live = self.live_blocks()
        for i, b in enumerate(self.blocks):
            if i in live:
                for j, s in enumerate(b['s']):
                    yield i, j, s

    def local_name(self, l):
        d = self.locals[l]
        return d.get('name') or '_%d' % l

    def loc(self, node):
        f = node.get('file') or self.file
        return '%s:%s' % (relpath(f), node.get('line', '?'))


def relpath(f):
    # paths in facts are relative to /repo (cargo runs rustc from the workspace root)
    if f.startswith('/repo/'):
        return f[len('/repo/'):]
    return f


def callee_names(t):
    """All names a call terminator answers to: resolved definition and declared
    (trait) method."""
    f = t['f']
    out = []
    if 'def' in f:
        out.append(f['def'])
    if 'decl' in f:
        out.append(f['decl'])
    return out


class Facts:
    def __init__(self, directory):
        self.dir = directory
        self.crates = {}
        self.bodies = {}       # fn path -> Body
        self.by_root = {}      # root fn path -> [Body]
        self.hir = {}          # fn path -> hir dict
        self.adts = {}
        self.impls = []
        self.fns = {}
        self.traits = {}
        self.typewalks = {}
        files = sorted(glob.glob(os.path.join(directory, '*.json')))
        if not files:
            raise AnchorMissing('no fact files in %s' % directory)
        for f in files:
            with open(f) as fh:
                d = json.load(fh)
            cr = d['crate']
            if cr in self.crates and not d['mir']:
                continue
            self.crates[cr] = {'n_body_owners': d['n_body_owners'], 'n_mir': len(d['mir']),
                               'n_hir': len(d['hir'])}
            for m in d['mir']:
                b = Body(m, cr)
                self.bodies[b.fn] = b
                self.by_root.setdefault(b.root, []).append(b)
            for hnode in d['hir']:
                hnode['crate'] = cr
                self.hir[hnode['fn']] = hnode
            it = d['items']
            for a in it['adts']:
                a['crate'] = cr
                self.adts[a['path']] = a
            for i in it['impls']:
                i['crate'] = cr
                self.impls.append(i)
            for fn in it['fns']:
                fn['crate'] = cr
                self.fns[fn['path']] = fn
            for tr in it['traits']:
                self.traits[tr['path']] = tr
            for w in d['typewalks']:
                self.typewalks[w['root']] = w['nodes']
        for cr, st in self.crates.items():
            if st['n_mir'] != st['n_body_owners']:
                raise AnchorMissing('crate %s: %d MIR bodies for %d body owners'
                                    % (cr, st['n_mir'], st['n_body_owners']))

    # --- lookup ----------------------------------------------------------
    def body(self, fn):
        b = self.bodies.get(fn)
        if b is None:
            raise AnchorMissing('function not found: %s' % fn)
        return b

    def logical(self, root):
        """All bodies of a logical function: the fn itself plus its closures and
        coroutine bodies (an `async fn` and its coroutine are one function)."""
        bs = self.by_root.get(root)
        if not bs:
            raise AnchorMissing('function not found: %s' % root)
        return bs

    def main_body(self, root):
        """The body that holds the user's code: for an `async fn`, the coroutine
        body `root::{closure#0}`; otherwise the fn body itself."""
        b = self.body(root)
        if b.d.get('coroutine') is None:
            co = self.bodies.get(root + '::{closure#0}')
            if co is not None and co.d.get('coroutine') and 'Async' in co.d['coroutine'] \
                    and self.is_async(root):
                return co
        return b

    def is_async(self, root):
        f = self.fns.get(root)
        return bool(f and f.get('async'))

    def hir_of(self, fn):
        h = self.hir.get(fn)
        if h is None:
            raise AnchorMissing('HIR not found: %s' % fn)
        return h

    def adt(self, path):
        a = self.adts.get(path)
        if a is None:
            raise AnchorMissing('type not found: %s' % path)
        return a

    def bodies_in(self, prefixes, exclude=()):
        for fn, b in self.bodies.items():
            if any(fn.startswith(p) for p in prefixes) and not any(fn.startswith(e) for e in exclude):
                yield b

    def find_fns(self, suffix):
        return [fn for fn in self.bodies if fn.endswith(suffix)]

    def callers_of(self, pred, crates=None):
        """All (body, block, term) whose callee satisfies pred(names, term)."""
        out = []
        for b in self.bodies.values():
            if crates and b.crate not in crates:
                continue
            for i, t in b.calls():
                if pred(callee_names(t), t):
                    out.append((b, i, t))
        return out


# ---------------------------------------------------------------------------------------------
# One level of inlining on the MIR facts. Extracting a block of a function into a private helper is
# the most common behaviour-preserving refactoring; dominance / guard / path rules written for the
# original function see the same control flow again when the helper is inlined at its call site.
import copy as _copy


def _shift_place(p, L):
    q = {'l': p['l'] + L}
    if p.get('p'):
        proj = []
        for e in p['p']:
            if isinstance(e, dict) and 'idx' in e:
                e = dict(e, idx=e['idx'] + L)
            proj.append(e)
        q['p'] = proj
    return q


def _shift_operand(o, L):
    if 'cp' in o:
        return {'cp': _shift_place(o['cp'], L)}
    if 'mv' in o:
        return {'mv': _shift_place(o['mv'], L)}
    return o


def _shift_rvalue(rv, L):
    rv = dict(rv)
    for k in ('o', 'a', 'b'):
        if k in rv and isinstance(rv[k], dict):
            rv[k] = _shift_operand(rv[k], L)
    if 'pl' in rv:
        rv['pl'] = _shift_place(rv['pl'], L)
    if 'ops' in rv:
        rv['ops'] = [_shift_operand(o, L) for o in rv['ops']]
    return rv


def _shift_block(blk, L, B, ret_to, dest, callee_file):
    out = {'s': [], 't': None}
    for s in blk['s']:
        s2 = dict(s)
        if 'lhs' in s2:
            s2['lhs'] = _shift_place(s2['lhs'], L)
        if 'rv' in s2:
            s2['rv'] = _shift_rvalue(s2['rv'], L)
        if s2.get('k') == 'dead':
            s2['l'] = s2['l'] + L
        if callee_file and not s2.get('file'):
            s2['file'] = callee_file
        out['s'].append(s2)
    t = dict(blk['t'])
    k = t['k']
    if callee_file and not t.get('file'):
        t['file'] = callee_file
    if k == 'return':
        # _0' -> destination of the inlined call, then continue after the call
        out['s'].append({'k': 'assign', 'lhs': dest, 'rv': {'k': 'use', 'o': {'mv': {'l': L}}}, 'line': t.get('line'),
                         'file': t.get('file')})
        out['t'] = {'k': 'goto', 'to': ret_to, 'line': t.get('line'), 'file': t.get('file')} if ret_to is not None \
            else {'k': 'unreachable', 'line': t.get('line')}
        return out
    for key in ('to', 'else', 'imag', 'drop'):
        if t.get(key) is not None and isinstance(t.get(key), int):
            t[key] = t[key] + B
    if 'unwind' in t and isinstance(t.get('unwind'), int):
        t['unwind'] = t['unwind'] + B
    if k == 'switch':
        t['ts'] = [[v, b + B] for v, b in t['ts']]
        t['d'] = _shift_operand(t['d'], L)
    if k == 'call':
        t['a'] = [_shift_operand(a, L) for a in t['a']]
        t['dest'] = _shift_place(t['dest'], L)
        if 'indirect' in t['f']:
            t['f'] = dict(t['f'], indirect=_shift_operand(t['f']['indirect'], L))
    if k == 'drop':
        t['pl'] = _shift_place(t['pl'], L)
    if k == 'assert':
        t['cond'] = _shift_operand(t['cond'], L)
    if k == 'yield':
        t['v'] = _shift_operand(t['v'], L)
    out['t'] = t
    if blk.get('cleanup'):
        out['cleanup'] = True
    return out


def inline_helpers(F, body, accept, max_blocks=120):
    """A copy of `body` in which every call whose resolved callee satisfies accept(callee_path) - and is a
    synchronous, non-recursive function of the workspace with a body of at most max_blocks blocks - is
    replaced by the callee's blocks (arguments assigned to its parameters, its return value assigned to
    the call's destination). One level only. Returns `body` itself when nothing was inlined."""
    todo = []
    for i, blk in enumerate(body.blocks):
        t = blk['t']
        if t['k'] != 'call':
            continue
        callee = t['f'].get('def')
        if not callee or callee == body.fn or callee == body.root:
            continue
        cb = F.bodies.get(callee)
        if cb is None or cb.d.get('coroutine') or (F.fns.get(callee) or {}).get('async') or len(cb.blocks) > max_blocks:
            continue
        if not accept(callee):
            continue
        if len(t['a']) != cb.argc:
            continue
        todo.append((i, t, cb))
    if not todo:
        return body
    d = _copy.deepcopy(body.d)
    for i, t, cb in todo:
        L = len(d['locals'])
        B = len(d['blocks'])
        d['locals'].extend(_copy.deepcopy(cb.locals))
        cfile = cb.file if cb.file != body.file else None
        for blk in cb.blocks:
            d['blocks'].append(_shift_block(blk, L, B, t.get('to'), t['dest'], cfile))
        head = d['blocks'][i]
        for n, a in enumerate(t['a']):
            head['s'].append({'k': 'assign', 'lhs': {'l': L + 1 + n}, 'rv': {'k': 'use', 'o': a}, 'line': t.get('line')})
        head['t'] = {'k': 'goto', 'to': B, 'line': t.get('line'), 'inlined': callee_name(t)}
        _thread_returns(F, d, B, L, cb, t)
    nb = Body(d, body.crate)
    nb.inlined_from = [cb.fn for _, _, cb in todo]
    return nb


_STD_VARIANT_INDEX = {'None': 0, 'Some': 1, 'Ok': 0, 'Err': 1, 'Continue': 0, 'Break': 1, 'Ready': 0, 'Pending': 1}


def _thread_returns(F, d, B, L, cb, call):
    """Jump threading for an inlined helper whose result is tested right after the call
    (`if let Some(x) = helper()`, `match helper() {..}`, `if helper() {..}`): a return path of the helper that
    assigns a constant variant / constant bool to its return place is sent directly to the matching target of the
    caller's test, through private copies of the (linear) blocks in between. Without this, the merge at the
    helper's single return block would hide which guard chain leads to which arm."""
    blocks = d['blocks']
    K = call.get('to')
    if K is None:
        return
    dest = call['dest']
    if dest.get('p'):
        return
    dl = dest['l']

    def single_succ(b):
        t = blocks[b]['t']
        if t['k'] in ('goto', 'falseedge', 'falseunwind', 'drop') and t.get('to') is not None:
            return t['to']
        return None
    # find the test in the caller: follow linear blocks from K
    chainK = []
    cur = K
    test = None
    for _ in range(6):
        t = blocks[cur]['t']
        if t['k'] == 'switch':
            # operand must be discriminant(dest) computed in this chain, or dest itself (bool)
            op = t['d']
            pl = op.get('cp') or op.get('mv')
            if pl is not None and not pl.get('p'):
                if pl['l'] == dl:
                    test = (cur, 'bool')
                else:
                    for cb_ in chainK + [cur]:
                        for s_ in blocks[cb_]['s']:
                            if s_.get('k') == 'assign' and s_['lhs']['l'] == pl['l'] and s_['rv']['k'] == 'discr' and \
                                    s_['rv']['pl']['l'] == dl and not s_['rv']['pl'].get('p'):
                                test = (cur, 'discr')
            break
        nxt = single_succ(cur)
        if nxt is None:
            break
        chainK.append(cur)
        cur = nxt
    if test is None:
        return
    sw_block, kind = test
    sw = blocks[sw_block]['t']
    tmap = {v: b for v, b in sw['ts']}
    # return place of the inlined callee is local L; find blocks assigning it a constant
    n_callee = len(cb.blocks)
    for a in range(B, B + n_callee):
        val = None
        for s_ in blocks[a]['s']:
            if s_.get('k') == 'assign' and s_['lhs']['l'] == L and not s_['lhs'].get('p'):
                rv = s_['rv']
                val = None
                if rv['k'] == 'agg' and rv.get('ak') == 'adt' and kind == 'discr':
                    val = _STD_VARIANT_INDEX.get(rv['variant'])
                    if val is None:
                        adt = F.adts.get(rv['adt'])
                        if adt:
                            names = [v['name'] for v in adt['variants']]
                            val = names.index(rv['variant']) if rv['variant'] in names else None
                elif rv['k'] == 'use' and 'c' in rv['o'] and kind == 'bool' and str(rv['o']['c']) in ('true', 'false'):
                    val = 1 if str(rv['o']['c']) == 'true' else 0
        if val is None:
            continue
        # linear chain from a to the inlined return block (the one that now assigns dest and goes to K)
        path = []
        cur = single_succ(a)
        ok = False
        for _ in range(40):
            if cur is None:
                break
            if cur == K:
                ok = True
                break
            # no other assignment to the return place on the way
            if any(s_.get('k') == 'assign' and s_['lhs']['l'] == L for s_ in blocks[cur]['s']):
                break
            path.append(cur)
            cur = single_succ(cur)
        if not ok or blocks[a]['t']['k'] == 'switch':
            continue
        target = tmap.get(val, sw['else'])
        # private copies of path + chainK (+ the statements of the switch block), ending in goto target
        seq = path + chainK + [sw_block]
        first_copy = None
        prev = None
        for b in seq:
            nb = {'s': _copy.deepcopy(blocks[b]['s']), 't': None}
            idx = len(blocks)
            blocks.append(nb)
            if first_copy is None:
                first_copy = idx
            if prev is not None:
                blocks[prev]['t'] = dict(blocks[prev]['t'], to=idx)
            if b == sw_block:
                nb['t'] = {'k': 'goto', 'to': target, 'line': sw.get('line'), 'threaded': True}
            else:
                t0 = blocks[b]['t']
                nb['t'] = dict(_copy.deepcopy(t0))
            prev = idx
        # redirect a
        ta = blocks[a]['t']
        if ta.get('to') is not None:
            blocks[a]['t'] = dict(ta, to=first_copy)


def callee_name(t):
    return t['f'].get('def') or t['f'].get('decl')


def same_module_private(F, fn):
    """accept-predicate for inline_helpers: non-public functions defined in the same module as fn (or nested in it)."""
    mod = fn.rsplit('::', 1)[0]
    mod = mod.split('::<impl')[0]

    def accept(callee):
        sig = F.fns.get(callee)
        if sig is None or sig.get('vis') == 'pub':
            return False
        cmod = callee.rsplit('::', 1)[0].split('::<impl')[0]
        return cmod == mod or cmod.startswith(mod) or mod.startswith(cmod) or callee.startswith(fn + '::')
    return accept


def _facts_inlined(self, fn_or_body, accept=None):
    body = self.main_body(fn_or_body) if isinstance(fn_or_body, str) else fn_or_body
    return inline_helpers(self, body, accept or same_module_private(self, body.root))


Facts.inlined = _facts_inlined
