"""Loading and indexing of the fact files written by yfacts."""
import glob
import json
import os


class AnchorMissing(Exception):
    """A rule's anchor (function, type, constant, site floor) was not found.

    Fail-closed: the check exits 2, it never passes vacuously."""


class Body:
    """One MIR body (fn, closure or coroutine body)."""

    def __init__(self, d, crate):
        self.d = d
        self.crate = crate
        self.fn = d['fn']
        self.root = d['root']
        self.kind = d['kind']
        self.file = d['file']
        self.line = d['line']
        self.blocks = d['blocks']
        self.locals = d['locals']
        self.argc = d['argc']
        self._succ = None
        self._pred = None
        self._dom = None

    # --- CFG -----------------------------------------------------------
    def term(self, b):
        return self.blocks[b]['t']

    def succ(self, b):
        """Normal-flow successors (unwind and imaginary edges dropped)."""
        if self._succ is None:
            self._succ = [self._succ_of(i) for i in range(len(self.blocks))]
        return self._succ[b]

    def _succ_of(self, b):
        t = self.blocks[b]['t']
        k = t['k']
        if k == 'goto':
            return [t['to']]
        if k == 'switch':
            out = [x[1] for x in t['ts']] + [t['else']]
            return list(dict.fromkeys(out))
        if k in ('call', 'drop', 'assert', 'falseedge', 'falseunwind'):
            return [t['to']] if t.get('to') is not None else []
        if k == 'yield':
            return [t['to']]
        return []

    def pred(self, b):
        if self._pred is None:
            self._pred = [[] for _ in self.blocks]
            for i in range(len(self.blocks)):
                for s in self.succ(i):
                    self._pred[s].append(i)
        return self._pred[b]

    def reachable(self, start=0, removed=(), removed_edges=()):
        """Blocks reachable from `start` without entering `removed` blocks and
        without taking `removed_edges` (set of (from, to))."""
        removed = set(removed)
        seen = set()
        if start in removed:
            return seen
        stack = [start]
        while stack:
            b = stack.pop()
            if b in seen:
                continue
            seen.add(b)
            for s in self.succ(b):
                if s in removed or (b, s) in removed_edges:
                    continue
                if s not in seen:
                    stack.append(s)
        return seen

    def live_blocks(self):
        return self.reachable(0)

    def dominators(self):
        """dom[b] = set of blocks dominating b (including b), over blocks
        reachable from entry by normal flow."""
        if self._dom is not None:
            return self._dom
        live = sorted(self.live_blocks())
        allb = set(live)
        dom = {b: set(allb) for b in live}
        dom[0] = {0}
        changed = True
        # reverse post order would be faster; sizes are small
        while changed:
            changed = False
            for b in live:
                if b == 0:
                    continue
                ps = [p for p in self.pred(b) if p in allb]
                if not ps:
                    continue
                new = set.intersection(*(dom[p] for p in ps)) | {b}
                if new != dom[b]:
                    dom[b] = new
                    changed = True
        self._dom = dom
        return dom

    def dominates(self, a, b):
        """Block a dominates block b."""
        dom = self.dominators()
        return b in dom and a in dom[b]

    def shortest_path(self, start, goals, removed=(), removed_edges=()):
        from collections import deque
        removed = set(removed)
        goals = set(goals)
        prev = {start: None}
        q = deque([start])
        while q:
            b = q.popleft()
            if b in goals:
                path = []
                while b is not None:
                    path.append(b)
                    b = prev[b]
                return path[::-1]
            for s in self.succ(b):
                if s in removed or (b, s) in removed_edges or s in prev:
                    continue
                prev[s] = b
                q.append(s)
        return None

    def return_blocks(self):
        return [i for i, b in enumerate(self.blocks) if b['t']['k'] == 'return']

    # --- sites -----------------------------------------------------------
    def calls(self):
        """Yield (block index, terminator) for every call terminator in live blocks."""
        live = self.live_blocks()
        for i, b in enumerate(self.blocks):
            if i in live and b['t']['k'] == 'call':
                yield i, b['t']

    def stmts(self):
        """Yield (block index, stmt index, stmt) in live blocks."""
        live = self.live_blocks()
        for i, b in enumerate(self.blocks):
            if i in live:
                for j, s in enumerate(b['s']):
                    yield i, j, s

    def local_name(self, l):
        d = self.locals[l]
        return d.get('name') or '_%d' % l

    def loc(self, node):
        f = node.get('file') or self.file
        return '%s:%s' % (relpath(f), node.get('line', '?'))


def relpath(f):
    # paths in facts are relative to /repo (cargo runs rustc from the workspace root)
    if f.startswith('/repo/'):
        return f[len('/repo/'):]
    return f


def callee_names(t):
    """All names a call terminator answers to: resolved definition and declared
    (trait) method."""
    f = t['f']
    out = []
    if 'def' in f:
        out.append(f['def'])
    if 'decl' in f:
        out.append(f['decl'])
    return out


class Facts:
    def __init__(self, directory):
        self.dir = directory
        self.crates = {}
        self.bodies = {}       # fn path -> Body
        self.by_root = {}      # root fn path -> [Body]
        self.hir = {}          # fn path -> hir dict
        self.adts = {}
        self.impls = []
        self.fns = {}
        self.traits = {}
        self.typewalks = {}
        files = sorted(glob.glob(os.path.join(directory, '*.json')))
        if not files:
            raise AnchorMissing('no fact files in %s' % directory)
        for f in files:
            with open(f) as fh:
                d = json.load(fh)
            cr = d['crate']
            if cr in self.crates and not d['mir']:
                continue
            self.crates[cr] = {'n_body_owners': d['n_body_owners'], 'n_mir': len(d['mir']),
                               'n_hir': len(d['hir'])}
            for m in d['mir']:
                b = Body(m, cr)
                self.bodies[b.fn] = b
                self.by_root.setdefault(b.root, []).append(b)
            for hnode in d['hir']:
                hnode['crate'] = cr
                self.hir[hnode['fn']] = hnode
            it = d['items']
            for a in it['adts']:
                a['crate'] = cr
                self.adts[a['path']] = a
            for i in it['impls']:
                i['crate'] = cr
                self.impls.append(i)
            for fn in it['fns']:
                fn['crate'] = cr
                self.fns[fn['path']] = fn
            for tr in it['traits']:
                self.traits[tr['path']] = tr
            for w in d['typewalks']:
                self.typewalks[w['root']] = w['nodes']
        for cr, st in self.crates.items():
            if st['n_mir'] != st['n_body_owners']:
                raise AnchorMissing('crate %s: %d MIR bodies for %d body owners'
                                    % (cr, st['n_mir'], st['n_body_owners']))

    # --- lookup ----------------------------------------------------------
    def body(self, fn):
        b = self.bodies.get(fn)
        if b is None:
            raise AnchorMissing('function not found: %s' % fn)
        return b

    def logical(self, root):
        """All bodies of a logical function: the fn itself plus its closures and
        coroutine bodies (an `async fn` and its coroutine are one function)."""
        bs = self.by_root.get(root)
        if not bs:
            raise AnchorMissing('function not found: %s' % root)
        return bs

    def main_body(self, root):
        """The body that holds the user's code: for an `async fn`, the coroutine
        body `root::{closure#0}`; otherwise the fn body itself."""
        b = self.body(root)
        if b.d.get('coroutine') is None:
            co = self.bodies.get(root + '::{closure#0}')
            if co is not None and co.d.get('coroutine') and 'Async' in co.d['coroutine'] \
                    and self.is_async(root):
                return co
        return b

    def is_async(self, root):
        f = self.fns.get(root)
        return bool(f and f.get('async'))

    def hir_of(self, fn):
        h = self.hir.get(fn)
        if h is None:
            raise AnchorMissing('HIR not found: %s' % fn)
        return h

    def adt(self, path):
        a = self.adts.get(path)
        if a is None:
            raise AnchorMissing('type not found: %s' % path)
        return a

    def bodies_in(self, prefixes, exclude=()):
        for fn, b in self.bodies.items():
            if any(fn.startswith(p) for p in prefixes) and not any(fn.startswith(e) for e in exclude):
                yield b

    def find_fns(self, suffix):
        return [fn for fn in self.bodies if fn.endswith(suffix)]

    def callers_of(self, pred, crates=None):
        """All (body, block, term) whose callee satisfies pred(names, term)."""
        out = []
        for b in self.bodies.values():
            if crates and b.crate not in crates:
                continue
            for i, t in b.calls():
                if pred(callee_names(t), t):
                    out.append((b, i, t))
        return out
