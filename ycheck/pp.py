"""Text rendering of MIR facts (for reports and for rule development)."""


def place(b, p):
    s = b.local_name(p['l']) if b else '_%d' % p['l']
    for e in p.get('p') or []:
        if e == '*':
            s = '(*%s)' % s
        elif isinstance(e, str):
            s = '%s.<%s>' % (s, e)
        elif 'f' in e:
            s = '%s.%s' % (s, e['f'])
        elif 'v' in e:
            s = '(%s as %s)' % (s, e['v'])
        elif 'idx' in e:
            s = '%s[_%d]' % (s, e['idx'])
        else:
            s = '%s[..]' % s
    return s


def operand(b, o):
    if 'cp' in o:
        return place(b, o['cp'])
    if 'mv' in o:
        return 'move ' + place(b, o['mv'])
    if 'fn' in o:
        return 'fn ' + o['fn']
    if 'cdef' in o:
        return 'const ' + o['cdef']
    if 'c' in o:
        return o['c']
    return str(o)


def rvalue(b, rv):
    k = rv['k']
    if k == 'use':
        return operand(b, rv['o'])
    if k == 'ref':
        return ('&mut ' if rv['mut'] else '&') + place(b, rv['pl'])
    if k == 'binop':
        return '%s(%s, %s)' % (rv['op'], operand(b, rv['a']), operand(b, rv['b']))
    if k == 'unop':
        return '%s(%s)' % (rv['op'], operand(b, rv['o']))
    if k == 'cast':
        return '%s as %s [%s]' % (operand(b, rv['o']), rv['to'], rv['ck'])
    if k == 'discr':
        return 'discriminant(%s)' % place(b, rv['pl'])
    if k == 'agg':
        ops = ', '.join(operand(b, o) for o in rv['ops'])
        if rv['ak'] == 'adt':
            return '%s::%s{%s}' % (rv['adt'], rv['variant'], ops)
        if rv['ak'] in ('closure', 'coroutine', 'coroutine_closure'):
            return '%s %s{%s}' % (rv['ak'], rv['def'], ops)
        return '%s(%s)' % (rv['ak'], ops)
    if k == 'rawptr':
        return '&raw ' + place(b, rv['pl'])
    return rv.get('dbg', k)


def callee(t):
    f = t['f']
    if 'def' in f:
        return f['def']
    if 'decl' in f:
        s = f['decl']
        if f.get('self'):
            s += ' [Self=%s]' % f['self']
        return s
    return 'indirect ' + str(f.get('ty'))


def term(b, t):
    k = t['k']
    if k == 'call':
        return '%s = %s(%s) -> bb%s' % (place(b, t['dest']), callee(t),
                                        ', '.join(operand(b, a) for a in t['a']), t.get('to'))
    if k == 'switch':
        return 'switch %s [%s, else bb%d]' % (operand(b, t['d']),
                                             ', '.join('%d: bb%d' % (v, x) for v, x in t['ts']), t['else'])
    if k == 'goto':
        return 'goto bb%d' % t['to']
    if k == 'drop':
        return 'drop(%s: %s) -> bb%d' % (place(b, t['pl']), t['ty'], t['to'])
    if k == 'yield':
        return 'yield -> bb%d' % t['to']
    if k == 'assert':
        return 'assert(%s == %s, %s) -> bb%d' % (operand(b, t['cond']), t['expected'], t['msg'], t['to'])
    if k in ('falseedge', 'falseunwind'):
        return '%s -> bb%d' % (k, t['to'])
    return k


def body(b, live_only=True):
    out = ['fn %s  (%s:%d)' % (b.fn, b.file, b.line)]
    for i, l in enumerate(b.locals):
        if l.get('name'):
            out.append('  let _%d: %s  // %s' % (i, l['ty'], l['name']))
    live = b.live_blocks()
    for i, blk in enumerate(b.blocks):
        if live_only and i not in live:
            continue
        out.append(' bb%d:' % i)
        for s in blk['s']:
            if s['k'] == 'assign':
                out.append('    %s = %s   // L%s' % (place(b, s['lhs']), rvalue(b, s['rv']), s.get('line')))
            elif s['k'] == 'dead':
                pass
            else:
                out.append('    %s' % s['k'])
        out.append('    %s   // L%s' % (term(b, blk['t']), blk['t'].get('line')))
    return '\n'.join(out)


if __name__ == '__main__':
    import sys
    from facts import Facts
    F = Facts(sys.argv[1])
    for fn in sys.argv[2:]:
        names = [n for n in F.bodies if fn in n]
        for n in names:
            print(body(F.bodies[n]))
            print()
