"""Rule runner: obligations, violations, known findings, evidence."""
import json
import os
import time
import traceback

from facts import AnchorMissing

VERIF = os.path.dirname(os.path.dirname(os.path.abspath(__file__)))


class Rule:
    def __init__(self, rid, kind, title, fn, tier='quick'):
        self.id = rid
        self.kind = kind
        self.title = title
        self.fn = fn
        self.tier = tier


class RuleSet:
    """Rules of one property."""

    def __init__(self, prop, explanation, not_decided, trusted=(), assumptions=()):
        self.prop = prop
        self.explanation = explanation
        self.not_decided = not_decided
        self.trusted = list(trusted)
        self.assumptions = list(assumptions)
        self.rules = []

    def rule(self, rid, kind, title, tier='quick'):
        def deco(fn):
            self.rules.append(Rule(rid, kind, title, fn, tier))
            return fn
        return deco


class Ctx:
    """Passed to each rule function."""

    def __init__(self, F, prop, rule):
        self.F = F
        self.prop = prop
        self.rule = rule
        self.sites = []        # examined sites (strings)
        self.violations = []   # dicts
        self.samples = []
        self.functions = set()
        self.cells = 0
        self.pending = []

    # -- bookkeeping
    def fn(self, name):
        """Record that a function was analysed."""
        self.functions.add(name)

    def site(self, desc):
        self.sites.append(desc)

    def sample(self, s):
        if len(self.samples) < 6:
            self.samples.append(s)

    def cellcount(self, n):
        self.cells += n

    def require(self, cond, msg):
        if not cond:
            raise AnchorMissing('%s: %s' % (self.rule.id, msg))

    def floor(self, n, floor, what):
        """Fail closed if fewer sites matched than counted by hand."""
        if n < floor:
            # deferred: a rule that also found a violation reports the violation;
            # otherwise the unmet floor is an anchor error (never a silent pass)
            self.pending.append('%s: only %d %s matched, expected at least %d' % (self.rule.id, n, what, floor))

    def violation(self, function, descriptor, message, loc=None, path=None):
        key = '%s|%s|%s' % (self.rule.id, function, descriptor)
        self.violations.append({
            'rule': self.rule.id, 'kind': self.rule.kind, 'key': key,
            'function': function, 'site': descriptor, 'message': message,
            'loc': loc, 'path': path,
        })


def load_known():
    p = os.path.join(VERIF, 'known_findings.json')
    if not os.path.exists(p):
        return {'open': [], 'fixed': []}
    with open(p) as fh:
        return json.load(fh)


def run(ruleset, F, tier, seed, t0, extra_rules=(), checker_cmd='', write_evidence=True):
    """Evaluate all rules; print report; write evidence; return exit code."""
    prop = ruleset.prop
    known = load_known()
    open_keys = {k['key']: k for k in known.get('open', []) if k['property'] == prop}
    results = []
    infra_errors = []
    all_viol = []
    for r in list(ruleset.rules) + list(extra_rules):
        if r.tier == 'thorough' and tier != 'thorough':
            continue
        cx = Ctx(F, prop, r)
        try:
            r.fn(cx)
            if not cx.sites and not cx.cells:
                raise AnchorMissing('%s: rule examined no site (vacuous)' % r.id)
            if cx.pending and not cx.violations:
                raise AnchorMissing('; '.join(cx.pending))
        except AnchorMissing as e:
            if cx.violations:
                # the rule had already established violations before an anchor went missing
                print('ANCHOR-MISSING (after violations) %s' % e)
                results.append((r, cx))
                all_viol.extend(cx.violations)
                continue
            infra_errors.append(str(e))
            print('ANCHOR-MISSING %s' % e)
            continue
        except Exception:
            infra_errors.append('%s: %s' % (r.id, traceback.format_exc()))
            print('RULE-ERROR %s\n%s' % (r.id, traceback.format_exc()))
            continue
        results.append((r, cx))
        all_viol.extend(cx.violations)

    new_viol = [v for v in all_viol if v['key'] not in open_keys]
    known_hit = [v for v in all_viol if v['key'] in open_keys]

    replay_dir = os.path.join(VERIF, 'evidence', 'replay')
    os.makedirs(replay_dir, exist_ok=True)
    for r, cx in results:
        status = 'ok' if not cx.violations else 'VIOLATED'
        print('%-9s %-10s %-8s sites=%-4d fns=%-3d %s' % (r.id, r.kind, status, len(cx.sites) + cx.cells,
                                                         len(cx.functions), r.title))
    seen_known = set()
    for v in known_hit:
        if v['key'] in seen_known:
            continue
        seen_known.add(v['key'])
        print('KNOWN-FINDING: property=%s %s [%s] %s' % (prop, v['key'], v.get('loc'), v['message']))
    for n, v in enumerate(new_viol):
        rp = os.path.join(replay_dir, '%s_%d.json' % (prop, n))
        if write_evidence:
            with open(rp, 'w') as fh:
                json.dump(v, fh, indent=1)
        print('  rule %s (%s) in %s at %s: %s' % (v['rule'], v['kind'], v['function'], v.get('loc'), v['message']))
        if v.get('path'):
            print('    path: %s' % v['path'])
        print('VIOLATION property=%s replay=%s' % (prop, rp))

    obligations = len(results) + len(infra_errors)
    discharged = sum(1 for r, cx in results if not [v for v in cx.violations if v['key'] not in open_keys])
    sites = sum(len(cx.sites) + cx.cells for r, cx in results)
    distinct = len({s for r, cx in results for s in cx.sites}) + sum(cx.cells for r, cx in results)
    fns = set()
    for r, cx in results:
        fns |= cx.functions
    samples = []
    for r, cx in results:
        for s in cx.samples[:2]:
            samples.append({'rule': r.id, 'site': s})
    if not samples:
        samples = [{'rule': r.id, 'site': cx.sites[0]} for r, cx in results if cx.sites][:5]
    ev = {
        'property_id': prop,
        'tier': tier,
        'seed': seed,
        'level': 'other',
        'coverage': {
            'explanation': ruleset.explanation,
            'not_decided': ruleset.not_decided,
            'obligations': obligations,
            'discharged': discharged,
            'evaluations': max(sites, 1),
            'distinct_nontrivial': distinct,
            'rule': 'one evaluation = one program site (call, assignment, aggregate, match arm, table cell, '
                    'type node) examined by a rule instance on the facts extracted from /repo in this run; '
                    'distinct = distinct site descriptors; a site is non-trivial because it matched a rule '
                    'anchor (resolved callee/type/field), not a text pattern',
            'samples': samples,
            'rules': [{'id': r.id, 'kind': r.kind, 'title': r.title, 'sites': len(cx.sites) + cx.cells,
                       'functions': sorted(cx.functions)[:12], 'violations': len(cx.violations)}
                      for r, cx in results],
            'functions_analysed': len(fns),
            'bodies_in_scope': len(F.bodies),
            'crates': F.crates,
            'checker_cmd': checker_cmd,
            'trusted_base': ['rustc nightly HIR/MIR construction and type checking (facts come from the '
                             'compiler, not from text)', 'reference tables and allow-lists in /verif/rules/%s.py'
                             % prop] + ruleset.trusted,
            'exhaustive': False,
            'known_findings': sorted(seen_known),
            'infrastructure_errors': infra_errors,
        },
        'assumptions': ruleset.assumptions,
        'wall_s': round(time.time() - t0, 2),
        'violations': len(new_viol),
    }
    if write_evidence:
        os.makedirs(os.path.join(VERIF, 'evidence'), exist_ok=True)
        with open(os.path.join(VERIF, 'evidence', '%s.json' % prop), 'w') as fh:
            json.dump(ev, fh, indent=1)
    print('%s: %d rules, %d discharged, %d sites, %d functions, %d known findings, %d new violations, %d infra errors'
          % (prop, obligations, discharged, sites, len(fns), len(seen_known), len(new_viol), len(infra_errors)))
    if new_viol:
        return 1
    if infra_errors:
        return 2
    return 0
