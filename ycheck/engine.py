"""Rule runner: obligations, violations, known findings, evidence."""
import json
import re
import os
import time
import traceback

from facts import AnchorMissing

VERIF = os.path.dirname(os.path.dirname(os.path.abspath(__file__)))


class Rule:
    def __init__(self, rid, kind, title, fn, tier='quick'):
        self.id = rid
        self.kind = kind
        self.title = title
        self.fn = fn
        self.tier = tier


class RuleSet:
    """Rules of one property."""

    def __init__(self, prop, explanation, not_decided, trusted=(), assumptions=()):
        self.prop = prop
        self.explanation = explanation
        self.not_decided = not_decided
        self.trusted = list(trusted)
        self.assumptions = list(assumptions)
        self.rules = []

    def rule(self, rid, kind, title, tier='quick'):
        def deco(fn):
            self.rules.append(Rule(rid, kind, title, fn, tier))
            return fn
        return deco


class Ctx:
    """Passed to each rule function."""

    def __init__(self, F, prop, rule):
        self.F = F
        self.prop = prop
        self.rule = rule
        self.sites = []        # examined sites (strings)
        self.violations = []   # dicts
        self.samples = []
        self.functions = set()
        self.cells = 0
        self.pending = []

    # -- bookkeeping
    def fn(self, name):
        """Record that a function was analysed."""
        self.functions.add(name)

    def site(self, desc):
        self.sites.append(desc)

    def sample(self, s):
        if len(self.samples) < 6:
            self.samples.append(s)

    def cellcount(self, n):
        self.cells += n

    def require(self, cond, msg):
        if not cond:
            raise AnchorMissing('%s: %s' % (self.rule.id, msg))

    def floor(self, n, floor, what):
        """Fail closed if fewer sites matched than counted by hand."""
        if n < floor:
            # deferred: a rule that also found a violation reports the violation;
            # otherwise the unmet floor is an anchor error (never a silent pass)
            self.pending.append('%s: only %d %s matched, expected at least %d' % (self.rule.id, n, what, floor))

    def violation(self, function, descriptor, message, loc=None, path=None):
        key = '%s|%s|%s' % (self.rule.id, function, descriptor)
        self.violations.append({
            'rule': self.rule.id, 'kind': self.rule.kind, 'key': key,
            'function': function, 'site': descriptor, 'message': message,
            'loc': loc, 'path': path,
        })


def load_known():
    p = os.path.join(VERIF, 'known_findings.json')
    if not os.path.exists(p):
        return {'open': [], 'fixed': []}
    with open(p) as fh:
        return json.load(fh)


class Run:
    """One check invocation: rules evaluated over one or more fact sets (feature
    configurations), optional self-test results, one evidence file."""

    def __init__(self, ruleset, tier, seed, t0, checker_cmd='', write_evidence=True):
        self.rs = ruleset
        self.prop = ruleset.prop
        self.tier = tier
        self.seed = seed
        self.t0 = t0
        self.cmd = checker_cmd
        self.write = write_evidence
        known = load_known()
        self.open_keys = {k['key']: k for k in known.get('open', []) if k['property'] == self.prop}
        self.results = []       # (config, rule, cx)
        self.infra = []
        self.skipped = []
        self.viol = {}          # key -> violation (deduplicated across configs)
        self.configs = {}
        self.selftest = []
        self.F0 = None

    def evaluate(self, F, config, lenient=False):
        if self.F0 is None:
            self.F0 = F
        self.configs[config] = F.crates
        for r in self.rs.rules:
            if r.tier == 'thorough' and self.tier != 'thorough':
                continue
            if r.kind == 'K-WITNESS' and config != 'default':
                continue
            cx = Ctx(F, self.prop, r)
            if lenient:
                # a partial feature configuration builds some crates only: a report about a function of a crate that is not
                # part of this configuration ("no longer exists / no longer calls ..") says nothing about the source
                built = set(F.crates)
                _report = cx.violation

                def _filtered(function, descriptor, message, loc=None, path=None, _report=_report, built=built):
                    m_ = re.match(r'^<?(\w+)::', function or '')
                    if m_ and m_.group(1).startswith('yash_') and m_.group(1) not in built:
                        return
                    if loc is None:
                        # a report without a source location complains about something that is ABSENT ("no longer calls ..",
                        # "no option table ..."): in a configuration that compiles part of the code that is expected; the
                        # default and all-features configurations decide it
                        return
                    _report(function, descriptor, message, loc=loc, path=path)
                cx.violation = _filtered
            try:
                r.fn(cx)
                if not cx.sites and not cx.cells:
                    raise AnchorMissing('%s: rule examined no site (vacuous)' % r.id)
                if cx.pending and not cx.violations:
                    raise AnchorMissing('; '.join(cx.pending))
            except AnchorMissing as e:
                if cx.violations:
                    print('ANCHOR-MISSING (after violations) [%s] %s' % (config, e))
                elif lenient:
                    self.skipped.append('%s [%s]: %s' % (r.id, config, str(e)[:160]))
                    continue
                else:
                    self.infra.append('[%s] %s' % (config, e))
                    print('ANCHOR-MISSING [%s] %s' % (config, e))
                    continue
            except Exception:
                self.infra.append('[%s] %s: %s' % (config, r.id, traceback.format_exc()))
                print('RULE-ERROR [%s] %s\n%s' % (config, r.id, traceback.format_exc()))
                continue
            self.results.append((config, r, cx))
            for v in cx.violations:
                v['config'] = config
                self.viol.setdefault(v['key'], v)
            status = 'ok' if not cx.violations else 'VIOLATED'
            print('%-9s %-10s %-8s sites=%-4d fns=%-3d %s%s' % (r.id, r.kind, status, len(cx.sites) + cx.cells,
                                                              len(cx.functions), r.title,
                                                              '' if config == 'default' else '  [%s]' % config))

    def add_selftest(self, name, status, detail=''):
        self.selftest.append({'variant': name, 'status': status})
        if status not in ('DETECTED', 'BENIGN-OK', 'BENIGN-NOVERDICT'):
            self.infra.append('self-test: seeded variant %s was %s %s' % (name, status, detail[-300:]))
            print('SELFTEST-FAILED %s: %s' % (name, status))

    def finish(self):
        prop = self.prop
        new_viol = [v for k, v in self.viol.items() if k not in self.open_keys]
        known_hit = [v for k, v in self.viol.items() if k in self.open_keys]
        replay_dir = os.path.join(VERIF, 'evidence', 'replay')
        if self.write:
            os.makedirs(replay_dir, exist_ok=True)
        for v in known_hit:
            print('KNOWN-FINDING: property=%s %s [%s] %s' % (prop, v['key'], v.get('loc'), v['message']))
        for n, v in enumerate(new_viol):
            rp = os.path.join(replay_dir, '%s_%d.json' % (prop, n))
            if self.write:
                with open(rp, 'w') as fh:
                    json.dump(v, fh, indent=1)
            print('  rule %s (%s) in %s at %s: %s' % (v['rule'], v['kind'], v['function'], v.get('loc'), v['message']))
            if v.get('path'):
                print('    path: %s' % v['path'])
            print('VIOLATION property=%s replay=%s' % (prop, rp))
        rules_seen = {}
        for config, r, cx in self.results:
            d = rules_seen.setdefault(r.id, {'id': r.id, 'kind': r.kind, 'title': r.title, 'sites': 0, 'functions': set(),
                                             'violations': 0, 'configs': []})
            d['sites'] = max(d['sites'], len(cx.sites) + cx.cells)
            d['functions'] |= cx.functions
            d['violations'] = max(d['violations'], len(cx.violations))
            d['configs'].append(config)
        obligations = len(rules_seen) + len(self.infra)
        bad_rules = {v['rule'] for v in new_viol}
        discharged = sum(1 for rid in rules_seen if rid not in bad_rules)
        default_res = [(r, cx) for config, r, cx in self.results if config == 'default'] or [(r, cx) for c, r, cx in self.results]
        sites = sum(len(cx.sites) + cx.cells for r, cx in default_res)
        distinct = len({s for r, cx in default_res for s in cx.sites}) + sum(cx.cells for r, cx in default_res)
        fns = set()
        for r, cx in default_res:
            fns |= cx.functions
        samples = []
        for r, cx in default_res:
            for s_ in cx.samples[:2]:
                samples.append({'rule': r.id, 'site': s_})
        if len(samples) < 3:
            samples += [{'rule': r.id, 'site': cx.sites[0]} for r, cx in default_res if cx.sites][:6]
        F = self.F0
        ev = {
            'property_id': prop,
            'tier': self.tier,
            'seed': self.seed,
            'level': 'other',
            'coverage': {
                'explanation': self.rs.explanation,
                'not_decided': self.rs.not_decided,
                'obligations': obligations,
                'discharged': discharged,
                'evaluations': max(sites, 1),
                'distinct_nontrivial': distinct,
                'rule': 'one evaluation = one program site (call, assignment, aggregate, match arm, table cell, '
                        'type node) examined by a rule instance on the facts extracted from /repo in this run; '
                        'distinct = distinct site descriptors; a site is non-trivial because it matched a rule '
                        'anchor (resolved callee/type/field), not a text pattern',
                'samples': samples,
                'rules': [dict(d, functions=sorted(d['functions'])[:12]) for d in rules_seen.values()],
                'functions_analysed': len(fns),
                'bodies_in_scope': len(F.bodies) if F else 0,
                'feature_configurations': self.configs,
                'rules_skipped_in_partial_configurations': self.skipped,
                'seeded_variant_selftest': self.selftest,
                'checker_cmd': self.cmd,
                'trusted_base': ['rustc nightly HIR/MIR construction and type checking (facts come from the '
                                 'compiler, not from text)', 'reference tables and allow-lists in /verif/rules/%s.py'
                                 % prop] + self.rs.trusted,
                'exhaustive': False,
                'known_findings': sorted(v['key'] for v in known_hit),
                'infrastructure_errors': self.infra,
            },
            'assumptions': self.rs.assumptions,
            'wall_s': round(time.time() - self.t0, 2),
            'violations': len(new_viol),
        }
        if self.write:
            os.makedirs(os.path.join(VERIF, 'evidence'), exist_ok=True)
            with open(os.path.join(VERIF, 'evidence', '%s.json' % prop), 'w') as fh:
                json.dump(ev, fh, indent=1)
        print('%s: %d rules, %d discharged, %d sites, %d functions, %d known findings, %d new violations, %d infra errors'
              % (prop, obligations, discharged, sites, len(fns), len(known_hit), len(new_viol), len(self.infra)))
        if new_viol:
            return 1
        if self.infra:
            return 2
        return 0
