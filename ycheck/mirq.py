"""Queries over MIR facts: site matching, def-use chains, edge conditions,
dominance by edges, must-pass-through and resource-pairing checks."""
import re, json
from facts import callee_names

STD_VARIANTS = {
    'core::option::Option': ['None', 'Some'],
    'core::result::Result': ['Ok', 'Err'],
    'core::ops::control_flow::ControlFlow': ['Continue', 'Break'],
    'core::task::poll::Poll': ['Ready', 'Pending'],
}


# ---------------------------------------------------------------- names
def name_matches(name, pat):
    """pat: exact path, or '*::suffix' (path ends with ::suffix), or a compiled regex."""
    if hasattr(pat, 'search'):
        return bool(pat.search(name))
    if pat.startswith('*::'):
        return name.endswith(pat[1:]) or name == pat[3:]
    return name == pat


def callee_is(t, pats):
    if isinstance(pats, (str,)) or hasattr(pats, 'search'):
        pats = [pats]
    for n in callee_names(t):
        for p in pats:
            if name_matches(n, p):
                return True
    return False


def find_calls(body, pats):
    """[(block, term)] of calls whose resolved or declared callee matches."""
    return [(i, t) for i, t in body.calls() if callee_is(t, pats)]


# ---------------------------------------------------------------- operands
def place_local(p):
    return p['l']


def operand_place(o):
    if 'cp' in o:
        return o['cp']
    if 'mv' in o:
        return o['mv']
    return None


def operand_local(o):
    p = operand_place(o)
    return p['l'] if p is not None else None


def rvalue_operands(rv):
    k = rv['k']
    if k in ('use', 'repeat', 'cast', 'unop'):
        return [rv['o']]
    if k == 'binop':
        return [rv['a'], rv['b']]
    if k == 'agg':
        return list(rv['ops'])
    return []


def rvalue_places(rv):
    """Places read or borrowed by an rvalue."""
    out = []
    for o in rvalue_operands(rv):
        p = operand_place(o)
        if p is not None:
            out.append(p)
    if rv['k'] in ('ref', 'rawptr', 'discr'):
        out.append(rv['pl'])
    return out


def place_locals(p):
    """Base local plus index locals."""
    out = [p['l']]
    for e in p.get('p') or []:
        if isinstance(e, dict) and 'idx' in e:
            out.append(e['idx'])
    return out


def is_plain(p):
    return not p.get('p')


# ---------------------------------------------------------------- def-use
class DefUse:
    def __init__(self, body):
        self.body = body
        self.defs = {}   # local -> [(block, idx|'t', node)]
        live = body.live_blocks()
        for i, blk in enumerate(body.blocks):
            if i not in live:
                continue
            for j, s in enumerate(blk['s']):
                if s['k'] in ('assign', 'setdiscr'):
                    self.defs.setdefault(s['lhs']['l'], []).append((i, j, s))
            t = blk['t']
            if t['k'] == 'call':
                self.defs.setdefault(t['dest']['l'], []).append((i, 't', t))
            elif t['k'] == 'yield':
                pass

    def single_def(self, local):
        """The unique whole-local definition of `local`, or None."""
        ds = [d for d in self.defs.get(local, []) if is_plain(d[2].get('lhs') or d[2].get('dest'))]
        if len(ds) == 1 and len(self.defs.get(local, [])) == 1:
            return ds[0]
        return None

    def origin(self, operand, depth=12):
        """Trace an operand back through single-definition temporaries.

        Returns a descriptor dict:
          {'k':'const', ...} | {'k':'call','t':term,'b':block} | {'k':'place','pl':place}
          | {'k':'discr','pl':place,'ty':..} | {'k':'binop',...} | {'k':'unop',...}
          | {'k':'agg',...} | {'k':'ref','pl':..} | {'k':'arg','l':n} | {'k':'unknown'}
        """
        if 'cp' not in operand and 'mv' not in operand:
            return {'k': 'const', 'o': operand}
        p = operand_place(operand)
        return self.origin_place(p, depth)

    def origin_place(self, p, depth=12):
        if not is_plain(p) or depth == 0:
            return {'k': 'place', 'pl': p}
        l = p['l']
        if 1 <= l <= self.body.argc and l not in self.defs:
            return {'k': 'arg', 'l': l}
        d = self.single_def(l)
        if d is None:
            return {'k': 'place', 'pl': p}
        blk, idx, node = d
        if idx == 't':
            return {'k': 'call', 't': node, 'b': blk}
        if node['k'] != 'assign':
            return {'k': 'place', 'pl': p}
        rv = node['rv']
        k = rv['k']
        if k == 'use':
            return self.origin(rv['o'], depth - 1)
        if k == 'discr':
            return {'k': 'discr', 'pl': rv['pl'], 'ty': rv['ty'], 'b': blk}
        if k == 'binop':
            return {'k': 'binop', 'rv': rv, 'b': blk}
        if k == 'unop':
            return {'k': 'unop', 'rv': rv, 'b': blk}
        if k == 'agg':
            return {'k': 'agg', 'rv': rv, 'b': blk}
        if k == 'ref':
            return {'k': 'ref', 'pl': rv['pl'], 'mut': rv['mut'], 'b': blk}
        if k == 'cast':
            return {'k': 'cast', 'rv': rv, 'b': blk, 'from': self.origin(rv['o'], depth - 1)}
        return {'k': 'unknown', 'rv': rv}

    def deref_origin(self, p, depth=8):
        """Resolve a place whose base is a single-def reference temp `_x = &P`
        into P + remaining projections (one level of `(*_x).f` -> `P.f`)."""
        for _ in range(depth):
            proj = p.get('p') or []
            if not proj or proj[0] != '*':
                return p
            if self.body.locals[p['l']].get('name'):
                return p
            d = self.single_def(p['l'])
            if d is None or d[1] == 't' or d[2]['k'] != 'assign':
                return p
            rv = d[2]['rv']
            if rv['k'] == 'ref':
                base = rv['pl']
                p = {'l': base['l'], 'p': (base.get('p') or []) + proj[1:]}
            elif rv['k'] == 'use' and operand_place(rv['o']) is not None:
                base = operand_place(rv['o'])
                p = {'l': base['l'], 'p': (base.get('p') or []) + proj}
            else:
                return p
        return p


def forward_taint(body, seeds, through_calls=None, stop_calls=None):
    """Locals data-dependent on the seed locals.

    A local becomes tainted when it is assigned from an rvalue that reads or
    borrows a tainted local, or is the destination of a call one of whose
    arguments is tainted and whose callee matches `through_calls` (None = every
    call propagates, [] = no call propagates)."""
    tainted = set(seeds)
    changed = True
    while changed:
        changed = False
        for i, j, s in body.stmts():
            if s['k'] != 'assign':
                continue
            lhs = s['lhs']['l']
            if lhs in tainted:
                continue
            for p in rvalue_places(s['rv']):
                if p['l'] in tainted:
                    tainted.add(lhs)
                    changed = True
                    break
        for i, t in body.calls():
            d = t['dest']['l']
            if d in tainted:
                continue
            if stop_calls is not None and callee_is(t, stop_calls):
                continue
            if through_calls is not None and not callee_is(t, through_calls):
                continue
            for a in t['a']:
                l = operand_local(a)
                if l is not None and l in tainted:
                    tainted.add(d)
                    changed = True
                    break
    return tainted


# ---------------------------------------------------------------- edges / conditions
def variant_names(F, ty):
    """Variant names (by index) for an enum type string."""
    t = ty.lstrip('&').strip()
    if t.startswith('mut '):
        t = t[4:]
    base = re.sub(r'<.*$', '', t)
    if base in STD_VARIANTS:
        return STD_VARIANTS[base]
    a = F.adts.get(base)
    if a:
        return [v['name'] for v in a['variants']]
    return None


def edge_condition(F, body, du, b):
    """Describe what the switch terminating block b tests.

    Returns (descriptor, {target_block: label}) or None. Labels:
      ('variant', name) / ('bool', True|False) / ('int', n) / ('else',)
    descriptor: {'k':'discr','pl':place,'ty':..} | {'k':'call','t':term} | {'k':'binop',...} | ...
    """
    t = body.term(b)
    if t['k'] != 'switch':
        return None
    org = du.origin(t['d'])
    labels = {}
    if org['k'] == 'discr':
        names = variant_names(F, org['ty'])
        for v, tgt in t['ts']:
            nm = names[v] if names and 0 <= v < len(names) else str(v)
            labels.setdefault(tgt, []).append(('variant', nm))
        covered = {v for v, _ in t['ts']}
        if names:
            rest = [('variant', n) for i, n in enumerate(names) if i not in covered]
        else:
            rest = [('else',)]
        labels.setdefault(t['else'], []).extend(rest or [('else',)])
    elif t['dty'] == 'bool':
        for v, tgt in t['ts']:
            labels.setdefault(tgt, []).append(('bool', bool(v)))
        vals = {v for v, _ in t['ts']}
        if vals == {0}:
            labels.setdefault(t['else'], []).append(('bool', True))
        elif vals == {1}:
            labels.setdefault(t['else'], []).append(('bool', False))
        else:
            labels.setdefault(t['else'], []).append(('else',))
    else:
        for v, tgt in t['ts']:
            labels.setdefault(tgt, []).append(('int', v))
        labels.setdefault(t['else'], []).append(('else',))
    return org, labels


def edge_dominates(body, u, v, s):
    """Every path from entry to block s takes edge (u, v)."""
    live = body.live_blocks()
    if s not in live:
        return False
    return s not in body.reachable(0, removed_edges={(u, v)})


def dominating_conditions(F, body, du, s):
    """All (descriptor, label, (u, v)) switch edges that dominate block s."""
    out = []
    dom = body.dominators()
    for u in sorted(dom.get(s, ())):
        if body.term(u)['k'] != 'switch':
            continue
        ec = edge_condition(F, body, du, u)
        if ec is None:
            continue
        org, labels = ec
        for v, labs in labels.items():
            if edge_dominates(body, u, v, s):
                for lab in labs:
                    out.append((org, lab, (u, v)))
    return out


def implied_conditions(F, body, du, s, depth=3):
    """dominating_conditions(s) plus what they imply through materialised `&&` / `||`:
    `let c = a && b; if c {S}` compiles to a bool local assigned `false` on the a-false edge and `b` on the
    a-true edge, so "c is true" implies "a is true" and "b is true" (dually for `||` and false)."""
    out = list(dominating_conditions(F, body, du, s))
    seen = set()
    work = list(out)
    while work and depth > 0:
        nxt = []
        for org, lab, edge in work:
            if lab[0] != 'bool' or org['k'] != 'place' or org['pl'].get('p'):
                continue
            l = org['pl']['l']
            if (l, lab[1]) in seen or body.locals[l]['ty'] != 'bool':
                continue
            seen.add((l, lab[1]))
            defs = [(b, j, st) for b, j, st in body.stmts() if st['k'] == 'assign' and st['lhs']['l'] == l and not st['lhs'].get('p')]
            # a flag may also be defined by the result of a call: `let f = match x { Some(c) => c.is_ascii_digit(), None => false }`
            cdefs = [(b, t) for b, t in body.calls() if t['dest']['l'] == l and not t['dest'].get('p')]
            srcs = {json.dumps(operand_place(d_[2]['rv']['o']), sort_keys=True)
                    if d_[2]['rv']['k'] == 'use' and operand_place(d_[2]['rv']['o']) is not None else None for d_ in defs}
            if defs and not cdefs and len(srcs) == 1 and None not in srcs:
                # plain copies of ONE other bool local (the return place of an inlined helper, possibly on several
                # threaded paths): same truth value
                src = operand_place(defs[0][2]['rv']['o'])
                if src is not None and not src.get('p') and body.locals[src['l']]['ty'] == 'bool':
                    e = ({'k': 'place', 'pl': {'l': src['l']}}, lab, edge)
                    out.append(e)
                    nxt.append(e)
                continue
            if len(defs) + len(cdefs) < 2:
                continue
            keep = []
            for b, j, st in defs:
                rv = st['rv']
                cval = str(rv['o'].get('c')) if rv['k'] == 'use' and 'c' in rv['o'] else None
                if cval in ('true', 'false') and (cval == 'true') != lab[1]:
                    continue          # this definition gives the opposite constant: not on the path
                keep.append((b, j, st))
            if len(keep) + len(cdefs) != 1:
                continue
            if cdefs:
                b, t = cdefs[0]
                extra = list(dominating_conditions(F, body, du, b))
                extra.append(({'k': 'call', 't': t, 'b': b}, ('bool', lab[1]), (b, b)))
                for e in extra:
                    out.append(e)
                    nxt.append(e)
                continue
            b, j, st = keep[0]
            extra = list(dominating_conditions(F, body, du, b))
            rv = st['rv']
            if rv['k'] == 'use' and ('cp' in rv['o'] or 'mv' in rv['o']):
                extra.append((du.origin(rv['o']), ('bool', lab[1]), (b, b)))
            elif rv['k'] == 'unop' and rv['op'] == 'Not':
                extra.append((du.origin(rv['o']), ('bool', not lab[1]), (b, b)))
            for e in extra:
                out.append(e)
                nxt.append(e)
        work = nxt
        depth -= 1
    return out


def cond_is_call(org, pats):
    return org['k'] == 'call' and callee_is(org['t'], pats)


# ---------------------------------------------------------------- path rules
def must_pass(body, start_blocks, through_blocks, goal_blocks=None, removed_edges=()):
    """Every path from any start block to any goal block (default: Return blocks)
    passes through one of `through_blocks`. Returns None if it holds, else a
    witness path (list of blocks)."""
    goals = set(goal_blocks if goal_blocks is not None else body.return_blocks())
    through = set(through_blocks)
    for s in start_blocks:
        if s in through:
            continue
        p = body.shortest_path(s, goals, removed=through, removed_edges=set(removed_edges))
        if p is not None:
            return p
    return None


def block_of_calls(calls):
    return {b for b, _ in calls}


def site_order(body, first_blocks, then_blocks):
    """Every block in then_blocks is dominated by some block in first_blocks
    (a site's own call happens at the end of its block, so first != then is
    required unless they are the same block and first is a statement)."""
    bad = []
    for t in then_blocks:
        if not any(f != t and body.dominates(f, t) for f in first_blocks):
            bad.append(t)
    return bad


def render_path(body, path, limit=14):
    """Source lines along a block path (deduplicated)."""
    lines = []
    for b in path:
        t = body.term(b)
        ln = t.get('line')
        if ln is not None and (not lines or lines[-1] != ln):
            lines.append(ln)
    if len(lines) > limit:
        lines = lines[:limit // 2] + ['...'] + lines[-limit // 2:]
    return ' -> '.join('L%s' % l for l in lines)


# ---------------------------------------------------------------- aggregates / writes
def find_aggregates(body, adt=None, variant=None):
    out = []
    for i, j, s in body.stmts():
        if s['k'] == 'assign' and s['rv']['k'] == 'agg' and s['rv'].get('ak') == 'adt':
            rv = s['rv']
            if adt is not None and not name_matches(rv['adt'], adt):
                continue
            if variant is not None and rv['variant'] != variant:
                continue
            out.append((i, j, s))
    return out


def field_writes(body, adt, field=None):
    """Assignments whose destination place projects field `field` of ADT `adt`
    (as the last field projection), and `&mut` borrows of such a place."""
    out = []
    for i, j, s in body.stmts():
        if s['k'] != 'assign':
            continue
        hit = _projects_field(s['lhs'], adt, field)
        if hit:
            out.append((i, j, s, 'assign', hit))
        rv = s['rv']
        if rv['k'] in ('ref', 'rawptr') and rv.get('mut'):
            hit = _projects_field(rv['pl'], adt, field)
            if hit:
                out.append((i, j, s, 'borrow_mut', hit))
    return out


def _projects_field(p, adt, field):
    for e in p.get('p') or []:
        if isinstance(e, dict) and 'f' in e and e.get('adt') and name_matches(e['adt'], adt):
            if field is None or e['f'] == field:
                return e['f']
    return None


# ---------------------------------------------------------------- K-RES
ABSENT_VARIANTS = {'Err', 'None', 'Break', 'Pending'}
PROPAGATING_CALLS = [
    '<core::result::Result<T, E> as core::ops::try_trait::Try>::branch',
    '<core::option::Option<T> as core::ops::try_trait::Try>::branch',
    '<T as core::convert::Into<U>>::into',
    '<T as core::convert::From<T>>::from',
    'core::result::Result::<T, E>::ok',
    'core::option::Option::<T>::ok_or',
    'core::option::Option::<T>::take',
]


def resource_leak_paths(F, body, acquire_block, acquired_local, release_blocks_fn,
                        through_calls=PROPAGATING_CALLS, extra_absent_edges=()):
    """K-RES core. The resource is the success payload of the value assigned to
    `acquired_local` by the call ending `acquire_block`.

    * taint = locals data-dependent on it (assignments; calls only via `through_calls`);
    * an edge of a switch on the discriminant of a tainted Result/Option/ControlFlow
      place that selects Err/None/Break carries no resource and is pruned;
    * release_blocks_fn(tainted) -> set of blocks where the resource is released
      or handed over;
    * returns [] if every remaining path from the acquire to a Return passes a
      release block, else a list with one witness path."""
    du = DefUse(body)
    tainted = forward_taint(body, {acquired_local}, through_calls=through_calls)
    absent = set(extra_absent_edges)
    for b in body.live_blocks():
        t = body.term(b)
        if t['k'] != 'switch':
            continue
        ec = edge_condition(F, body, du, b)
        if ec is None:
            continue
        org, labels = ec
        if org['k'] != 'discr' or org['pl']['l'] not in tainted:
            continue
        for tgt, labs in labels.items():
            if labs and all(l[0] == 'variant' and l[1] in ABSENT_VARIANTS for l in labs):
                absent.add((b, tgt))
    release = set(release_blocks_fn(tainted))
    starts = body.succ(acquire_block)
    p = must_pass(body, starts, release, removed_edges=absent)
    return ([p] if p else []), tainted, release, absent


def calls_with_tainted_arg(body, pats, tainted, du=None):
    out = set()
    for b, t in find_calls(body, pats):
        for a in t['a']:
            l = operand_local(a)
            if l is not None and l in tainted:
                out.add(b)
    return out


def aggregates_with_tainted_op(body, adt, tainted, variant=None):
    out = set()
    for b, j, s in find_aggregates(body, adt, variant):
        for o in s['rv']['ops']:
            l = operand_local(o)
            if l is not None and l in tainted:
                out.add(b)
    return out


# ---------------------------------------------------------------- await / try idioms
AWAIT_CALLS = [
    '<F as core::future::into_future::IntoFuture>::into_future',
    '*::IntoFuture::into_future',
    'core::pin::Pin::<Ptr>::new_unchecked',
    '*::Future::poll',
]
TRY_BRANCH = ['<core::result::Result<T, E> as core::ops::try_trait::Try>::branch',
              '<core::option::Option<T> as core::ops::try_trait::Try>::branch',
              '<core::ops::control_flow::ControlFlow<B, C> as core::ops::try_trait::Try>::branch',
              '*::Try::branch']
FROM_RESIDUAL = [re.compile(r'FromResidual.*::from_residual$')]


def value_source(body, du, operand, depth=24):
    """Follow an operand back through moves, `?` (Try::branch payload), and the
    await idiom (Ready payload of poll of the pinned awaitee) to the call that
    produced the value. Returns the call terminator or None."""
    p = operand_place(operand)
    seen = 0
    while p is not None and seen < depth:
        seen += 1
        l = p['l']
        defs = du.defs.get(l, [])
        if len(defs) != 1:
            return None
        blk, idx, node = defs[0]
        if idx == 't':
            t = node
            if callee_is(t, AWAIT_CALLS + TRY_BRANCH + PROPAGATING_CALLS + ['*::Pin::<Ptr>::new_unchecked']):
                p = operand_place(t['a'][0]) if t['a'] else None
                continue
            return t
        if node['k'] != 'assign':
            return None
        rv = node['rv']
        if rv['k'] == 'use':
            p = operand_place(rv['o'])
        elif rv['k'] == 'ref':
            p = rv['pl']
        else:
            return None
    return None


def exit_label(body, du, b):
    """A position-independent label for the block that writes the return place."""
    t = body.term(b)
    if t['k'] == 'call' and t['dest']['l'] == 0:
        if callee_is(t, FROM_RESIDUAL):
            src = value_source(body, du, t['a'][0]) if t['a'] else None
            if src is not None:
                nm = (src['f'].get('def') or src['f'].get('decl') or '?')
                return '?' + nm.split('::')[-1], '`?` on the result of %s' % nm
            return '?', 'a `?` operator'
        nm = (t['f'].get('def') or t['f'].get('decl') or '?')
        return 'call:' + nm.split('::')[-1], 'the value of %s' % nm
    for s in reversed(body.blocks[b]['s']):
        if s['k'] == 'assign' and s['lhs']['l'] == 0 and not s['lhs'].get('p'):
            rv = s['rv']
            if rv['k'] == 'agg' and rv.get('ak') == 'adt':
                inner = ''
                if rv['ops']:
                    org = du.origin(rv['ops'][0])
                    if org['k'] == 'agg' and org['rv'].get('ak') == 'adt':
                        inner = org['rv']['variant']
                        sub = org['rv']['ops']
                        if sub:
                            org2 = du.origin(sub[0])
                            if org2['k'] == 'agg' and org2['rv'].get('ak') == 'adt':
                                inner = '%s(%s)' % (inner, org2['rv']['variant'])
                lab = '%s(%s)' % (rv['variant'], inner)
                return lab, 'return %s' % lab
            return 'value', 'a computed return value'
    return 'bb', 'an exit'


def return_writers(body):
    """Blocks that assign the return place _0."""
    out = []
    for b in sorted(body.live_blocks()):
        blk = body.blocks[b]
        hit = any(s['k'] == 'assign' and s['lhs']['l'] == 0 for s in blk['s'])
        t = blk['t']
        if t['k'] == 'call' and t['dest']['l'] == 0:
            hit = True
        if hit:
            out.append(b)
    return out


def leaking_exits(F, body, acquire_block, release_blocks, absent_edges):
    """All return-writing blocks reachable from the acquire without passing a
    release block (and not through an absent edge), each with a label and a
    witness path."""
    du = DefUse(body)
    release = set(release_blocks)
    out = []
    labels = {}
    for s in body.succ(acquire_block):
        if s in release:
            continue
        reach = body.reachable(s, removed=release, removed_edges=set(absent_edges))
        # only exits that actually lead to a Return without passing a release
        for w in return_writers(body):
            if w not in reach:
                continue
            tail = body.shortest_path(w, set(body.return_blocks()), removed=release - {w},
                                      removed_edges=set(absent_edges))
            if tail is None:
                continue
            head = body.shortest_path(s, {w}, removed=release, removed_edges=set(absent_edges))
            lab, what = exit_label(body, du, w)
            n = labels.get(lab, 0)
            labels[lab] = n + 1
            if n:
                lab = '%s#%d' % (lab, n + 1)
            out.append({'label': lab, 'what': what, 'block': w, 'loc': body.loc(body.term(w)),
                        'path': render_path(body, [acquire_block] + (head or []) + tail[1:])})
    return out


# ---------------------------------------------------------------- argument identity
def operand_name(body, du, o, depth=10):
    """User-visible name of the variable an operand is a copy/borrow of, following
    single-definition temporaries; for field places `base.field`. None if unknown."""
    if 'cp' not in o and 'mv' not in o:
        if 'cdef' in o:
            return 'const ' + o['cdef']
        if 'c' in o:
            return 'const ' + str(o['c'])
        return None
    p = operand_place(o)
    for _ in range(depth):
        p = du.deref_origin(p)
        if not is_plain(p):
            break
        nm = body.locals[p['l']].get('name')
        if nm:
            break
        d = du.single_def(p['l'])
        if d is None or d[1] == 't' or d[2]['k'] != 'assign':
            break
        rv = d[2]['rv']
        if rv['k'] == 'use' and operand_place(rv['o']) is not None:
            p = operand_place(rv['o'])
        elif rv['k'] == 'ref':
            p = rv['pl']
        elif rv['k'] == 'use':
            return operand_name(body, du, rv['o'], depth - 1)
        else:
            break
    base = body.locals[p['l']].get('name') or '_%d' % p['l']
    fields = [e['f'] for e in (p.get('p') or []) if isinstance(e, dict) and 'f' in e]
    # a captured variable of a closure / coroutine body: `_1.<n>` carries the captured variable's name
    if p['l'] == 1 and fields and not body.locals[1].get('name'):
        for uv in body.d.get('upvars') or []:
            up = uv.get('place') or {}
            ufields = [e['f'] for e in (up.get('p') or []) if isinstance(e, dict) and 'f' in e]
            if up.get('l') == 1 and ufields and ufields[0] == fields[0]:
                return '.'.join([uv['name']] + fields[1:])
    return '.'.join([base] + fields)


def arg_names(body, du, t):
    return [operand_name(body, du, a) for a in t['a']]


def calls_with_arg_named(body, pats, name, du=None):
    du = du or DefUse(body)
    return [(b, t) for b, t in find_calls(body, pats) if name in arg_names(body, du, t)]


def check_dominated(body, first, then):
    """Sites in `then` ([(block, node)]) that are not dominated by any site in `first`."""
    fb = {b for b, _ in first}
    return [(b, n) for b, n in then if not any(f != b and body.dominates(f, b) for f in fb)]


# ---------------------------------------------------------------- variant typestate
def variant_state_at_exits(F, body, ref_local, adt, variants):
    """Forward dataflow of the set of variants the enum value behind `*ref_local`
    (a `&mut Enum` local) may currently hold.

    * entry: all variants;
    * a switch on `discriminant(*ref_local)` refines the state on each edge;
    * `*ref_local = Enum::X{..}` and `mem::replace(ref, Enum::X{..})` set it to {X}
      (an unrecognised value written sets it to all variants);
    Returns {block: frozenset(state at block entry)} for live blocks."""
    du = DefUse(body)
    allv = frozenset(variants)

    def aliases_ref(l, depth=10):
        """local l holds (a copy / reborrow of) the reference ref_local - also through the parameter of an inlined helper"""
        for _ in range(depth):
            if l == ref_local:
                return True
            d = du.single_def(l)
            if d is None or d[1] == 't' or d[2]['k'] != 'assign':
                return False
            rv = d[2]['rv']
            if rv['k'] == 'use' and operand_place(rv['o']) is not None:
                pl = operand_place(rv['o'])
            elif rv['k'] == 'ref':
                pl = rv['pl']
            else:
                return False
            if [e for e in (pl.get('p') or []) if e != '*']:
                return False
            l = pl['l']
        return False

    def is_ref_place(p):
        q = du.deref_origin(p)
        if q['l'] == ref_local and (q.get('p') or []) == ['*']:
            return True
        return (p.get('p') or []) == ['*'] and aliases_ref(p['l'])

    def agg_variant(operand):
        org = du.origin(operand)
        if org['k'] == 'agg' and org['rv'].get('ak') == 'adt' and name_matches(org['rv']['adt'], adt):
            return org['rv']['variant']
        return None

    def transfer(b, state):
        blk = body.blocks[b]
        for s in blk['s']:
            if s['k'] == 'assign' and is_ref_place(s['lhs']):
                rv = s['rv']
                v = None
                if rv['k'] == 'agg' and rv.get('ak') == 'adt' and name_matches(rv['adt'], adt):
                    v = rv['variant']
                elif rv['k'] == 'use':
                    v = agg_variant(rv['o'])
                state = frozenset([v]) if v else allv
        t = blk['t']
        if t['k'] == 'call' and callee_is(t, ['core::mem::replace', 'core::mem::swap', 'core::mem::take']):
            a0 = t['a'][0]
            org = du.origin(a0)
            target = None
            if org['k'] == 'ref':
                target = org['pl']
            elif org['k'] in ('place', 'arg'):
                target = operand_place(a0)
            hit = False
            if target is not None:
                tp = du.deref_origin(target)
                hit = tp['l'] == ref_local or aliases_ref(target['l'])
            if operand_local(a0) is not None and aliases_ref(operand_local(a0)):
                hit = True
            if hit:
                v = agg_variant(t['a'][1]) if len(t['a']) > 1 else None
                state = frozenset([v]) if v else allv
        return state

    live = body.live_blocks()
    state_in = {0: allv}
    work = [0]
    while work:
        b = work.pop()
        st = transfer(b, state_in[b])
        t = body.term(b)
        edge_states = {}
        if t['k'] == 'switch':
            ec = edge_condition(F, body, du, b)
            if ec and ec[0]['k'] == 'discr' and is_ref_place(ec[0]['pl']):
                for tgt, labs in ec[1].items():
                    names = {l[1] for l in labs if l[0] == 'variant'}
                    if names:
                        edge_states[tgt] = st & frozenset(names)
        for s in body.succ(b):
            ns = edge_states.get(s, st)
            old = state_in.get(s)
            new = ns if old is None else (old | ns)
            if old is None or new != old:
                state_in[s] = new
                work.append(s)
    out = {b: transfer(b, s) for b, s in state_in.items() if b in live}
    return {b: s for b, s in state_in.items() if b in live}, out


# ---------------------------------------------------------------------------------------------
# Path search that respects materialised flags. `let v = match x { A => None, B => Some(..) }; if let Some(..) = v`
# (and `let ok = ..true/false..; if ok`) create a merge followed by a second test of the same fact; a path-insensitive
# search combines the A-branch with the Some-edge. Here a local whose every definition is a constant (an enum aggregate of
# a known variant, or a bool constant) is tracked along the path, and a later switch on it only follows the matching edge.
def _flag_locals(body):
    defs = {}
    for blk, j, s in body.stmts():
        if s['k'] != 'assign' or s['lhs'].get('p'):
            continue
        rv = s['rv']
        val = None
        if rv['k'] == 'agg' and rv.get('ak') == 'adt' and rv.get('variant') is not None:
            val = ('variant', rv['variant'])
        elif rv['k'] == 'use' and isinstance(rv['o'], dict) and 'c' in rv['o'] and str(rv['o']['c']) in ('true', 'false', 'const true', 'const false'):
            val = ('bool', str(rv['o']['c']).endswith('true'))
        defs.setdefault(s['lhs']['l'], []).append(val)
    for blk, t in body.calls():
        if not t['dest'].get('p'):
            defs.setdefault(t['dest']['l'], []).append(None)
    return {l for l, vs in defs.items() if vs and all(v is not None for v in vs)}


def shortest_path_flags(F, body, du, start, goals, removed=(), removed_edges=(), known0=None):
    """Like Body.shortest_path, but infeasible combinations through materialised flags are not followed."""
    from collections import deque
    flags = _flag_locals(body)
    removed, goals, removed_edges = set(removed), set(goals), set(removed_edges)

    def after_block(b, known):
        known = dict(known)
        for j, s in enumerate(body.blocks[b]['s']):
            if s['k'] == 'assign' and not s['lhs'].get('p') and s['lhs']['l'] in flags:
                rv = s['rv']
                if rv['k'] == 'agg':
                    known[s['lhs']['l']] = ('variant', rv['variant'])
                else:
                    known[s['lhs']['l']] = ('bool', str(rv['o']['c']).endswith('true'))
            elif s['k'] == 'assign' and not s['lhs'].get('p') and s['rv']['k'] == 'use':
                src = operand_place(s['rv']['o'])
                if src is not None and not src.get('p') and src['l'] in known:
                    known[s['lhs']['l']] = known[src['l']]          # a plain move/copy of the flag
        return known

    def allowed_targets(b, known):
        ec = edge_condition(F, body, du, b)
        if ec is None:
            return None
        org, labels = ec
        l = None
        if org['k'] == 'discr' and not org['pl'].get('p'):
            l = org['pl']['l']
        elif org['k'] == 'place' and not org['pl'].get('p'):
            l = org['pl']['l']
        if l is None or l not in known:
            return None
        want = known[l]
        ok = {tgt for tgt, labs in labels.items() if want in labs}
        return ok or None

    st0 = (start, tuple(sorted((known0 or {}).items())))
    prev = {st0: None}
    q = deque([st0])
    while q:
        b, kn = q.popleft()
        if b in goals:
            path, cur = [], (b, kn)
            while cur is not None:
                path.append(cur[0])
                cur = prev[cur]
            return path[::-1]
        known = after_block(b, dict(kn))
        only = allowed_targets(b, known)
        for s in body.succ(b):
            if s in removed or (b, s) in removed_edges:
                continue
            if only is not None and s not in only:
                continue
            st = (s, tuple(sorted(known.items())))
            if st in prev:
                continue
            prev[st] = (b, kn)
            q.append(st)
    return None


def flags_after_chain(body, blocks):
    """Constant bool / variant flags assigned in the given blocks (in order): {local: ('bool', v) | ('variant', v)}."""
    flags = _flag_locals(body)
    known = {}
    for b in blocks:
        for s_ in body.blocks[b]['s']:
            if s_['k'] == 'assign' and not s_['lhs'].get('p') and s_['lhs']['l'] in flags:
                rv = s_['rv']
                if rv['k'] == 'agg':
                    known[s_['lhs']['l']] = ('variant', rv['variant'])
                else:
                    known[s_['lhs']['l']] = ('bool', str(rv['o']['c']).endswith('true'))
    return known


def peel_not(du, org, lab, depth=3):
    """(origin, label) with leading `!` removed: `if !c` on the true edge is `c` on the false edge."""
    while depth and org.get('k') == 'unop' and org['rv'].get('op') == 'Not' and lab and lab[0] == 'bool':
        org = du.origin(org['rv']['o'])
        lab = ('bool', not lab[1])
        depth -= 1
    return org, lab


def close_guard_drops(F, body):
    """RAII release sites: `drop` terminators of locals whose type is an ADT with a Drop impl that calls Close::close (a close-on-drop
    guard). Returns [(block, term, local, guard construction blocks)]; the descriptor a guard holds is an operand of its aggregate."""
    guards = {}
    for i in F.impls:
        if not str(i.get('trait') or i.get('trait_def') or '').endswith('ops::drop::Drop'):
            continue
        adt = i.get('self_adt')
        for it in i.get('items') or []:
            b = F.bodies.get(it.get('def'))
            if b is not None and find_calls(b, [re.compile(r'::Close>?::close$'), re.compile(r'process::Process::close_fd$')]):
                guards[adt] = True
    out = []
    if not guards:
        return out
    for blk in range(len(body.blocks)):
        t = body.term(blk)
        if t['k'] != 'drop' or t['pl'].get('p'):
            continue
        ty = re.sub(r'<.*$', '', str(t.get('ty') or '').lstrip('&'))
        if ty in guards:
            l = t['pl']['l']
            cons = [b for b, j, st in body.stmts() if st['k'] == 'assign' and not st['lhs'].get('p') and st['lhs']['l'] == l
                    and st['rv']['k'] == 'agg' and re.sub(r'<.*$', '', str(st['rv'].get('adt') or '')) == ty]
            out.append((blk, t, l, cons))
    return out


def guard_holds(body, du, guard_local, name=None, local=None):
    """Does the close-guard local hold the descriptor named `name` (user variable name) / the local `local`?"""
    for b, j, st in body.stmts():
        if st['k'] == 'assign' and not st['lhs'].get('p') and st['lhs']['l'] == guard_local and st['rv']['k'] == 'agg':
            for o in st['rv'].get('ops') or []:
                if name is not None and (operand_name(body, du, o) or '').split('.')[-1] == name:
                    return True
                if local is not None and operand_local(o) == local:
                    return True
    return False
