    // Append to the end of `mod tests` in yash-syntax/src/parser/core.rs
    //
    // alias X='echo $(X)': when the command substitution `$(X)` that is part
    // of the replacement text of alias X is executed, its content is parsed by
    // a new lexer whose source is `CommandSubst { original }`, where `original`
    // points into the replacement text of X. The word `X` read by that lexer is
    // still inside X's own replacement, so it must not be substituted again.
    #[test]
    fn hunt_c17_alias_not_substituted_in_command_substitution_of_own_replacement() {
        use crate::alias::Alias;
        use crate::source::Code;
        use crate::source::Source;
        use std::cell::RefCell;
        use std::num::NonZeroU64;

        let alias = Rc::new(Alias {
            name: "X".to_string(),
            replacement: "echo $(X)".to_string(),
            global: false,
            origin: Location::dummy("alias X='echo $(X)'"),
        });
        #[allow(clippy::mutable_key_type, reason = "AliasSet is defined as such")]
        let mut aliases = AliasSet::new();
        aliases.insert(HashEntry(Rc::clone(&alias)));

        // Location of `$(X)` in the replacement text of alias X
        let code = Rc::new(Code {
            value: RefCell::new("echo $(X)".to_string()),
            start_line_number: NonZeroU64::new(1).unwrap(),
            source: Rc::new(Source::Alias {
                original: Location::dummy("X"),
                alias,
            }),
        });
        let original = Location { code, range: 5..9 };

        // This is how yash-semantics parses the content of the command
        // substitution (expansion/initial/command_subst.rs).
        let mut lexer = Lexer::from_memory("X", Source::CommandSubst { original });
        let mut parser = Parser::config().aliases(&aliases).input(&mut lexer);

        let result = parser.take_token_manual(true).now_or_never().unwrap();
        let rec = result.unwrap();
        assert!(
            !rec.is_alias_substituted(),
            "alias X was substituted again within its own replacement"
        );
        assert_eq!(rec.unwrap().to_string(), "X");
    }
