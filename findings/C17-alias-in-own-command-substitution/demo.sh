# Run: target/debug/yash3 demo.sh      (compare: dash demo.sh)
#
# Expected output (dash and bash --posix print exactly this; an alias name is
# not substituted again within its own replacement):
#   dir: function-pwd
#   function a called
#   function c called
#   end
#
# Observed with yash3: each command substitution re-substitutes the alias, so
# the shell forks subshells recursively until the deepest one dies with
#   thread 'main' has overflowed its stack
#   fatal runtime error: stack overflow, aborting
# (three times) and the output is
#   dir: dir: dir: dir: ... (hundreds of times)
#   (empty line)
#   (empty line)
#   end
pwd() { echo function-pwd; }
a() { echo "function a called"; }
c() { echo "function c called"; }
alias pwd='echo "dir: $(pwd)"'
alias a='echo $(b)' b='a'
alias c='echo `c`'
pwd
a
c
echo end
