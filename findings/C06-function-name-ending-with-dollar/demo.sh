# Run with: target/debug/yash3 demo.sh
# A function whose (non-portable) name ends with `$` is defined in an
# asynchronous list; `jobs` shows the job name, which is the printed command.
# Expected output: a job name that denotes the command that was entered, e.g.
#   [1] + Running              a$ () { :; }
#   source form accepted
#   printed form accepted      (or no third line if the job name is `a$ () { :; }`)
# Observed:
#   [1] + Running              a$() { :; }
#   source form accepted
#   error: the compound command delimiter is unmatched ...
# `a$()` is a word containing an empty command substitution, so the printed
# text is a syntax error rather than a function definition.
a$ () { :; } &
jobs
wait
eval 'a$ () { :; }' && echo "source form accepted"
eval 'a$() { :; }' && echo "printed form accepted"
