    // Append to the `mod tests` block at the end of
    // yash-syntax/src/syntax/impl_display.rs

    #[test]
    fn function_definition_with_name_ending_with_dollar_round_trip() {
        for code in ["a$ () { :; }", "$ () (:)", "$x$ ()\n{ :; }"] {
            let command: Command = code.parse().unwrap();
            assert_matches::assert_matches!(&command, Command::Function(_));
            let printed = command.to_string();
            // On the unmodified tree `printed` is "a$() { :; }", which is the
            // word `a$()` (containing an empty command substitution) followed
            // by `{`, i.e. not a function definition at all.
            let reparsed: Command = printed
                .parse()
                .unwrap_or_else(|e| panic!("{printed:?} does not parse: {e:?}"));
            assert_matches::assert_matches!(&reparsed, Command::Function(_), "{printed:?}");
            assert_eq!(reparsed.to_string(), printed);
        }
    }
