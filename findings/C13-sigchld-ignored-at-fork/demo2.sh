trap '' CHLD
x=$(echo hi)
echo "subst: [$x] status $?"
true | true | true | true
echo "pipeline status $?"
