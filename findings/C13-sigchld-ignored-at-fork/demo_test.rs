// Supplementary white-box test (the behavioural demonstration is demo.sh,
// because the virtual system does not model the kernel discarding children of
// a process that ignores SIGCHLD).
//
// Append this test at the end of the `#[cfg(test)] mod tests { }` block of
// yash-env/src/subshell/config.rs

    /// By the time `start` has created the child, SIGCHLD must no longer be
    /// ignored in the parent. Otherwise, a real system would not keep the exit
    /// status of a child that terminates before the parent starts waiting, and
    /// `Env::wait_for_subshell` would fail with `ECHILD`.
    #[test]
    fn sigchld_is_not_ignored_when_child_has_been_started() {
        in_virtual_system(|mut env, state| async move {
            // The shell has been started with SIGCHLD ignored
            // (or the user has run `trap '' CHLD`).
            state
                .borrow_mut()
                .processes
                .get_mut(&env.main_pid)
                .unwrap()
                .set_disposition(SIGCHLD, Disposition::Ignore);

            let (pid, _) = Config::new()
                .start(
                    &mut env,
                    async |_env: &mut Env<Rc<Concurrent<VirtualSystem>>>, _job_control| {},
                )
                .await
                .unwrap();

            let disposition = state.borrow().processes[&env.main_pid].disposition(SIGCHLD);
            assert_eq!(disposition, Disposition::Catch);

            env.wait_for_subshell(pid).await.unwrap();
        })
    }
