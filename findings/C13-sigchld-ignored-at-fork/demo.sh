# Run with: target/debug/yash3 demo.sh        (Linux; uses /proc/$$/exe to find yash3)
#
# The shell installs its SIGCHLD handler ("internal disposition") lazily, in
# Env::wait_for_subshell / the wait built-in, i.e. only AFTER children have
# been forked. If SIGCHLD is being ignored at that time -- because the user
# ran `trap '' CHLD` before the shell waited for anything, or because the
# shell inherited SIG_IGN for SIGCHLD from its parent -- a child that
# terminates before the first wait is discarded by the kernel and the
# following waitpid fails with ECHILD.
#
# Expected output (what dash and bash print for the inner scripts):
#   case 1
#   x=hi status=0
#   shell exit status 0
#   case 2
#   x=hi status=0
#   shell exit status 0
#   case 3
#   pipeline status=0        (5 times, each followed by "shell exit status 0")
#   case 4
#   x=hi status=0
#   shell exit status 0
#
# Observed with the unmodified yash3:
#   case 1: "error: error performing the command substitution ... No child
#           processes (os error 10)", shell exit status 2
#   case 2: as expected (the only difference from case 1 is that an external
#           command was waited for before `trap '' CHLD`)
#   case 3: most runs panic at yash-semantics/src/command/pipeline.rs:191
#           "cannot receive exit status of child process: Errno(10)",
#           shell exit status 101 (which runs panic depends on scheduling)
#   case 4: same error as case 1

yash=/proc/$$/exe

echo "case 1"
"$yash" -c 'trap "" CHLD; x=$(echo hi); echo "x=$x status=$?"'
echo "shell exit status $?"

echo "case 2"
"$yash" -c '/bin/true; trap "" CHLD; x=$(echo hi); echo "x=$x status=$?"'
echo "shell exit status $?"

echo "case 3"
i=0
while [ $i -lt 5 ]; do
  RUST_BACKTRACE=0 "$yash" -c 'trap "" CHLD; : | : | : | : | : | : | : | :; echo "pipeline status=$?"'
  echo "shell exit status $?"
  i=$((i+1))
done

echo "case 4"
# The outer shell ignores SIGCHLD and replaces itself with another yash3,
# which thus starts with SIGCHLD ignored.
"$yash" -c 'trap "" CHLD; exec "$0" -c "x=\$(echo hi); echo \"x=\$x status=\$?\""' "$yash"
echo "shell exit status $?"
