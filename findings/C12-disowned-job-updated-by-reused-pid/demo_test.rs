    // Append at the end of `mod tests { }` in yash-env/src/job.rs.

    #[test]
    fn c12_wait_result_in_subshell_does_not_alter_disowned_job() {
        // The parent shell has two running jobs.
        let mut list = JobList::default();
        let _i10 = list.insert(Job::new(Pid(10)));
        let i11 = list.insert(Job::new(Pid(11)));
        // A subshell inherits the list; the jobs are not its children and it
        // "cannot wait for these jobs" (doc of `Job::is_owned`).
        list.disown_all();
        for (_, mut job) in list.iter_mut() {
            job.state_reported();
        }
        let before = list.clone();

        // Process 11 terminates (only the parent shell can see that) and the
        // subshell forks a child of its own that is given the process ID 11 and
        // gets suspended. `wait` in the subshell reports (11, Stopped). That
        // state cannot belong to the disowned job.
        let result = list.update_status(Pid(11), ProcessState::stopped(SIGTSTP));

        assert_eq!(result, None);
        assert_eq!(list[i11], before[i11]);
        assert_eq!(list.current_job(), before.current_job());
        assert_eq!(list.previous_job(), before.previous_job());
    }
