    // Append at the end of `mod tests { }` in yash-env/src/job.rs.

    #[test]
    fn c12_suspended_foreground_job_becomes_current_job() {
        // Two jobs are already suspended; they are the current and previous jobs.
        let mut env = Env::new_virtual();
        let mut job = Job::new(Pid(10));
        job.state = ProcessState::stopped(SIGTSTP);
        let i10 = env.jobs.insert(job);
        let mut job = Job::new(Pid(11));
        job.state = ProcessState::stopped(SIGTSTP);
        let i11 = env.jobs.insert(job);
        assert_eq!(env.jobs.current_job(), Some(i10));
        assert_eq!(env.jobs.previous_job(), Some(i11));

        // A foreground job is suspended now (Ctrl-Z).
        let result = ProcessResult::Stopped(SIGTSTP);
        let _ = handle_job_status(&mut env, Pid(12), result, || "vi".to_string());
        let i12 = env.jobs.find_by_pid(Pid(12)).unwrap();

        // "When a job is suspended, it becomes the current job, and the
        // previous current job becomes the previous job."
        // (docs/src/interactive/job_control.md; same rule as update_status)
        assert_eq!(env.jobs.current_job(), Some(i12));
        assert_eq!(env.jobs.previous_job(), Some(i10));
    }

    #[test]
    fn c12_suspending_by_insert_agrees_with_suspending_by_update_status() {
        // The same event - job 12 gets suspended while jobs 10 and 11 are
        // suspended - seen through the two paths the shell has for it.
        fn base() -> JobList {
            let mut list = JobList::default();
            for pid in [10, 11] {
                let mut job = Job::new(Pid(pid));
                job.state = ProcessState::stopped(SIGTSTP);
                list.insert(job);
            }
            list
        }

        // Path 1: a background job is suspended (wait -> update_status).
        let mut background = base();
        let index = background.insert(Job::new(Pid(12)));
        background.update_status(Pid(12), ProcessState::stopped(SIGTSTP));
        assert_eq!(background.current_job(), Some(index));

        // Path 2: a foreground job is suspended (handle_job_status -> insert).
        let mut env = Env::new_virtual();
        env.jobs = base();
        let result = ProcessResult::Stopped(SIGTSTP);
        let _ = handle_job_status(&mut env, Pid(12), result, String::new);
        assert_eq!(env.jobs.find_by_pid(Pid(12)), Some(index));
        assert_eq!(env.jobs.current_job(), background.current_job());
        assert_eq!(env.jobs.previous_job(), background.previous_job());
    }
