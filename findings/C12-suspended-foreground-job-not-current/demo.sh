# Run: target/debug/yash3 demo.sh
# A foreground command that gets suspended (as by Ctrl-Z) while two other
# suspended jobs exist must become the current job (%+), and the former
# current job must become the previous job (%-).
#
# Expected output:
#   [1]   Stopped(SIGSTOP)     sleep 31
#   [2] - Stopped(SIGSTOP)     sleep 32
#   [3] + Stopped(SIGSTOP)     sh -c kill -STOP $$; echo resumed by fg
#   sh -c kill -STOP $$; echo resumed by fg
#   resumed by fg
# Observed output (unmodified tree): job 3 has no marker, job 2 stays `+`,
# job 1 stays `-`, and the plain `fg` resumes `sleep 32` (the script then
# blocks for 32 s; `timeout` below cuts it short) instead of the command that
# was just suspended.
set -m
sleep 31 &
sleep 32 &
kill -STOP %1; sleep 0.2
kill -STOP %2; sleep 0.2
sh -c 'kill -STOP $$; echo resumed by fg'
jobs
(sleep 2; kill -KILL -- -$(jobs -p %2) -$(jobs -p %1) 2>/dev/null) &
fg
kill -KILL %1 %2 2>/dev/null
