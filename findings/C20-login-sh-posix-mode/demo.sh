#!/bin/sh
# usage: sh demo.sh /path/to/target/debug/yash3
# A shell whose name is sh enters the POSIXly-correct mode; the leading hyphen of a login shell's
# argv[0] ("-sh", as login(1)/sshd/su - pass it) is not part of the name.
# Fails before f82b90d, passes from f82b90d on.
yash=$(command -v "${1:-target/debug/yash3}") || { echo "usage: sh demo.sh <path to yash3>"; exit 2; }
case $yash in /*) ;; *) yash=$PWD/$yash;; esac

dir=$(mktemp -d) || exit 2
trap 'rm -rf "$dir"' EXIT
# Links named sh, -sh and -yash3: running them through PATH makes argv[0] exactly that name.
ln -s "$yash" "$dir/sh"; ln -s "$yash" "$dir/-sh"; ln -s "$yash" "$dir/-yash3"
show() { # $1 = argv[0]
    # HOME is an empty directory, so the login shell finds no profile to run.
    opts=$(HOME=$dir PATH=$dir:$PATH "$1" -c 'set -o' 2>&1 | grep -E '^(login|posixlycorrect) ' | tr -s ' \n' ' ')
    echo "argv[0]=$1: $opts"
}
out=$(show sh; show -sh; show -yash3)
expected='argv[0]=sh: login off posixlycorrect on 
argv[0]=-sh: login on posixlycorrect on 
argv[0]=-yash3: login on posixlycorrect off '
printf '%s\n' "$out"
if [ "$out" = "$expected" ]; then echo PASS; exit 0; else echo "FAIL: login shell named -sh is not POSIXly correct"; exit 1; fi
