// Append inside `mod tests` (the inline block that ends just before `#[cfg(test)] mod fifo_tests;`)
// of yash-env/src/system/virtual.rs, then run:
//   CARGO_NET_OFFLINE=true cargo test --offline -p yash-env --lib virtual::tests::demo_dup
// POSIX dup2: "If fildes is a valid file descriptor and is equal to fildes2, dup2() shall return
// fildes2 without closing it" - nothing changes, in particular FD_CLOEXEC stays; "[EBADF] ... the
// argument fildes2 is negative"; fcntl F_DUPFD: "[EINVAL] ... the argument arg is negative".
// Before f15911f the virtual dup2(fd, fd) cleared FD_CLOEXEC, and dup/dup2 created a negative
// file descriptor when no RLIMIT_NOFILE limit was set (the default of VirtualSystem::new()).
    #[test]
    fn demo_dup2_to_same_fd_keeps_cloexec() {
        let system = VirtualSystem::new();
        system
            .fcntl_setfd(Fd::STDOUT, FdFlag::CloseOnExec.into())
            .unwrap();

        let result = system.dup2(Fd::STDOUT, Fd::STDOUT);
        assert_eq!(result, Ok(Fd::STDOUT));

        assert_eq!(
            system.fcntl_getfd(Fd::STDOUT),
            Ok(EnumSet::only(FdFlag::CloseOnExec)),
            "dup2(1, 1) changed the flags of file descriptor 1"
        );
    }

    #[test]
    fn demo_dup2_to_same_closed_fd_fails() {
        // Control (same before and after): the source must be open.
        let system = VirtualSystem::new();
        assert_eq!(system.dup2(Fd(7), Fd(7)), Err(Errno::EBADF));
    }

    #[test]
    fn demo_dup_rejects_negative_fd() {
        let system = VirtualSystem::new();

        let result = system.dup2(Fd::STDOUT, Fd(-1));
        assert_eq!(result, Err(Errno::EBADF), "dup2(1, -1)");

        let result = system.dup(Fd::STDOUT, Fd(-1), EnumSet::empty());
        assert_eq!(result, Err(Errno::EINVAL), "dup(1, -1): fcntl(1, F_DUPFD, -1)");

        let process = system.current_process();
        let negative: Vec<_> = process.fds().keys().filter(|fd| fd.0 < 0).collect();
        assert_eq!(negative, [] as [&Fd; 0], "a negative file descriptor is open");
    }
