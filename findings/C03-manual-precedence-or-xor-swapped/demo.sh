# Run: target/debug/yash3 demo.sh
# docs/src/arithmetic.md lists `|` (level 10) as binding tighter than `^` (level 11). By that table
#   1 | 1 ^ 1  ==  (1 | 1) ^ 1  ==  0     and     1 ^ 1 | 1  ==  1 ^ (1 | 1)  ==  0
# Output according to the manual:
#   0
#   0
# Observed (the C order, `^` tighter than `|`; same as dash and bash):
#   1
#   1
echo $((1 | 1 ^ 1))
echo $((1 ^ 1 | 1))
