// Append inside `mod tests` (the last item) of yash-env/src/system/virtual/process.rs, then run:
//   CARGO_NET_OFFLINE=true cargo test --offline -p yash-env --lib process::tests::chdir_keeps_working_directory_path_normalized
// (`mod tests` of yash-env/src/system/virtual.rs, where the chdir tests live, is followed by
// `mod fifo_tests;` and so is not the last item of its file; the working directory path that the fix
// normalizes is the `cwd` field of `Process`, defined in process.rs.)
// getcwd returns an absolute pathname without `.` and `..` components. Before 95d21a8 the virtual chdir
// stored `old_cwd.join(path)` verbatim, so getcwd answered /dir/sub/.. after chdir("..") from /dir/sub
// (`cd -P` takes the new $PWD from getcwd and `pwd -P` prints it), and every further relative chdir made
// it longer.
    #[test]
    fn chdir_keeps_working_directory_path_normalized() {
        use crate::path::PathBuf;
        use crate::system::file_system::{Mode, OfdAccess, OpenFlag};
        use crate::system::r#virtual::VirtualSystem;
        use crate::system::{Chdir as _, GetCwd as _, Open as _};

        let system = VirtualSystem::new();
        // mkdir -p /dir/sub; : >/dir/sub/file
        system
            .open(
                c"/dir/sub/file",
                OfdAccess::WriteOnly,
                OpenFlag::Create.into(),
                Mode::empty(),
            )
            .now_or_never()
            .unwrap()
            .unwrap();

        assert_eq!(system.chdir(c"/dir/sub"), Ok(()));
        assert_eq!(system.getcwd(), Ok(PathBuf::from("/dir/sub")));

        // cd ..
        assert_eq!(system.chdir(c".."), Ok(()));
        assert_eq!(system.getcwd(), Ok(PathBuf::from("/dir")));

        // cd ./sub/.
        assert_eq!(system.chdir(c"./sub/."), Ok(()));
        assert_eq!(system.getcwd(), Ok(PathBuf::from("/dir/sub")));

        // cd ../../.. (the parent of the root directory is the root directory)
        assert_eq!(system.chdir(c"../../.."), Ok(()));
        assert_eq!(system.getcwd(), Ok(PathBuf::from("/")));
    }
