# Run: target/debug/yash3 demo.sh   (dash and bash print the expected output)
# Expected output:
#   1 nomatch
#   2 match
#   3 *x
#   4 x
#   5 nomatch
# Observed with yash3:
#   1 match
#   2 match
#   3 x         (wrong: `?` is a wildcard and removes the `*`)
#   4           (wrong: `##` with the wildcard removes everything)
#   5 match     (wrong: the backslash vanished, the pattern became empty)
p='\'
case x   in $p""*) echo "1 match";; *) echo "1 nomatch";; esac
case '*' in $p""*) echo "2 match";; *) echo "2 nomatch";; esac
v='*x'
echo "3 ${v#$p''?}"
echo "4 ${v##$p""*}"
case ''  in $p"") echo "5 match";; *) echo "5 nomatch";; esac
