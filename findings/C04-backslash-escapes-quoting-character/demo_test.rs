    // Append at the end of `mod tests` in
    // yash-semantics/src/command/compound_command/case.rs

    #[test]
    fn unquoted_backslash_escapes_next_char_across_empty_quotes() {
        let (mut env, state) = fixture();
        let var = &mut env.variables.get_or_new("one", Scope::Global);
        var.assign(r"\", None).unwrap();
        // The pattern is a backslash followed by an asterisk (the empty
        // quotes contribute no character), so the asterisk is escaped and
        // the pattern matches only a literal `*`.
        let command: CompoundCommand = r#"case x in
        ($one""*) echo wrong: asterisk is a wildcard;;
        (*) echo ok;;
        esac"#
            .parse()
            .unwrap();

        let _ = command.execute(&mut env).now_or_never().unwrap();
        assert_stdout(&state, |stdout| assert_eq!(stdout, "ok\n"));
        assert_stderr(&state, |stderr| assert_eq!(stderr, ""));
    }

    #[test]
    fn unquoted_backslash_before_empty_quotes_is_not_dropped() {
        let (mut env, state) = fixture();
        let var = &mut env.variables.get_or_new("one", Scope::Global);
        var.assign(r"\", None).unwrap();
        // `$one` alone matches a backslash (see
        // unquoted_backslash_escapes_next_char_in_pattern); appending empty
        // quotes must not turn the pattern into the empty pattern.
        let command: CompoundCommand = r#"case '' in
        ($one"") echo wrong: backslash vanished;;
        (*) echo ok;;
        esac"#
            .parse()
            .unwrap();

        let _ = command.execute(&mut env).now_or_never().unwrap();
        assert_stdout(&state, |stdout| assert_eq!(stdout, "ok\n"));
        assert_stderr(&state, |stderr| assert_eq!(stderr, ""));
    }
