#!/bin/sh
# usage: sh demo.sh /path/to/target/debug/yash3
# The result of a tilde expansion must be matched literally in case patterns and in the
# patterns of ${x#pat} ${x##pat} ${x%pat} ${x%%pat}. Fails before ee4ee63, passes from ee4ee63 on.
yash=$(command -v "${1:-target/debug/yash3}") || { echo "usage: sh demo.sh <path to yash3>"; exit 2; }
case $yash in /*) ;; *) yash=$PWD/$yash;; esac

out=$(HOME='*' "$yash" -c '
case abc in (~) echo "case HOME=*: abc matched";; (*) echo "case HOME=*: abc not matched";; esac
case "*" in (~) echo "case HOME=*: * matched";; (*) echo "case HOME=*: * not matched";; esac
x=abc;   echo "trim HOME=*: \${x##~} of abc = [${x##~}]"
x="*bc"; echo "trim HOME=*: \${x#~} of *bc = [${x#~}]"
x="ab*"; echo "trim HOME=*: \${x%~} of ab* = [${x%~}]"
' 2>&1
HOME='\*' "$yash" -c '
case "\\*" in (~) echo "case HOME=\\*: \\* matched";; (*) echo "case HOME=\\*: \\* not matched";; esac
' 2>&1)
expected='case HOME=*: abc not matched
case HOME=*: * matched
trim HOME=*: ${x##~} of abc = [abc]
trim HOME=*: ${x#~} of *bc = [bc]
trim HOME=*: ${x%~} of ab* = [ab]
case HOME=\*: \* matched'
printf '%s\n' "$out"
if [ "$out" = "$expected" ]; then echo PASS; exit 0; else echo "FAIL: the value of HOME worked as a pattern"; exit 1; fi
