    #[test]
    fn demo_empty_pathname_and_created_name_with_trailing_slash() {
        use crate::system::r#virtual::VirtualSystem;
        use crate::system::{Chdir as _, Errno, Fstat as _, Mode, OfdAccess, Open as _, OpenFlag};
        use crate::system::AT_FDCWD;
        use futures_util::FutureExt as _;
        let system = VirtualSystem::new();
        // a real kernel: open(""), stat(""), chdir("") = ENOENT   (`echo y < ""` is a redirection error)
        let r = system.open(c"", OfdAccess::ReadOnly, Default::default(), Mode::empty()).now_or_never().unwrap();
        assert_eq!(r, Err(Errno::ENOENT));
        assert_eq!(system.fstatat(AT_FDCWD, c"", true).map(drop), Err(Errno::ENOENT));
        assert_eq!(system.chdir(c""), Err(Errno::ENOENT));
        // a real kernel: open("newfile/", O_WRONLY|O_CREAT) = EISDIR, nothing is created   (`echo z > newfile/`)
        let r = system.open(c"/newfile/", OfdAccess::WriteOnly, OpenFlag::Create.into(), Mode::ALL_9).now_or_never().unwrap();
        assert_eq!(r, Err(Errno::EISDIR));
        assert_eq!(system.fstatat(AT_FDCWD, c"/newfile", true).map(drop), Err(Errno::ENOENT));
    }
