    // Append at the end of `mod tests` in yash-fnmatch/src/lib.rs

    #[test]
    fn long_pattern_of_question_marks() {
        // 12000 `?`s match any string of 12000 characters.
        let pattern = "?".repeat(12_000);
        let text = "0".repeat(12_000);
        let config = Config {
            anchor_begin: true,
            anchor_end: true,
            ..Config::default()
        };
        let p = Pattern::parse_with_config(without_escape(&pattern), config).unwrap();
        assert!(p.is_match(&text));
        assert!(!p.is_match(&text[1..]));
    }

    #[test]
    fn long_literal_with_one_wildcard() {
        // `*` followed by 400000 literal characters
        let literal = "0".repeat(400_000);
        let pattern = format!("*{literal}");
        let config = Config {
            anchor_begin: true,
            anchor_end: true,
            ..Config::default()
        };
        let p = Pattern::parse_with_config(without_escape(&pattern), config).unwrap();
        assert!(p.is_match(&format!("head{literal}")));
        assert!(!p.is_match(&format!("head{literal}tail")));
    }
