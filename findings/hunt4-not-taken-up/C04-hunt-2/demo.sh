# Run: target/debug/yash3 demo.sh   (dash prints the expected output)
# Expected output:
#   1 match
#   2 match
#   3 tail
#   4 head
# Observed with yash3:
#   1 nomatch
#   2 nomatch
#   3 <the whole 12004-character value>  (printed here as its length)
#   4 <the whole value>
n=12000
s=$(printf "%0${n}d" 0)                 # 12000 characters
q=$(printf "%0${n}d" 0 | tr 0 '?')      # 12000 question marks
case $s in $q) echo "1 match";; *) echo "1 nomatch";; esac

big=$(printf "%0400000d" 0)             # 400000 characters, used as a quoted (literal) needle
case "head${big}tail" in *"$big"*) echo "2 match";; *) echo "2 nomatch";; esac

v="${s}tail"; r=${v#$q}
case $r in tail) echo "3 tail";; *) echo "3 length ${#r}";; esac
v="head${big}"; r=${v%"$big"*}
case $r in head) echo "4 head";; *) echo "4 length ${#r}";; esac
