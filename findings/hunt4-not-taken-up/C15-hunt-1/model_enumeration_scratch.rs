// scratch model test for C15
use std::cell::RefCell;
use std::collections::VecDeque;
use std::future::Future;
use std::pin::Pin;
use std::rc::Rc;
use std::task::{Context, Poll, Waker};
use yash_executor::forwarder::Receiver;
use yash_executor::{Executor, Spawner};

#[derive(Clone, Copy, Debug, PartialEq)]
enum Act {
    Yield,        // wake_by_ref self, pending
    YieldDup,     // wake self three ways, pending
    Wait(usize),  // sticky channel
    Signal(usize),
    WakeAll,      // wake every waker ever seen (stale ones too)
    Spawn(usize), // spawn child with script index
    Await,        // await last spawned child's receiver
    SelfWakeDone, // wake self then complete
    Done,
}

#[derive(Default)]
struct Model {
    queue: VecDeque<usize>,
    done: Vec<bool>,
    polling: Option<usize>,
    log: Vec<String>,
    errors: Vec<String>,
    // channels
    signaled: [bool; 2],
    waiters: [Vec<(usize, Waker)>; 2],
    all_wakers: Vec<(usize, Waker)>,
    received: Vec<usize>, // how many times each task's result was delivered
    woken_since_poll: Vec<bool>,
    awaited_by: Vec<Option<usize>>,
}

impl Model {
    fn new_task(&mut self) -> usize {
        let id = self.done.len();
        self.done.push(false);
        self.received.push(0);
        self.awaited_by.push(None);
        self.woken_since_poll.push(true);
        self.queue.push_back(id);
        id
    }
    fn wake(&mut self, id: usize) {
        if self.done[id] {
            return;
        }
        self.woken_since_poll[id] = true;
        if self.queue.contains(&id) {
            return;
        }
        self.queue.push_back(id);
    }
}

type M = Rc<RefCell<Model>>;

fn do_wake(m: &M, id: usize, w: Waker, by_ref: bool) {
    // waking must not hold the model borrowed (wake does not re-enter futures, but be safe)
    m.borrow_mut().wake(id);
    if by_ref {
        w.wake_by_ref();
    } else {
        w.wake();
    }
}

struct TaskFut<'a> {
    id: usize,
    script: Vec<Act>,
    pc: usize,
    m: M,
    spawner: Spawner<'a>,
    children: &'a [Vec<Act>],
    child: Option<(usize, Receiver<usize>)>,
    finished: bool,
}

fn spawn_task<'a>(
    m: &M,
    spawner: &Spawner<'a>,
    script: Vec<Act>,
    children: &'a [Vec<Act>],
) -> (usize, Receiver<usize>) {
    let id = m.borrow_mut().new_task();
    let fut = TaskFut {
        id,
        script,
        pc: 0,
        m: m.clone(),
        spawner: spawner.clone(),
        children,
        child: None,
        finished: false,
    };
    let r = unsafe { spawner.spawn(fut) }.ok().unwrap();
    (id, r)
}

impl<'a> Future for TaskFut<'a> {
    type Output = usize;
    fn poll(self: Pin<&mut Self>, cx: &mut Context<'_>) -> Poll<usize> {
        let this = self.get_mut();
        let id = this.id;
        let m = this.m.clone();
        {
            let mut mm = m.borrow_mut();
            mm.log.push(format!("poll {id}"));
            if this.finished || mm.done[id] {
                mm.errors.push(format!("task {id} polled after completion"));
            }
            if mm.polling.is_some() {
                mm.errors.push(format!("task {id} polled re-entrantly"));
            }
            match mm.queue.pop_front() {
                Some(f) if f == id => {}
                other => mm
                    .errors
                    .push(format!("model expected {other:?} to be polled, got {id}")),
            }
            if !mm.woken_since_poll[id] {
                mm.errors.push(format!("task {id} polled without wake"));
            }
            mm.woken_since_poll[id] = false;
            mm.polling = Some(id);
            mm.all_wakers.push((id, cx.waker().clone()));
        }
        let result = loop {
            let act = this.script.get(this.pc).copied().unwrap_or(Act::Done);
            match act {
                Act::Yield => {
                    this.pc += 1;
                    do_wake(&m, id, cx.waker().clone(), true);
                    break Poll::Pending;
                }
                Act::YieldDup => {
                    this.pc += 1;
                    do_wake(&m, id, cx.waker().clone(), true);
                    do_wake(&m, id, cx.waker().clone(), false);
                    cx.waker().wake_by_ref();
                    m.borrow_mut().wake(id);
                    break Poll::Pending;
                }
                Act::Wait(k) => {
                    if m.borrow().signaled[k] {
                        this.pc += 1;
                    } else {
                        m.borrow_mut().waiters[k].push((id, cx.waker().clone()));
                        break Poll::Pending;
                    }
                }
                Act::Signal(k) => {
                    this.pc += 1;
                    let ws = {
                        let mut mm = m.borrow_mut();
                        mm.signaled[k] = true;
                        std::mem::take(&mut mm.waiters[k])
                    };
                    for (i, (t, w)) in ws.into_iter().enumerate() {
                        do_wake(&m, t, w, i % 2 == 0);
                    }
                }
                Act::WakeAll => {
                    this.pc += 1;
                    let ws = m.borrow().all_wakers.clone();
                    for (t, w) in ws {
                        do_wake(&m, t, w, true);
                    }
                }
                Act::Spawn(c) => {
                    this.pc += 1;
                    let script = this.children[c % this.children.len()].clone();
                    let (cid, r) = spawn_task(&m, &this.spawner, script, this.children);
                    this.child = Some((cid, r));
                }
                Act::Await => match &mut this.child {
                    None => this.pc += 1,
                    Some((cid, r)) => {
                        let cid = *cid;
                        // receiver's waker is ours: the sender will wake us
                        match Pin::new(r).poll(cx) {
                            Poll::Ready(v) => {
                                let mut mm = m.borrow_mut();
                                if v != cid {
                                    mm.errors.push(format!("wrong result {v} for {cid}"));
                                }
                                mm.received[cid] += 1;
                                drop(mm);
                                this.child = None;
                                this.pc += 1;
                            }
                            Poll::Pending => {
                                if m.borrow().done[cid] {
                                    m.borrow_mut().errors.push(format!(
                                        "task {id}: child {cid} done but receiver pending"
                                    ));
                                }
                                m.borrow_mut().log.push(format!("{id} awaits {cid}"));
                                m.borrow_mut().awaited_by[cid] = Some(id);
                                break Poll::Pending;
                            }
                        }
                    }
                },
                Act::SelfWakeDone => {
                    do_wake(&m, id, cx.waker().clone(), true);
                    // model: completing removes from the queue
                    break Poll::Ready(id);
                }
                Act::Done => break Poll::Ready(id),
            }
        };
        let mut mm = m.borrow_mut();
        mm.polling = None;
        if result.is_ready() {
            this.finished = true;
            mm.done[id] = true;
            if let Some(p) = mm.awaited_by[id] {
                mm.wake(p);
            }
            mm.queue.retain(|&t| t != id);
            mm.log.push(format!("done {id}"));
        }
        result
    }
}

/// Who is the awaited-child waiter: task `id` awaiting `cid` is legitimately
/// blocked iff cid not done.
fn run(roots: &[Vec<Act>], children: &[Vec<Act>], max_steps: usize) -> Result<(), String> {
    let m: M = Rc::new(RefCell::new(Model::default()));
    let executor = Executor::new();
    let spawner = executor.spawner();
    let mut receivers = vec![];
    for s in roots {
        receivers.push(spawn_task(&m, &spawner, s.clone(), children));
    }
    let mut steps = 0;
    let mut completed = 0;
    loop {
        {
            let mm = m.borrow();
            if executor.wake_count() != mm.queue.len() {
                return Err(format!(
                    "wake_count {} != model {} log={:?}",
                    executor.wake_count(),
                    mm.queue.len(),
                    mm.log
                ));
            }
        }
        let before = m.borrow().log.len();
        let Some(c) = executor.step() else { break };
        let mm = m.borrow();
        let polled = mm.log[before..].iter().filter(|l| l.starts_with("poll")).count();
        if polled != 1 {
            return Err(format!("step polled {polled} tasks; log={:?}", mm.log));
        }
        let done_now = mm.log[before..].iter().any(|l| l.starts_with("done"));
        if c != done_now {
            return Err(format!("step returned {c} but done_now={done_now}"));
        }
        if c {
            completed += 1;
        }
        if !mm.errors.is_empty() {
            return Err(format!("{:?} log={:?}", mm.errors, mm.log));
        }
        steps += 1;
        if steps > max_steps {
            return Err(format!("did not stall; log={:?}", mm.log));
        }
    }
    let mm = m.borrow();
    if !mm.errors.is_empty() {
        return Err(format!("{:?} log={:?}", mm.errors, mm.log));
    }
    if !mm.queue.is_empty() {
        return Err(format!("stalled but model queue {:?} log={:?}", mm.queue, mm.log));
    }
    for (id, &d) in mm.done.iter().enumerate() {
        if !d && mm.woken_since_poll[id] {
            return Err(format!("stalled, task {id} woken but unpolled; log={:?}", mm.log));
        }
    }
    if completed != mm.done.iter().filter(|&&d| d).count() {
        return Err(format!("completed count mismatch {completed}"));
    }
    // root results exactly once
    for (id, r) in &receivers {
        let got = r.try_receive();
        if mm.done[*id] {
            if got != Ok(*id) {
                return Err(format!("root {id} result {got:?}"));
            }
            if r.try_receive().is_ok() {
                return Err(format!("root {id} result delivered twice"));
            }
        } else if got.is_ok() {
            return Err(format!("root {id} unfinished but has result"));
        }
    }
    Ok(())
}

const ALPHABET: &[Act] = &[
    Act::Yield,
    Act::YieldDup,
    Act::Wait(0),
    Act::Wait(1),
    Act::Signal(0),
    Act::Signal(1),
    Act::WakeAll,
    Act::Spawn(0),
    Act::Spawn(1),
    Act::Spawn(2),
    Act::Await,
    Act::SelfWakeDone,
    Act::Done,
];

fn children() -> Vec<Vec<Act>> {
    vec![
        vec![Act::Done],
        vec![Act::Yield, Act::Signal(1), Act::SelfWakeDone],
        vec![Act::Wait(0), Act::WakeAll, Act::Yield],
    ]
}

fn scripts(max_len: usize) -> Vec<Vec<Act>> {
    let mut out = vec![vec![]];
    let mut frontier = vec![vec![]];
    for _ in 0..max_len {
        let mut next = vec![];
        for s in &frontier {
            if matches!(s.last(), Some(Act::Done | Act::SelfWakeDone)) {
                continue;
            }
            for &a in ALPHABET {
                let mut t: Vec<Act> = s.clone();
                t.push(a);
                next.push(t);
            }
        }
        out.extend(next.iter().cloned());
        frontier = next;
    }
    out
}

#[test]
fn exhaustive_two_tasks() {
    let ch = children();
    let s3 = scripts(3);
    let mut n = 0;
    for a in &s3 {
        for b in &s3 {
            n += 1;
            if let Err(e) = run(&[a.clone(), b.clone()], &ch, 500) {
                panic!("roots {a:?} {b:?}: {e}");
            }
        }
    }
    eprintln!("{n} systems");
}

#[test]
fn exhaustive_one_task_len4() {
    let ch = children();
    for a in &scripts(4) {
        if let Err(e) = run(&[a.clone()], &ch, 500) {
            panic!("root {a:?}: {e}");
        }
    }
}

#[test]
fn exhaustive_three_tasks_len2() {
    let ch = children();
    let s = scripts(2);
    for a in &s {
        for b in &s {
            for c in &s {
                if let Err(e) = run(&[a.clone(), b.clone(), c.clone()], &ch, 500) {
                    panic!("roots {a:?} {b:?} {c:?}: {e}");
                }
            }
        }
    }
}

#[test]
fn random_large() {
    let ch = children();
    let mut seed: u64 = 0x1234_5678_9abc_def1;
    let mut rnd = move |n: usize| {
        seed ^= seed << 13;
        seed ^= seed >> 7;
        seed ^= seed << 17;
        (seed % n as u64) as usize
    };
    for _ in 0..200_000 {
        let nt = 1 + rnd(6);
        let mut roots = vec![];
        for _ in 0..nt {
            let len = rnd(8);
            let s: Vec<Act> = (0..len).map(|_| ALPHABET[rnd(ALPHABET.len())]).collect();
            roots.push(s);
        }
        if let Err(e) = run(&roots, &ch, 5000) {
            panic!("roots {roots:?}: {e}");
        }
    }
}
