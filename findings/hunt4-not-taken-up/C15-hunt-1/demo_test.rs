    // ---- C15-hunt-1 demonstration: append inside `mod tests` of yash-executor/src/task.rs ----

    struct DropFlag(Rc<Cell<bool>>);
    impl Drop for DropFlag {
        fn drop(&mut self) {
            self.0.set(true);
        }
    }

    /// Baseline (passes): a task that can never be woken is released as soon
    /// as it returns `Pending`, as the comment on `ExecutorState` promises.
    #[test]
    fn c15_never_woken_task_is_released() {
        let dropped = Rc::new(Cell::new(false));
        let flag = DropFlag(Rc::clone(&dropped));
        let executor = crate::Executor::new();
        unsafe {
            executor.spawn_pinned(Box::pin(async move {
                let _flag = flag;
                pending::<()>().await
            }))
        };
        executor.run_until_stalled();
        assert!(dropped.get());
    }

    /// FAILS: the same task, but waiting for a `Receiver` whose `Sender` is
    /// dropped without sending, is retained forever (even after the executor
    /// itself is dropped): Task -> future -> Receiver -> Relay::Polled(Waker)
    /// -> Task.
    #[test]
    fn c15_task_awaiting_receiver_of_dropped_sender_is_released() {
        let dropped = Rc::new(Cell::new(false));
        let flag = DropFlag(Rc::clone(&dropped));
        let executor = crate::Executor::new();
        let (sender, receiver) = crate::forwarder::forwarder::<()>();
        unsafe {
            executor.spawn_pinned(Box::pin(async move {
                let _flag = flag;
                receiver.await
            }))
        };
        executor.run_until_stalled();
        drop(sender); // the wake-up can no longer happen
        assert_eq!(executor.run_until_stalled(), 0);
        drop(executor);
        assert!(dropped.get(), "the waiting task (and all it owns) is leaked");
    }

    /// FAILS: the same through the public spawn API only. The child returns
    /// `Pending` without keeping its waker, so the executor drops the child
    /// (and with it the sender); the parent that awaits the child's result is
    /// leaked.
    #[test]
    fn c15_parent_of_abandoned_child_is_released() {
        let dropped = Rc::new(Cell::new(false));
        let flag = DropFlag(Rc::clone(&dropped));
        let executor = crate::Executor::new();
        let spawner = executor.spawner();
        unsafe {
            executor.spawn_pinned(Box::pin(async move {
                let _flag = flag;
                let child = spawner.spawn(pending::<()>()).unwrap();
                child.await
            }))
        };
        assert_eq!(executor.run_until_stalled(), 0);
        assert_eq!(executor.wake_count(), 0);
        drop(executor);
        assert!(dropped.get(), "the parent task (and all it owns) is leaked");
    }
