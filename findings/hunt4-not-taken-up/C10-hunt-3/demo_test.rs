    // Append to the `mod tests` block at the end of
    // yash-semantics/src/command/simple_command/absent.rs

    #[test]
    fn expansion_error_in_redirection_interrupts_with_absent_target() {
        in_virtual_system(|mut env, state| async move {
            // `x` is unset, so `${x?}` is an expansion error
            let command: syntax::SimpleCommand = ">/tmp/${x?}".parse().unwrap();
            let result = command.execute(&mut env).await;
            assert_stderr(&state, |stderr| assert_ne!(stderr, ""));
            // The same redirection on a command with a name (`echo >/tmp/${x?}`)
            // yields Break(Divert::Interrupt(Some(ExitStatus::ERROR))), see
            // `impl Handle for redir::Error`.
            assert_eq!(result, Break(Divert::Interrupt(Some(ExitStatus::ERROR))));
        });
    }

    #[test]
    fn unset_parameter_in_redirection_interrupts_with_absent_target_and_nounset() {
        in_virtual_system(|mut env, _state| async move {
            env.options.set(yash_env::option::Unset, yash_env::option::State::Off);
            let command: syntax::SimpleCommand = "a=b >/tmp/$u".parse().unwrap();
            let result = command.execute(&mut env).await;
            assert_eq!(result, Break(Divert::Interrupt(Some(ExitStatus::ERROR))));
        });
    }
