# Run with: target/debug/yash3 demo.sh
# An expansion error in the operand of a redirection of a simple command that
# has no command name.
#
# Expected output (dash, bash; POSIX XCU 2.8.1 "Expansion error: shall exit";
# docs/src/termination.md: expansion errors - "The shell exits if non-interactive"):
#   with name: exit status 2, output: []
#   no name:   exit status 2, output: []
#   nounset:   exit status 2, output: []
# Observed output:
#   with name: exit status 2, output: []
#   no name:   exit status 0, output: [survived 2]
#   nounset:   exit status 0, output: [survived 2]
self=$(readlink /proc/$$/exe)
out=$("$self" -c 'echo >/dev/null${x?}; echo survived $?' 2>/dev/null)
echo "with name: exit status $?, output: [$out]"
out=$("$self" -c '>/dev/null${x?}; echo survived $?' 2>/dev/null)
echo "no name:   exit status $?, output: [$out]"
out=$("$self" -uc 'v=1 >/dev/null$u; echo survived $?' 2>/dev/null)
echo "nounset:   exit status $?, output: [$out]"
