# Run with: target/debug/yash3 demo.sh
# The non-interactive shell aborts because `exec` cannot invoke the utility.
# Is the EXIT trap run?  It depends on where the shell environment lives.
#
# Expected output (docs/src/termination.md: "The trap is executed regardless of
# how the shell exits, whether due to an error, end-of-file, or explicit exit
# command, except when the shell is killed by a signal"; dash prints this):
#   subshell:     [EXIT trap ran] status 127
#   command subst:[EXIT trap ran] status 127
#   main shell:   [EXIT trap ran] status 127
# Observed output:
#   subshell:     [EXIT trap ran] status 127
#   command subst:[EXIT trap ran] status 127
#   main shell:   [] status 127
self=$(readlink /proc/$$/exe)
out=$("$self" -c '(trap "echo EXIT trap ran" EXIT; exec /nonexistent/utility; echo not reached); exit' 2>/dev/null)
echo "subshell:     [$out] status $?"
out=$("$self" -c 'x=$(trap "echo EXIT trap ran" EXIT; exec /nonexistent/utility; echo not reached); s=$?; echo "$x"; exit $s' 2>/dev/null)
echo "command subst:[$out] status $?"
out=$("$self" -c 'trap "echo EXIT trap ran" EXIT; exec /nonexistent/utility; echo not reached' 2>/dev/null)
echo "main shell:   [$out] status $?"
