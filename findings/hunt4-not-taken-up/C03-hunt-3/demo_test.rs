// (A) Append at the end of the `#[cfg(test)] mod tests { }` block of
//     yash-semantics/src/expansion/initial/arith.rs

    #[test]
    fn hunt_error_location_counts_characters_not_bytes() {
        // `Location::range` is documented (yash-env/src/source.rs) to count
        // Unicode scalar values, not bytes.
        let text = "ééé + 09".parse().unwrap();
        let location = Location::dummy("my location");
        let mut env = yash_env::Env::new_virtual();
        let mut env = Env::new(&mut env);
        let result = expand(&text, &location, &mut env).now_or_never().unwrap();
        let e = result.unwrap_err();
        assert_eq!(
            e.cause,
            ErrorCause::ArithError(ArithError::InvalidNumericConstant)
        );
        assert_eq!(*e.location.code.value.borrow(), "ééé + 09");
        // "09" is the 7th and 8th character; observed: 9..11, which is beyond
        // the end of the 8-character expression
        assert_eq!(e.location.range, 6..8);
    }

    #[test]
    fn hunt_assignment_location_counts_characters_not_bytes() {
        let text = "é + (x = 4)".parse().unwrap();
        let location = Location::dummy("my location");
        let mut env = yash_env::Env::new_virtual();
        let mut env2 = Env::new(&mut env);
        let result = expand(&text, &location, &mut env2).now_or_never().unwrap();
        assert!(result.is_ok());
        let v = env.variables.get("x").unwrap();
        let location2 = v.last_assigned_location.as_ref().unwrap();
        assert_eq!(*location2.code.value.borrow(), "é + (x = 4)");
        // `x` is the 6th character; observed: 6..7, which is the space after it
        assert_eq!(location2.range, 5..6);
    }

// (B) Append at the end of the `#[cfg(test)] mod tests { }` block of
//     yash-arith/src/token.rs

    #[test]
    fn hunt_invalid_character_location_is_a_substring_range() {
        // `Error::location` is documented as the "range of the substring in
        // the evaluated expression string where the error occurred".
        let source = "1 + €";
        let error = Tokens::new(source).nth(2).unwrap().unwrap_err();
        assert_eq!(error.cause, TokenError::InvalidCharacter);
        // observed: 4..5, which ends in the middle of the 3-byte character, so
        // `&source[error.location]` panics
        assert_eq!(error.location, 4..7);
        assert_eq!(source.get(error.location.clone()), Some("€"));
    }
