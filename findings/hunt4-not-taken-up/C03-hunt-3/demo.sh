# Run: target/debug/yash3 demo.sh 2>&1 | grep -e '-->' -e '\^'
# Expected: the caret under the `0` of `08`, position 1:9
#    --> <arithmetic_expansion>:1:9
#   1 | ééééé + 08
#     |         ^^ invalid numeric constant
# Observed: position 1:11 (the 10-character expression has no column 11), caret past the end of the line
#    --> <arithmetic_expansion>:1:11
#   1 | ééééé + 08
#     |           ^ invalid numeric constant
echo $((ééééé + 08))
