# Run with: target/debug/yash3 demo.sh
# Starts an *interactive* yash3 (-i, commands fed through stdin) with errexit on
# and makes a special built-in fail in three ways. docs/src/termination.md:
#   "Errors in special built-in utilities - The shell exits if non-interactive
#    or if the errexit option is set. ... This includes redirection errors for
#    special built-ins."
#
# Expected output:
#   case 1: exit status 1
#   case 2: exit status 2
#   case 3: exit status 2
# Observed output:
#   SURVIVED shift, $?=1
#   case 1: exit status 0
#   SURVIVED redirection error, $?=2
#   case 2: exit status 0
#   case 3: exit status 2
# (case 3, an expansion error, is the sibling that does honour errexit.)
self=$(readlink /proc/$$/exe)
printf '%s\n' 'set -e' 'shift 5' 'echo "SURVIVED shift, \$?=$?"' |
    HOME=/nonexistent "$self" -i 2>/dev/null
echo "case 1: exit status $?"
printf '%s\n' 'set -e' ': </nonexistent/file' 'echo "SURVIVED redirection error, \$?=$?"' |
    HOME=/nonexistent "$self" -i 2>/dev/null
echo "case 2: exit status $?"
printf '%s\n' 'set -e' ': ${unset?}' 'echo "SURVIVED expansion error, \$?=$?"' |
    HOME=/nonexistent "$self" -i 2>/dev/null
echo "case 3: exit status $?"
