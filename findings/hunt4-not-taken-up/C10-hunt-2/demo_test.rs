    // Append to the `mod tests` block at the end of
    // yash-semantics/src/command/simple_command/builtin.rs

    #[test]
    fn special_builtin_exits_on_redirection_error_with_errexit() {
        let mut env = Env::new_virtual();
        env.builtins.insert("return", return_builtin());
        env.options.set(yash_env::option::ErrExit, On);
        let command: syntax::SimpleCommand = "return </no/such/file".parse().unwrap();

        let result = command.execute(&mut env).now_or_never().unwrap();
        // Compare `impl Handle for expansion::Error`, which returns
        // Divert::Exit rather than Divert::Interrupt when errexit is applicable.
        // With Divert::Interrupt an interactive shell merely resumes prompting.
        assert_eq!(result, Break(Divert::Exit(None)));
        assert_eq!(env.exit_status, ExitStatus::ERROR);
    }

    #[test]
    fn special_builtin_error_exits_with_errexit() {
        let mut env = Env::new_virtual();
        env.builtins.insert(
            "foo",
            Builtin::new(Special, |_env, _args| {
                Box::pin(std::future::ready({
                    // what yash_builtin::common::report::report_error returns
                    // while a special built-in is running
                    yash_env::builtin::Result::with_exit_status_and_divert(
                        ExitStatus::ERROR,
                        Break(Divert::Interrupt(None)),
                    )
                }))
            }),
        );
        env.options.set(yash_env::option::ErrExit, On);
        let command: syntax::SimpleCommand = "foo".parse().unwrap();
        let result = command.execute(&mut env).now_or_never().unwrap();
        assert_eq!(result, Break(Divert::Exit(None)));
        assert_eq!(env.exit_status, ExitStatus::ERROR);
    }

    #[test]
    fn special_builtin_error_in_condition_does_not_exit_with_errexit() {
        // regression guard for the repair: errexit is not applicable here
        let mut env = Env::new_virtual();
        env.builtins.insert("return", return_builtin());
        env.options.set(yash_env::option::ErrExit, On);
        let mut env = env.push_frame(Frame::Condition);
        let command: syntax::SimpleCommand = "return </no/such/file".parse().unwrap();
        let result = command.execute(&mut env).now_or_never().unwrap();
        assert_eq!(result, Break(Divert::Interrupt(None)));
    }
