# Run: target/debug/yash3 demo.sh      (or target/release/yash3 demo.sh)
# Expected output (dash and bash print exactly this):
#   16384
#   survived
# Observed with yash3 (debug and release build alike), exit status 134 (SIGABRT):
#   thread 'main' has overflowed its stack
#   fatal runtime error: stack overflow, aborting
x=1 i=0
while [ $i -lt 14 ]; do x="$x+$x" i=$((i+1)); done   # 1+1+...+1: 16384 terms, 32 KB of text, no nesting
echo $(($x))
echo survived
