// Append at the end of the `#[cfg(test)] mod tests { }` block of yash-arith/src/lib.rs
//
// NOTE: on the unmodified code these tests do not fail with an assertion: they
// abort the whole test process ("has overflowed its stack", SIGABRT), which is
// the defect. The threads get 8 MiB of stack, the default of the main thread
// the shell runs on.

    fn hunt_eval_on_main_sized_stack(expression: String) -> Result<Value, String> {
        std::thread::Builder::new()
            .stack_size(8 << 20)
            .spawn(move || {
                let mut env = HashMap::<String, String>::new();
                eval(&expression, &mut env).map_err(|e| e.to_string())
            })
            .unwrap()
            .join()
            .unwrap()
    }

    #[test]
    fn hunt_long_flat_sum_does_not_crash() {
        // 100 000 terms, no nesting at all in the source text
        let expression = format!("1{}", "+1".repeat(99_999));
        assert_eq!(
            hunt_eval_on_main_sized_stack(expression),
            Ok(Value::Integer(100_000))
        );
    }
