    #[test]
    fn demo_dot_and_dot_dot_after_a_regular_file_are_enotdir() {
        let mut fs = FileSystem::default();
        fs.save("/file", Rc::new(RefCell::new(Inode::new([])))).unwrap();
        fs.save("/dir/x", Rc::new(RefCell::new(Inode::new([])))).unwrap();
        // a real kernel: stat("/file/.") = ENOTDIR, stat("/file/..") = ENOTDIR, stat("/file/../dir") = ENOTDIR
        assert_eq!(fs.get("/file/.").unwrap_err(), Errno::ENOTDIR);
        assert_eq!(fs.get("/file/..").unwrap_err(), Errno::ENOTDIR);
        assert_eq!(fs.get("/file/../dir").unwrap_err(), Errno::ENOTDIR);
        // still fine through directories
        assert!(fs.get("/dir/.").is_ok());
        assert!(fs.get("/dir/../file").is_ok());
    }
