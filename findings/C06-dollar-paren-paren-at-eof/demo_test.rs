    // Append to the `mod tests` block at the end of
    // yash-syntax/src/parser/lex/arith.rs

    #[test]
    fn command_substitution_starting_with_subshell_at_end_of_input() {
        use crate::syntax::List;
        // `$((` that turns out not to be an arithmetic expansion is parsed as
        // a command substitution that starts with a subshell. This must not
        // depend on whether anything follows the final `)`.
        for code in ["echo $((echo '('))", "echo $((echo \\() )", "echo \"$((echo \")\") )\""] {
            let with_newline: List = format!("{code}\n").parse().unwrap();
            let without_newline: List = code
                .parse()
                .unwrap_or_else(|e: crate::parser::Error| panic!("{code:?}: {:?}", e.cause));
            assert_eq!(with_newline.to_string(), without_newline.to_string());
        }
    }

    #[test]
    fn printed_command_substitution_at_end_of_output_reparses() {
        use crate::syntax::List;
        // The redirection is printed last, which moves the command
        // substitution to the end of the printed string.
        let list: List = ">$((echo '(')) echo".parse().unwrap();
        let printed = list.to_string();
        assert_eq!(printed, "echo >$((echo '('))");
        let reparsed: List = printed
            .parse()
            .unwrap_or_else(|e: crate::parser::Error| panic!("{printed:?}: {:?}", e.cause));
        assert_eq!(reparsed.to_string(), printed);
    }
