# Run with: target/debug/yash3 demo.sh
# The same command is evaluated with and without something following the last `)`.
# Expected output (bash prints this; yash3 prints lines 1, 3 and 4):
#   1: (
#   2: (
#   3: (
#   4: (
# Observed with yash3: 2 fails with
#   "error: the arithmetic expansion is not closed ... expected `))`"
# (the same happens for `yash3 -c 'echo $((echo "(") )'`, a command string
# that does not end with a newline.)
nl='
'
printf '1: '; eval 'echo $((echo "(") )'"$nl"
printf '2: '; eval 'echo $((echo "(") )'
printf '3: '; eval 'echo $((echo "(") ) '
printf '4: '; eval 'echo $( (echo "(") )'
