    // Demonstration for the C09 finding "pipe descriptors left open when a pipeline
    // fails to set up part-way". Append inside `mod tests` of
    // yash-semantics/src/command/pipeline.rs; run with
    //   cargo test --offline -p yash-semantics --lib verif_pipeline
    // Fails before the fix (fd 3, the read end of the first pipe, stays open in the
    // shell after the second pipe() fails with EMFILE), passes after it.
    #[test]
    fn verif_pipeline_setup_failure_leaves_no_pipe_fds() {
        use yash_env::system::resource::{LimitPair, Resource, SetRlimit as _};
        in_virtual_system(|mut env, state| async move {
            env.builtins.insert("cat", cat_builtin());
            // fds 0..=4 may be used: the first pipe (3, 4) fits, the second does not
            env.system
                .setrlimit(Resource::NOFILE, LimitPair { soft: 5, hard: 5 })
                .unwrap();
            let pipeline: syntax::Pipeline = "cat | cat | cat".parse().unwrap();
            let result = pipeline.execute(&mut env).await;
            assert_eq!(result, Break(Divert::Interrupt(Some(ExitStatus::NOEXEC))));

            let state = state.borrow();
            let fds = state.processes[&env.main_pid].fds();
            let open: Vec<_> = fds.keys().copied().collect();
            assert_eq!(open, [Fd(0), Fd(1), Fd(2)], "descriptors left open in the shell");
        });
    }
