+x() { echo plus; }
typeset -fr -- +x
typeset -fp
