// append inside `mod tests` of yash-builtin/src/typeset/print_functions.rs
// run: CARGO_NET_OFFLINE=true RUST_BACKTRACE=0 cargo test --offline -p yash-builtin --lib typeset::print_functions::tests::attribute_command_for_function_name_starting_with_plus_reads_back

    /// `typeset -fp` prints, for a read-only function, the definition followed by
    /// a `typeset -fr NAME` command. Feeding that command back to the typeset
    /// built-in must make the function NAME read-only again, also when NAME
    /// starts with `+` (the typeset built-in parses `+r` as an option).
    #[test]
    fn attribute_command_for_function_name_starting_with_plus_reads_back() {
        use futures_util::FutureExt as _;
        use yash_env::semantics::ExitStatus;

        // The listing shell: a read-only function named `+r`.
        let mut listing = Env::new_virtual();
        let function = Function::new(
            "+r",
            function_body_stub("{ :; }"),
            Location::dummy("definition location"),
        )
        .make_read_only(Location::dummy("readonly location"));
        listing.functions.define(function).unwrap();
        let pf = PrintFunctions {
            functions: Field::dummies(["+r"]),
            attrs: vec![],
        };
        let output = pf.execute(&listing.functions, &PRINT_CONTEXT).unwrap();
        let mut lines = output.lines();
        assert_eq!(lines.next(), Some("+r() { :; }"));
        let attribute_command = lines.next().expect("a command that sets the attribute");
        assert_eq!(lines.next(), None);

        // The fresh shell: the function has just been defined by the first
        // line; now evaluate the second line.
        let mut fresh = Env::new_virtual();
        let function = Function::new(
            "+r",
            function_body_stub("{ :; }"),
            Location::dummy("definition location"),
        );
        fresh.functions.define(function).unwrap();
        // The name needs no quoting, so the fields are just the
        // space-separated words of the command.
        let mut args: Vec<Field> = attribute_command.split(' ').map(Field::dummy).collect();
        assert_eq!(args.remove(0).value, "typeset");
        let result = crate::typeset::main(&mut fresh, args)
            .now_or_never()
            .unwrap();

        assert_eq!(
            result.exit_status(),
            ExitStatus::SUCCESS,
            "`{attribute_command}` failed"
        );
        assert!(
            fresh.functions.get("+r").unwrap().is_read_only(),
            "`{attribute_command}` did not make the function `+r` read-only"
        );
    }
