#!/bin/sh
# Shell demonstration for the built binary:
#   CARGO_NET_OFFLINE=true cargo build --offline -p yash-cli
#   LANG=C sh demo.sh /path/to/target/debug/yash3
# Exits 0 (prints PASS) if the `typeset -fp` listing of a read-only function
# named `+x`, evaluated by a fresh shell, makes `+x` read-only again.
yash=${1:-target/debug/yash3}
export LANG=C
tmp=$(mktemp -d) || exit 2
trap 'rm -rf "$tmp"' EXIT
cat > "$tmp/define.sh" <<'END'
+x() { echo plus; }
typeset -fr -- +x
typeset -fp
END
"$yash" "$tmp/define.sh" > "$tmp/listing.sh" || exit 2
cat "$tmp/listing.sh"
cat > "$tmp/fresh.sh" <<END
. "$tmp/listing.sh"
typeset -fp
END
"$yash" "$tmp/fresh.sh" > "$tmp/listing2.sh" 2> "$tmp/err"
if cmp -s "$tmp/listing.sh" "$tmp/listing2.sh"; then
    echo PASS
else
    echo "FAIL: the fresh shell lists:"; cat "$tmp/listing2.sh"; head -n 3 "$tmp/err"
    exit 1
fi
