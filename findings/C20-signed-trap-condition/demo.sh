#!/bin/sh
# usage: sh demo.sh /path/to/target/debug/yash3
# A condition/signal number is an unsigned decimal integer: `trap ... +0`, `trap ... +2`,
# `kill -l +2` must be rejected. Fails before 8980b3b, passes from 8980b3b on.
yash=$(command -v "${1:-target/debug/yash3}") || { echo "usage: sh demo.sh <path to yash3>"; exit 2; }
case $yash in /*) ;; *) yash=$PWD/$yash;; esac

out=$(
"$yash" -c 'trap "echo EXIT-TRAP-RAN" +0 2>/dev/null; echo "trap cmd +0: status=$?"'
"$yash" -c 'trap "" +2 2>/dev/null; echo "trap \"\" +2: status=$?"; echo "traps now set:"; trap'
"$yash" -c 'o=$(kill -l +2 2>/dev/null); echo "kill -l +2: status=$? output=[$o]"'
# controls: a negative number was and is rejected; unsigned numbers keep working
"$yash" -c 'trap "" -2 2>/dev/null; echo "control: trap \"\" -2: status=$?"'
"$yash" -c 'trap "echo exit-trap-ran" 0; trap "" 2; echo "control: kill -l 2=[$(kill -l 2)], traps set with 0 and 2:"; trap'
)
expected='trap cmd +0: status=1
trap "" +2: status=1
traps now set:
kill -l +2: status=1 output=[]
control: trap "" -2: status=1
control: kill -l 2=[INT], traps set with 0 and 2:
trap -- '\''echo exit-trap-ran'\'' EXIT
trap -- '\'''\'' INT
exit-trap-ran'
printf '%s\n' "$out"
if [ "$out" = "$expected" ]; then echo PASS; exit 0; else echo "FAIL: a signed number was accepted as a condition or signal"; exit 1; fi
