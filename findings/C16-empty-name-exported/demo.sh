#!/bin/sh
# usage: sh demo.sh /path/to/target/debug/yash3
# `export =a=b` creates a variable with an empty name; it must not reach the environment of
# utilities as the malformed string "=a=b". Fails before 6f410ec, passes from 6f410ec on.
yash=$(command -v "${1:-target/debug/yash3}") || { echo "usage: sh demo.sh <path to yash3>"; exit 2; }
case $yash in /*) ;; *) yash=$PWD/$yash;; esac

# env(1) prints the environment it was given verbatim; keep the strings that start with "=".
out=$("$yash" -c '
export =a=b
echo "export =a=b: status=$?"
export good=1
echo "environment strings starting with =: [$(env | grep "^=")]"
echo "control: $(env | grep "^good=")"
' 2>&1)
expected='export =a=b: status=0
environment strings starting with =: []
control: good=1'
printf '%s\n' "$out"
if [ "$out" = "$expected" ]; then echo PASS; exit 0; else echo "FAIL: malformed string passed in the environment of a utility"; exit 1; fi
