// new file yash-env/tests/job_id_signed_number.rs -- run: CARGO_NET_OFFLINE=true cargo test --offline -p yash-env --test job_id_signed_number
//
// A job ID `%n` is a job number only when `n` is a positive decimal integer
// (module doc of yash_env::job::id; docs/src/interactive/job_control.md "Job
// IDs"). Anything else that is not `%`, `%%`, `%+`, `%-` or `%?...` is a name
// prefix. `parse_tail` uses `str::parse::<NonZeroUsize>`, which also accepts an
// explicit plus sign, so `%+1` is taken for job number 1.

use std::num::NonZeroUsize;
use yash_env::job::id::{FindError, JobId, parse, parse_tail};
use yash_env::job::{Job, JobList, Pid};

#[test]
fn plus_sign_followed_by_digits_is_not_a_job_number() {
    assert_eq!(parse_tail("+1"), JobId::NamePrefix("+1"));
    assert_eq!(parse("%+1"), Ok(JobId::NamePrefix("+1")));
    assert_eq!(parse("%+007"), Ok(JobId::NamePrefix("+007")));
    // Sanity: the documented forms keep working.
    assert_eq!(parse("%+"), Ok(JobId::CurrentJob));
    assert_eq!(parse("%1"), Ok(JobId::JobNumber(NonZeroUsize::new(1).unwrap())));
}

#[test]
fn plus_one_designates_the_job_whose_name_starts_with_it() {
    let mut jobs = JobList::new();
    let mut job = Job::new(Pid(10));
    job.name = "sleep 100".to_string();
    let _sleep = jobs.insert(job);
    let mut job = Job::new(Pid(20));
    job.name = "+1 --rate issue-42".to_string(); // a utility named `+1`
    let plus_one = jobs.insert(job);

    // `kill %+1` / `fg %+1` must pick the job whose command string begins with
    // "+1" (job number 2), not job number 1.
    assert_eq!(parse("%+1").unwrap().find(&jobs), Ok(plus_one));
}

#[test]
fn plus_one_matches_nothing_when_no_name_starts_with_it() {
    let mut jobs = JobList::new();
    let mut job = Job::new(Pid(10));
    job.name = "sleep 100".to_string();
    jobs.insert(job);

    // Must not silently fall back to job number 1.
    assert_eq!(parse("%+1").unwrap().find(&jobs), Err(FindError::NotFound));
}
