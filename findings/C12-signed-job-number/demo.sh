#!/bin/sh
# Run from the repository root after `CARGO_NET_OFFLINE=true cargo build --offline -p yash-cli`.
# `%+1` is not a documented job number form; with a single job named "sleep 1"
# it must match nothing. The unmodified shell reports job number 1 instead.
LANG=C; export LANG
out=$(./target/debug/yash3 -c 'sleep 1 & jobs %+1; echo "status=$?"; kill $!' 2>&1)
printf '%s\n' "$out"
case $out in
  *'Running'*'sleep 1'*) echo "FAIL: %+1 designated job number 1"; exit 1;;
  *'status=0'*) echo "FAIL: jobs %+1 succeeded"; exit 1;;
  *) echo PASS; exit 0;;
esac
