// Append inside `mod tests` of yash-syntax/src/parser/and_or.rs, then run:
//   cargo test --offline -p yash-syntax --lib parser_alias_substitution_to_blank_before_newline_after_and_and
// (the pipeline parser has the same test for `|`: parser_alias_substitution_to_newline_after_bar)
    #[test]
    fn parser_alias_substitution_to_blank_before_newline_after_and_and() {
        use crate::alias::{AliasSet, HashEntry};
        use crate::source::Location;
        let mut lexer = Lexer::with_code("foo && X\n bar");
        #[allow(clippy::mutable_key_type, reason = "AliasSet is defined as such")]
        let mut aliases = AliasSet::new();
        aliases.insert(HashEntry::new(
            "X".to_string(),
            " ".to_string(),
            false,
            Location::dummy(""),
        ));
        let mut parser = Parser::config().aliases(&aliases).input(&mut lexer);

        let result = parser.and_or_list().now_or_never().unwrap();
        let aol = result.unwrap().unwrap().unwrap();
        assert_eq!(aol.to_string(), "foo && bar");
    }
