alias b=' '
true && b
echo ok
true | b
cat </dev/null
echo ok2
