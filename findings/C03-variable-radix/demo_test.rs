// Demonstration for the C03 finding "variable values parsed decimal-only".
// Drop into yash-arith/tests/verif_radix.rs; fails before the fix, passes after.
use std::collections::HashMap;
use yash_arith::{eval, Value};

fn ev(expr: &str, x: &str) -> Result<Value, String> {
    let mut env = HashMap::new();
    env.insert("x".to_string(), x.to_string());
    eval(expr, &mut env).map_err(|e| format!("{e:?}"))
}

#[test]
fn variable_and_inline_constant_agree() {
    for x in ["010", "0x10", "0X1f", "-010", "+0x10", "-9223372036854775807", "7", "0"] {
        let inline = ev(&format!("{x}"), "0");
        let via_var = ev("x", x);
        assert_eq!(inline, via_var, "x={x}");
    }
    assert_eq!(ev("x", "010"), Ok(Value::Integer(8)));
    assert_eq!(ev("x", "0x10"), Ok(Value::Integer(16)));
    // the most negative value (which the shell itself can produce and store) stays readable
    assert_eq!(ev("x", "-9223372036854775808"), Ok(Value::Integer(i64::MIN)));
    // not constants: still rejected
    for x in ["", "*", "0x", "0x-5", "08", " 5", "5 ", "--5", "1_0"] {
        assert!(ev("x", x).is_err(), "x={x:?}");
    }
}
