// Demonstration for finding C08.R7 / C19.R5:
// `virtual::Process::fork_from` does not copy `umask`, `cwd` and `resource_limits`.
//
// Where it goes: paste the two tests below into the `#[cfg(test)] mod tests` block at the
// end of yash-env/src/system/virtual/process.rs (everything they use is already imported
// there: `super::*` brings Process, Pid, Mode, Path, PathBuf, Resource, LimitPair).
// Run with:  cargo test -p yash-env --lib system::virtual::process::tests::fork_from
//
// Before the fix (fix.patch in this directory) the first test fails at the umask
// assertion (child has Mode::default(), cwd "" and no resource limits); after the fix
// both pass. The second test pins the other half of the rule (per-process state is
// not inherited) and passes before and after.

    #[test]
    fn fork_from_inherits_umask_cwd_and_resource_limits() {
        let mut parent = Process::with_parent_and_group(Pid(1), Pid(2));
        parent.umask = Mode::from_bits_retain(0o077);
        parent.chdir(PathBuf::from("/foo/bar"));
        let limits = LimitPair { soft: 10, hard: 20 };
        parent.resource_limits.insert(Resource::NOFILE, limits);

        let child = Process::fork_from(Pid(5), &parent);

        assert_eq!(child.ppid(), Pid(5));
        assert_eq!(child.pgid(), Pid(2));
        assert_eq!(child.umask, Mode::from_bits_retain(0o077));
        assert_eq!(child.getcwd(), Path::new("/foo/bar"));
        assert_eq!(child.resource_limits.get(&Resource::NOFILE), Some(&limits));
    }

    #[test]
    fn fork_from_does_not_inherit_per_process_state() {
        let mut parent = Process::with_parent_and_group(Pid(1), Pid(2));
        parent.caught_signals.push(signal::SIGINT);
        parent.caught_signals_count = 1;
        parent.last_exec = Some((c"/bin/sh".to_owned(), vec![], vec![]));

        let child = Process::fork_from(Pid(5), &parent);

        assert_eq!(child.state(), ProcessState::Running);
        assert_eq!(child.caught_signals, []);
        assert_eq!(child.caught_signals_count, 0);
        assert_eq!(child.last_exec, None);
    }
