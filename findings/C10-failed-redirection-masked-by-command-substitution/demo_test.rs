    // Append to the `mod tests` block at the end of
    // yash-semantics/src/command/simple_command/absent.rs

    #[test]
    fn failed_redirection_is_not_masked_by_command_substitution_in_assignment() {
        in_virtual_system(|mut env, state| async move {
            env.builtins.insert("return", return_builtin());
            let command: syntax::SimpleCommand =
                "a=$(return -n 0) </no/such/file".parse().unwrap();
            _ = command.execute(&mut env).await;
            // The redirection error is reported...
            assert_stderr(&state, |stderr| assert_ne!(stderr, ""));
            // ...so the command must not complete with a zero exit status.
            assert_ne!(env.exit_status, ExitStatus::SUCCESS);
        });
    }

    #[test]
    fn errexit_applies_to_failed_redirection_with_assignment_and_absent_target() {
        in_virtual_system(|mut env, _state| async move {
            env.builtins.insert("return", return_builtin());
            env.options.set(yash_env::option::ErrExit, On);
            let command: syntax::SimpleCommand =
                "a=$(return -n 0) </no/such/file".parse().unwrap();
            let result = command.execute(&mut env).await;
            assert_eq!(result, Break(Divert::Exit(None)));
            assert_eq!(env.exit_status, ExitStatus::ERROR);
        });
    }
