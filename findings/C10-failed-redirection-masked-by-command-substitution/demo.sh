# Run with: target/debug/yash3 demo.sh
# A simple command without a command name whose redirection fails, but which
# also has an assignment containing a command substitution.
#
# Expected output (dash, bash --posix, and the project's own documentation:
# a redirection error sets a non-zero exit status and makes an errexit shell exit):
#   status=2        (any non-zero value)
#   EXIT trap, status 2
# Observed output:
#   status=0
#   continued after failed redirection, status 0
#   EXIT trap, status 0
trap 'echo "EXIT trap, status $?"' EXIT
x=$(true) </nonexistent/file
echo "status=$?"
set -e
x=$(true) </nonexistent/file
echo "continued after failed redirection, status $?"
