// Append these tests at the end of the `#[cfg(test)] mod tests { }` block of
// yash-env/src/system/concurrency/run_virtual.rs

    fn save_fifo(state: &std::cell::RefCell<crate::system::r#virtual::SystemState>, path: &str) {
        use crate::system::r#virtual::{FileBody, Inode};
        use crate::waker::WakerSet;
        let inode = Inode {
            body: FileBody::Fifo {
                content: Default::default(),
                readers: 0,
                writers: 0,
                pending_open_wakers: WakerSet::new(),
                pending_read_wakers: WakerSet::new(),
                pending_write_wakers: WakerSet::new(),
            },
            permissions: crate::system::Mode::ALL_9,
        };
        state
            .borrow_mut()
            .file_system
            .save(path, Rc::new(std::cell::RefCell::new(inode)))
            .unwrap();
    }

    /// A task that is blocked in `open`ing a FIFO is woken up when the other
    /// end is opened, but `run_virtual` never polls the task again.
    #[test]
    fn run_virtual_resumes_task_when_fifo_it_is_opening_gets_ready() {
        use crate::system::{OfdAccess, Open as _};
        use enumset::EnumSet;

        let inner = VirtualSystem::new();
        save_fifo(&inner.state, "/fifo");
        let system = Rc::new(Concurrent::new(inner.clone()));
        let opened = Rc::new(Cell::new(false));
        let opened_2 = Rc::clone(&opened);
        let system_2 = Rc::clone(&system);
        let mut future = pin!(system.run_virtual(async move {
            system_2
                .open(
                    c"/fifo",
                    OfdAccess::ReadOnly,
                    EnumSet::empty(),
                    crate::system::Mode::empty(),
                )
                .await
                .unwrap();
            opened_2.set(true);
        }));

        // Nobody has opened the FIFO for writing, so the task blocks.
        let wake_flag = Arc::new(WakeFlag::new());
        let waker = Waker::from(Arc::clone(&wake_flag));
        let mut context = Context::from_waker(&waker);
        assert_eq!(future.as_mut().poll(&mut context), Pending);
        assert!(!opened.get());
        assert!(!wake_flag.is_woken());

        // Now the FIFO is opened for writing. (It does not matter which process
        // does it.) This completes immediately because there is a reader.
        inner
            .open(
                c"/fifo",
                OfdAccess::WriteOnly,
                EnumSet::empty(),
                crate::system::Mode::empty(),
            )
            .now_or_never()
            .expect("opening the write end should not block")
            .unwrap();

        // The run loop has been notified...
        assert!(wake_flag.is_woken());
        // ...and must now let the task finish opening the FIFO.
        assert_eq!(future.as_mut().poll(&mut context), Ready(()));
        assert!(opened.get());
    }

    /// The same defect seen from the shell's point of view: a parent and a
    /// child rendezvous on a FIFO (`echo $big >fifo & cat <fifo; wait $!`).
    /// This program is race-free, but it never terminates.
    /// (The child writes more than the FIFO can hold so that it is still
    /// holding the write end open when the parent gets a chance to run.)
    #[test]
    fn parent_and_child_rendezvous_on_fifo_without_deadlock() {
        use crate::subshell::Config;
        use crate::system::concurrency::{ReadAll as _, WriteAll as _};
        use crate::system::{OfdAccess, Open as _};
        use crate::test_helper::in_virtual_system;
        use enumset::EnumSet;

        in_virtual_system(|mut env, state| async move {
            save_fifo(&state, "/fifo");

            let (pid, _) = Config::new()
                .start(&mut env, async |env, _job_control| {
                    let fd = env
                        .system
                        .open(
                            c"/fifo",
                            OfdAccess::WriteOnly,
                            EnumSet::empty(),
                            crate::system::Mode::empty(),
                        )
                        .await
                        .unwrap();
                    env.system.write_all(fd, &[b'x'; 3000]).await.unwrap();
                    env.exit_status = ExitStatus(7);
                })
                .await
                .unwrap();

            let fd = env
                .system
                .open(
                    c"/fifo",
                    OfdAccess::ReadOnly,
                    EnumSet::empty(),
                    crate::system::Mode::empty(),
                )
                .await
                .unwrap();
            let mut content = Vec::new();
            env.system.read_all_to(fd, &mut content).await.unwrap();
            assert_eq!(content.len(), 3000);

            let result = env.wait_for_subshell_to_finish(pid).await;
            assert_eq!(result, Ok((pid, ExitStatus(7))));
        })
    }
