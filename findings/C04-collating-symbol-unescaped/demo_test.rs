// Demonstration for the C04 finding "collating symbol / equivalence class text is
// written into the regular expression without escaping" (rule C04.R1,
// yash-fnmatch/src/ast/regex.rs, BracketAtom::fmt_regex).
//
// Put this file at yash-fnmatch/tests/verif_collating_symbol.rs and run
// `cargo test -p yash-fnmatch --test verif_collating_symbol`.
// It fails before the fix (the first assertion already: `[[.^.]]` becomes the
// invalid regex `[^]`) and passes after.
use yash_fnmatch::{Config, Pattern, without_escape};

fn whole(pattern: &str) -> Pattern {
    let mut config = Config::default();
    config.anchor_begin = true;
    config.anchor_end = true;
    Pattern::parse_with_config(without_escape(pattern), config)
        .unwrap_or_else(|e| panic!("pattern {pattern:?} was rejected: {e}"))
}

#[test]
fn single_character_collating_symbol_matches_that_character_only() {
    // every character that is special somewhere in regex syntax, plus an ordinary one
    for c in r"^\[]-&~.+*?()|{}$#a".chars() {
        for pattern in [format!("[[.{c}.]]"), format!("[[={c}=]]"), format!("[x[.{c}.]]")] {
            let p = whole(&pattern);
            assert!(p.is_match(&c.to_string()), "{pattern:?} must match {c:?}");
            assert!(!p.is_match("b"), "{pattern:?} must not match \"b\"");
            assert!(!p.is_match(""), "{pattern:?} must not match the empty string");
        }
        let p = whole(&format!("[![.{c}.]]"));
        assert!(!p.is_match(&c.to_string()), "[![.{c}.]] must not match {c:?}");
        assert!(p.is_match("b"), "[![.{c}.]] must match \"b\"");
    }
}

#[test]
fn multi_character_collating_symbol_matches_its_literal_text_only() {
    let p = whole("[[.a*.]]");
    assert!(p.is_match("a*"));
    assert!(!p.is_match("aaa"));
    assert!(!p.is_match(""));

    let p = whole("[[=.x=]]");
    assert!(p.is_match(".x"));
    assert!(!p.is_match("ax"));

    let p = whole("[[.a|b.]z]");
    assert!(p.is_match("a|b"));
    assert!(p.is_match("z"));
    assert!(!p.is_match("a"));
    assert!(!p.is_match("b"));

    // an unbalanced parenthesis used to make the whole pattern invalid
    let p = whole("[[.(a.]]");
    assert!(p.is_match("(a"));
}
