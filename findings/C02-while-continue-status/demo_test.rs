// append inside `mod tests` of yash-semantics/src/command/compound_command/while_loop.rs
// run: CARGO_NET_OFFLINE=true cargo test --offline -p yash-semantics --lib last_body
//
// The exit status of a while/until loop is that of the last command run in
// the loop body (docs/src/language/commands/loops.md; POSIX XCU 2.9.4.3: "the
// exit status of the last compound-list-2 executed"). When the last run of the
// body is cut short by `continue` (exit status 0), the loop must finish with 0,
// exactly as the sibling `for` loop does. The unmodified code instead reports
// the exit status of an *earlier* iteration of the body (7 here).

    #[test]
    fn exit_status_of_while_loop_with_continued_last_body() {
        let mut env = Env::new_virtual();
        env.builtins.insert("continue", continue_builtin());
        env.builtins.insert("return", return_builtin());
        // Round 1 (i=1): the body finishes normally with exit status 7.
        // Round 2 (i=2): the body executes `continue`, whose exit status is 0.
        // Round 3 (i=3): the condition fails and the loop ends.
        let command: CompoundCommand = "while return -n $(((i+=1)>2)); do
            case $i in (2) continue;; esac
            return -n 7
        done"
            .parse()
            .unwrap();

        let result = command.execute(&mut env).now_or_never().unwrap();
        assert_eq!(result, Continue(()));
        assert_eq!(env.exit_status, ExitStatus::SUCCESS);
    }

    #[test]
    fn exit_status_of_until_loop_with_continued_last_body() {
        let mut env = Env::new_virtual();
        env.builtins.insert("continue", continue_builtin());
        env.builtins.insert("return", return_builtin());
        let command: CompoundCommand = "until return -n $(((i+=1)<=2)); do
            case $i in (2) continue;; esac
            return -n 7
        done"
            .parse()
            .unwrap();

        let result = command.execute(&mut env).now_or_never().unwrap();
        assert_eq!(result, Continue(()));
        assert_eq!(env.exit_status, ExitStatus::SUCCESS);
    }

    #[test]
    fn exit_status_of_while_loop_with_last_body_continued_from_inner_loop() {
        // `continue 2` executed in a nested loop ends the current round of the
        // outer loop body as well.
        let mut env = Env::new_virtual();
        env.builtins.insert("continue", continue_builtin());
        env.builtins.insert("return", return_builtin());
        let command: CompoundCommand = "while return -n $(((i+=1)>2)); do
            case $i in (2) for j in x; do continue 2; done;; esac
            return -n 7
        done"
            .parse()
            .unwrap();

        let result = command.execute(&mut env).now_or_never().unwrap();
        assert_eq!(result, Continue(()));
        assert_eq!(env.exit_status, ExitStatus::SUCCESS);
    }
