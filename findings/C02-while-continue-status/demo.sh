#!/bin/sh
# usage: LANG=C sh demo.sh /path/to/target/debug/yash3
# Prints "ok" and exits 0 on a correct shell; exits 1 on the unmodified tree.
yash=${1:-target/debug/yash3}
LANG=C; export LANG
w=$("$yash" -c 'i=0; while [ $i -lt 2 ]; do i=$((i+1)); if [ $i = 2 ]; then continue; fi; (exit 7); done; echo $?')
u=$("$yash" -c 'i=0; until [ $i -ge 2 ]; do i=$((i+1)); if [ $i = 2 ]; then continue; fi; (exit 7); done; echo $?')
f=$("$yash" -c 'for i in 1 2; do if [ $i = 2 ]; then continue; fi; (exit 7); done; echo $?')
echo "while=$w until=$u for=$f (expected 0 0 0)"
[ "$w" = 0 ] && [ "$u" = 0 ] && [ "$f" = 0 ] && echo ok
