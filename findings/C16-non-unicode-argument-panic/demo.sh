#!/bin/sh
# usage: sh demo.sh path/to/yash3 ; prints PASS/FAIL
Y=${1:-target/debug/yash3}
out=$("$Y" -c 'echo "got:$#"' x "$(printf 'a\377b')" 2>/dev/null); rc=$?
if [ "$rc" -eq 0 ] && [ "$out" = "got:1" ]; then echo PASS; exit 0; fi
echo "FAIL: exit status $rc, output [$out] (expected status 0 and got:1)"; exit 1
