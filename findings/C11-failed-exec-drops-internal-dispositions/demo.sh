#!/bin/sh
# Run from the repository root after `cargo build --offline -p yash-cli`:
#   LANG=C sh /tmp/seed-out/C11h/3/demo.sh
# Exits 0 if the interactive shell survives SIGTERM after a failed exec, 1 otherwise.
export LANG=C
Y=${YASH:-target/debug/yash3}
out=$("$Y" -i +m -c '
kill -TERM $$; echo survived before exec
exec /nonexistent/cmd 2>/dev/null; echo "exec status $?"
kill -TERM $$; echo survived after exec
' </dev/null 2>/dev/null)
status=$?
printf '%s\nexit status of the shell: %s\n' "$out" "$status"
case $out in
    (*'survived after exec') exit 0;;
    (*) exit 1;;
esac
