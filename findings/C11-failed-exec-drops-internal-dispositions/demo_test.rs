// Append inside `mod tests` of yash-builtin/src/exec.rs, then run:
//   CARGO_NET_OFFLINE=true RUST_BACKTRACE=0 cargo test --offline -p yash-builtin --lib exec::tests::failed_exec_keeps_internal_dispositions_of_interactive_shell
//
// History: an interactive job-controlling shell has installed its internal
// dispositions (as yash-cli/src/startup.rs does), the user runs `exec` with a
// utility that cannot be executed, the built-in fails and - the shell being
// interactive - the shell carries on. The shell still needs its handlers:
// SIGINT must stay caught and SIGTERM, SIGQUIT, SIGTSTP, SIGTTIN, SIGTTOU ignored
// (docs/src/environment/traps.md, "Auto-ignored signals").

    #[test]
    fn failed_exec_keeps_internal_dispositions_of_interactive_shell() {
        use yash_env::system::Disposition;
        use yash_env::system::r#virtual::{SIGINT, SIGQUIT, SIGTERM, SIGTSTP, SIGTTIN, SIGTTOU};

        let system = VirtualSystem::new();
        let mut env = Env::with_system(Rc::new(Concurrent::new(system.clone())));
        env.options.set(Interactive, On);
        env.options.set(yash_env::option::Option::Monitor, On);
        env.traps
            .enable_internal_dispositions_for_terminators(&env.system)
            .now_or_never()
            .unwrap()
            .unwrap();
        env.traps
            .enable_internal_dispositions_for_stoppers(&env.system)
            .now_or_never()
            .unwrap()
            .unwrap();
        {
            let process = system.current_process();
            assert_eq!(process.disposition(SIGINT), Disposition::Catch);
            assert_eq!(process.disposition(SIGTERM), Disposition::Ignore);
        }

        // Prepare the file without executable permission
        let content = non_executable_file();
        system
            .state
            .borrow_mut()
            .file_system
            .save("/bin/echo", Rc::new(RefCell::new(content)))
            .unwrap();

        let args = Field::dummies(["/bin/echo"]);
        let result = main(&mut env, args).now_or_never().unwrap();
        assert_eq!(result.exit_status(), ExitStatus::NOEXEC);
        // The interactive shell continues ...
        assert_eq!(result.divert(), Continue(()));

        // ... so it must still be protected from the signals.
        let process = system.current_process();
        assert_eq!(process.disposition(SIGINT), Disposition::Catch, "SIGINT");
        assert_eq!(process.disposition(SIGTERM), Disposition::Ignore, "SIGTERM");
        assert_eq!(process.disposition(SIGQUIT), Disposition::Ignore, "SIGQUIT");
        assert_eq!(process.disposition(SIGTSTP), Disposition::Ignore, "SIGTSTP");
        assert_eq!(process.disposition(SIGTTIN), Disposition::Ignore, "SIGTTIN");
        assert_eq!(process.disposition(SIGTTOU), Disposition::Ignore, "SIGTTOU");
    }
