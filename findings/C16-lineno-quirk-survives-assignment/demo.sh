echo $LINENO
LINENO=55
echo $LINENO $((LINENO))
f() { typeset LINENO=3; echo $LINENO; }; f
