// Append inside `mod tests` of yash-arith/src/lib.rs, then run:
//   CARGO_NET_OFFLINE=true cargo test --offline -p yash-arith --lib conditional_expression_is_not_assignable
//
// In C the result of `?:` is a value, never an lvalue, and `?:` binds tighter than
// assignment, so `1 ? a : b = 9` is `(1 ? a : b) = 9`: an assignment to a non-variable
// (bash: "attempted assignment to non-variable"; dash: syntax error). It must be
// reported with the existing `EvalError::AssignmentToValue` and must not modify `a`.

    #[test]
    fn conditional_expression_is_not_assignable() {
        let env = &mut HashMap::new();
        env.insert("a".to_string(), "1".to_string());
        env.insert("b".to_string(), "2".to_string());

        assert_eq!(
            eval("1 ? a : b = 9", env),
            Err(Error {
                cause: EvalError::AssignmentToValue.into(),
                location: 10..11,
            })
        );
        assert_eq!(
            eval("(0 ? a : b) += 5", env),
            Err(Error {
                cause: EvalError::AssignmentToValue.into(),
                location: 12..14,
            })
        );
        assert_eq!(
            eval("(1 ? a : b)++", env),
            Err(Error {
                cause: EvalError::AssignmentToValue.into(),
                location: 11..13,
            })
        );
        assert_eq!(
            eval("--(0 ? a : b)", env),
            Err(Error {
                cause: EvalError::AssignmentToValue.into(),
                location: 0..2,
            })
        );
        // No variable has been modified.
        assert_eq!(env["a"], "1");
        assert_eq!(env["b"], "2");

        // The conditional operator still yields the selected operand's value
        // and a parenthesized variable is still assignable as in C.
        assert_eq!(eval("1 ? a : b", env), Ok(Value::Integer(1)));
        assert_eq!(eval("0 ? a : b", env), Ok(Value::Integer(2)));
        assert_eq!(eval("(a) = 0 ? a : b", env), Ok(Value::Integer(2)));
        assert_eq!(env["a"], "2");
    }
