#!/bin/sh
# Usage: LANG=C sh demo.sh path/to/yash3   (build: cargo build --offline -p yash-cli)
# `1 ? a : b = 9` is `(1 ? a : b) = 9` in C: an assignment to a non-lvalue. The shell
# must report an error (like bash and dash do) and leave `a` alone.
yash=${1:-target/debug/yash3}
out=$(LANG=C "$yash" -c '
a=1 b=2
(echo "$((1 ? a : b = 9))") 2>/dev/null; echo "status=$?"
(: "$(( (1 ? a : b) = 9 ))"; echo "a=$a b=$b") 2>/dev/null
(: "$(( (0 ? a : b)++ ))"; echo "a=$a b=$b") 2>/dev/null
echo "a=$a b=$b"
' 2>&1)
expected='status=2
a=1 b=2'
if [ "$out" = "$expected" ]; then echo PASS; else echo FAIL; printf '%s\n' "$out"; exit 1; fi
