// Append inside `mod tests` of yash-env/src/system/virtual/process.rs, then run:
//   cargo test --offline -p yash-env --lib process_raise_signal_after_termination
// A process that has terminated but has not been awaited yet (a zombie) is not affected by signals on a real
// kernel: kill(2) succeeds and nothing happens. The simulated process let SIGCONT put it back to Running and
// SIGTERM / SIGKILL replace its exit status.
    #[test]
    fn process_raise_signal_after_termination() {
        let mut process = Process::with_parent_and_group(Pid(42), Pid(11));
        let _ = process.set_state(ProcessState::exited(7));
        let _ = process.take_state();

        let result = process.raise_signal(signal::SIGCONT);
        assert_eq!(process.state(), ProcessState::exited(7));
        assert!(!result.process_state_changed);

        let result = process.raise_signal(signal::SIGTERM);
        assert_eq!(process.state(), ProcessState::exited(7));
        assert!(!result.process_state_changed);

        let result = process.raise_signal(signal::SIGKILL);
        assert_eq!(process.state(), ProcessState::exited(7));
        assert!(!result.process_state_changed);
        assert!(!process.state_has_changed());
    }
