// Demonstration for the C04 finding "a quoted hyphen inside a bracket expression
// forms a range" (rule C04.R3, yash-fnmatch/src/ast/parse.rs, make_range).
//
// Put this file at yash-fnmatch/tests/verif_quoted_hyphen.rs and run
// `cargo test -p yash-fnmatch --test verif_quoted_hyphen`.
// It fails before the fix (`[a\-c]` matches "b" and does not match "-") and
// passes after.
use yash_fnmatch::ast::{Ast, Atom, Bracket, BracketAtom, BracketItem};
use yash_fnmatch::{Config, Pattern, PatternChar, with_escape};

fn whole<I>(pattern: I) -> Pattern
where
    I: IntoIterator<Item = PatternChar>,
    <I as IntoIterator>::IntoIter: Clone,
{
    let mut config = Config::default();
    config.anchor_begin = true;
    config.anchor_end = true;
    Pattern::parse_with_config(pattern, config).unwrap()
}

#[test]
fn quoted_hyphen_in_bracket_expression_is_an_ordinary_character() {
    let p = whole(with_escape(r"[a\-c]"));
    assert!(p.is_match("a"));
    assert!(p.is_match("-"));
    assert!(p.is_match("c"));
    assert!(!p.is_match("b"));

    let ast = Ast::new(with_escape(r"[a\-c]"));
    assert_eq!(
        ast.atoms,
        [Atom::Bracket(Bracket {
            complement: false,
            items: vec![
                BracketItem::Atom(BracketAtom::Char('a')),
                BracketItem::Atom(BracketAtom::Char('-')),
                BracketItem::Atom(BracketAtom::Char('c')),
            ]
        })]
    );

    // the same through PatternChar::Literal directly (what the shell produces for "[a'-'c]")
    use PatternChar::{Literal, Normal};
    let p = whole([Normal('['), Normal('0'), Literal('-'), Normal('9'), Normal(']')]);
    assert!(p.is_match("0"));
    assert!(p.is_match("-"));
    assert!(p.is_match("9"));
    assert!(!p.is_match("5"));
}

#[test]
fn quoted_hyphen_can_still_be_a_range_bound() {
    // `\-` as the start and as the end point of a range whose operator is unquoted
    let p = whole(with_escape(r"[\--0]"));
    for (s, expected) in [("-", true), (".", true), ("/", true), ("0", true), ("1", false), ("+", false)] {
        assert_eq!(p.is_match(s), expected, "{s:?}");
    }
    let p = whole(with_escape(r"[+-\-]"));
    for (s, expected) in [("+", true), (",", true), ("-", true), (".", false), ("*", false)] {
        assert_eq!(p.is_match(s), expected, "{s:?}");
    }
}

#[test]
fn unquoted_hyphen_still_forms_ranges() {
    let p = whole(with_escape(r"[a-c]"));
    assert!(p.is_match("b"));
    assert!(!p.is_match("-"));
    let p = whole(with_escape(r"[a-c-e]"));
    for (s, expected) in [("a", true), ("b", true), ("c", true), ("-", true), ("e", true), ("d", false)] {
        assert_eq!(p.is_match(s), expected, "{s:?}");
    }
}
