// Demonstration for the C06 finding "the parser panics when the input ends right after `${`".
// New file yash-syntax/tests/verif_braced_param_eof.rs; run with
//   cargo test --offline -p yash-syntax --test verif_braced_param_eof
// Before the fix every case panics (`Option::unwrap()` on `None` in braced_param.rs);
// after it each input yields a syntax error.
use std::str::FromStr;
use yash_syntax::syntax::List;

#[test]
fn input_ending_after_opening_brace_is_a_syntax_error_not_a_panic() {
    for src in ["${", "echo ${", "echo ${#", "echo \"${", "echo \"${#", "x=${", ": $(echo ${", "cat <<E\n${"] {
        let result = std::panic::catch_unwind(|| List::from_str(src).map(|l| l.to_string()));
        match result {
            Ok(Err(_)) => (),
            Ok(Ok(s)) => panic!("{src:?} unexpectedly parsed as {s:?}"),
            Err(_) => panic!("the parser panicked on {src:?}"),
        }
    }
}
