// append inside `mod tests` of yash-builtin/src/alias/semantics.rs
// run: CARGO_NET_OFFLINE=true RUST_BACKTRACE=0 cargo test --offline -p yash-builtin --lib alias::semantics::tests::printed_definition_is_not_subject_to_pathname_expansion

    /// The `name=value` line printed by the alias built-in is meant to be given
    /// back to the alias built-in as one operand. The shell must read it back
    /// as exactly that one field, whatever files exist in the working
    /// directory.
    #[test]
    fn printed_definition_is_not_subject_to_pathname_expansion() {
        use std::rc::Rc;
        use yash_env::VirtualSystem;
        use yash_env::system::Concurrent;
        use yash_semantics::expansion::expand_words;
        use yash_syntax::syntax::SimpleCommand;

        // A working directory that contains a file named `ab`
        let system = VirtualSystem::new();
        system
            .state
            .borrow_mut()
            .file_system
            .save("ab", Rc::default())
            .unwrap();
        let mut env = Env::with_system(Rc::new(Concurrent::new(system)));

        // alias 'a[=b]'
        let alias = Alias {
            name: "a[".into(),
            replacement: "b]".into(),
            global: false,
            origin: Location::dummy("definition location"),
        };
        let mut line = String::new();
        print(&alias, &mut line);

        // Evaluate `alias <printed line>` in the shell.
        let command: SimpleCommand = format!("alias {}", line.trim_end()).parse().unwrap();
        assert_eq!(command.assigns, []);
        let words = command.words.iter().map(|(word, _mode)| word);
        let (fields, _) = expand_words(&mut env, words)
            .now_or_never()
            .unwrap()
            .unwrap();
        let fields = fields.iter().map(|f| f.value.as_str()).collect::<Vec<_>>();

        assert_eq!(fields, ["alias", "a[=b]"], "printed line: {line:?}");
    }
