#!/bin/sh
# Shell demonstration for the built binary:
#   CARGO_NET_OFFLINE=true cargo build --offline -p yash-cli
#   LANG=C sh demo.sh /path/to/target/debug/yash3
# In a directory that contains a file named `ab`: define the alias `a[` with
# the value `b]`, print it with `alias`, feed each printed line back to `alias`
# in a fresh shell and print again.
# Prints PASS and exits 0 if the second listing equals the first one.
yash=${1:-target/debug/yash3}
case $yash in (/*) ;; (*) yash=$PWD/$yash;; esac
export LANG=C
tmp=$(mktemp -d) || exit 2
trap 'rm -rf "$tmp"' EXIT
cd "$tmp" || exit 2
: > ab

"$yash" -c 'alias "a[=b]"; alias' > alias1.txt || exit 2
"$yash" -c 'while read -r line; do eval "alias $line"; done < alias1.txt; alias' > alias2.txt 2> err.txt
if cmp -s alias1.txt alias2.txt; then
    echo PASS
else
    echo "FAIL: alias printed: $(cat alias1.txt); fresh shell has: $(cat alias2.txt) $(grep -m1 found err.txt)"
    exit 1
fi
