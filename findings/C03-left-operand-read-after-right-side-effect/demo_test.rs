// Append at the end of the `#[cfg(test)] mod tests { }` block of yash-arith/src/lib.rs

    #[test]
    fn hunt_left_operand_is_read_before_right_operand_side_effect() {
        // Spelling the left operand as `x`, `(x)`, `+x` or `x * 1` must not
        // change the result: all denote the value x has when the operand is
        // evaluated, i.e. before the right operand is evaluated.
        for (expression, expected) in [
            ("+x + (x = 5)", 6),
            ("x * 1 + (x = 5)", 6),
            ("x + (x = 5)", 6),   // observed: 10
            ("(x) + (x = 5)", 6), // observed: 10
            ("x - (x = 5)", -4),  // observed: 0
            ("x + x++", 2),       // observed: 3
            ("x < (x = 0)", 0),   // observed: 0 only by accident (0 < 0)
            ("x == (x = 7)", 0),  // observed: 1
        ] {
            let mut env = HashMap::from([("x".to_owned(), "1".to_owned())]);
            assert_eq!(
                eval(expression, &mut env),
                Ok(Value::Integer(expected)),
                "{expression}"
            );
        }
    }
