# Run: target/debug/yash3 demo.sh
# Expected (what dash and bash print, and what yash3 itself prints when the
# left operand is written `+x` instead of `x`):
#   6 6 6
#   -3
#   4
#   0
# Observed with the unmodified yash3:
#   6 10 10
#   0
#   1
#   1
x=1; a=$((+x + (x=5)))
x=1; b=$((x + (x=5)))
x=1; c=$(( (x) + (x=5) ))
echo $a $b $c
x=2; echo $((x - (x=5)))
x=8; echo $((x / (x=2)))
x=1; echo $((x == (x=7)))
