# Run: target/debug/yash3 < demo.sh   (compare: dash < demo.sh, bash < demo.sh)
# Expected output (dash, bash, POSIX.1-2024 XCU 2.7.4):
#   foo
#   next1
#   bar
#   next2
#   v=DATA
# Observed with yash3: the commands after each here-document are swallowed as
# here-document text (and the data line for `read` is then run as a command):
#   foo
#   END
#   echo next1
#   bar
#   END
#   ...
cat <<END
foo
\
END
echo next1
cat <<END
bar
E\
ND
echo next2
read v
DATA
echo "v=$v"
exit
END
exit
END
