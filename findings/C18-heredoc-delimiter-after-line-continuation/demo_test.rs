    // Append at the end of `mod tests` in yash-syntax/src/parser/lex/heredoc.rs

    #[test]
    fn lexer_here_doc_content_delimiter_after_line_continuation() {
        // Unquoted delimiter: the logical line "\<newline>END" is "END".
        let heredoc = here_doc_operator("END", false);

        let mut lexer = Lexer::with_code("foo\n\\\nEND\necho next\nEND\n");
        lexer
            .here_doc_content(&heredoc)
            .now_or_never()
            .unwrap()
            .unwrap();
        assert_eq!(heredoc.content.get().unwrap().to_string(), "foo\n");

        // The lexer must not have consumed the command following the delimiter.
        let rest = lexer.line().now_or_never().unwrap().unwrap();
        assert_eq!(rest, "echo next");
    }

    #[test]
    fn lexer_here_doc_content_line_continuation_inside_delimiter() {
        let heredoc = here_doc_operator("END", true);

        let mut lexer = Lexer::with_code("\tfoo\n\tE\\\nND\necho next\nEND\n");
        lexer
            .here_doc_content(&heredoc)
            .now_or_never()
            .unwrap()
            .unwrap();
        assert_eq!(heredoc.content.get().unwrap().to_string(), "foo\n");

        let rest = lexer.line().now_or_never().unwrap().unwrap();
        assert_eq!(rest, "echo next");
    }
