// Append inside `mod tests` (the last item) of yash-env/src/lib.rs, then run:
//   CARGO_NET_OFFLINE=true cargo test --offline -p yash-env --lib tests::allexport_does_not_export_read_only_variable
// The allexport option exports a variable *when it is assigned to*. Every assigner (simple assignment,
// read, getopts, for, typeset, ...) obtains the variable with Env::get_or_create_variable and then calls
// assign on it. Before 01ff8fe, get_or_create_variable exported the variable up front; with a read-only
// variable the assignment then fails, yet the variable stays exported:
//   readonly ro=1; set -a; command readonly ro=2   (or: ro=2, read ro, ...)  =>  ro is in the environment
    #[test]
    fn allexport_does_not_export_read_only_variable_whose_assignment_fails() {
        use crate::variable::Value;

        let mut env = Env::new_virtual();
        // readonly ro=1
        let mut ro = env.get_or_create_variable("ro", Scope::Global);
        ro.assign("1", None).unwrap();
        ro.make_read_only(Location::dummy("readonly ro=1"));
        assert!(!ro.is_exported);

        // set -a
        env.options.set(AllExport, On);

        // ro=2: what every assigner does
        let mut ro = env.get_or_create_variable("ro", Scope::Global);
        let result = ro.assign("2", None);
        assert!(result.is_err(), "assignment to a read-only variable: {result:?}");

        // The failed assignment has changed nothing.
        let ro = env.variables.get("ro").unwrap();
        assert_eq!(ro.value, Some(Value::scalar("1")));
        assert!(
            !ro.is_exported,
            "read-only variable was exported although nothing was assigned to it"
        );
        assert!(
            !env.variables
                .env_c_strings()
                .iter()
                .any(|s| s.to_bytes().starts_with(b"ro=")),
            "read-only variable leaked into the environment of child programs"
        );
    }
