// Demonstration for the C04 finding "a single non-ASCII collating symbol counts as multi-character".
// New file yash-fnmatch/tests/verif_nonascii_collating_symbol.rs; run with
//   cargo test --offline -p yash-fnmatch --test verif_nonascii_collating_symbol
// Before the fix `[![.é.]a]` matches "é" (the symbol is dropped from the complemented set because its
// BYTE length is 2) and `[![.é.]]` does not compile; both behave like `[!éa]` / `[!é]` after it.
use yash_fnmatch::{Config, Pattern, without_escape};

fn anchored(p: &str) -> Pattern {
    let mut config = Config::default();
    config.anchor_begin = true;
    config.anchor_end = true;
    Pattern::parse_with_config(without_escape(p), config).unwrap_or_else(|e| panic!("{p:?}: {e:?}"))
}

#[test]
fn single_non_ascii_collating_symbol_is_one_character() {
    for (sym, plain) in [("[![.é.]a]", "[!éa]"), ("[![=é=]a]", "[!éa]"), ("[![.é.]]", "[!é]"), ("[[.é.]a]", "[éa]")] {
        let (p1, p2) = (anchored(sym), anchored(plain));
        for s in ["é", "a", "b", "e", "éa", ""] {
            assert_eq!(p1.is_match(s), p2.is_match(s), "{sym} vs {plain} on {s:?}");
        }
    }
}
