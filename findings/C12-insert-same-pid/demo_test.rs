// new file yash-env/tests/job_list_insert_same_pid.rs -- run: CARGO_NET_OFFLINE=true cargo test --offline -p yash-env --test job_list_insert_same_pid
//
// `JobList::insert` documents that inserting a job whose process ID is already
// in the list silently removes the existing job. The replacement, however,
// keeps the slot of the old job *and* its role as current/previous job, and
// then runs the "new job" reselection logic on top of that. As a result the
// list can end up with two jobs but no previous job, or with a non-suspended
// current job although suspended jobs exist.

use yash_env::job::{Job, JobList, Pid, ProcessState};
use yash_env::system::r#virtual::SIGTSTP;

fn job(pid: i32, state: ProcessState) -> Job {
    let mut job = Job::new(Pid(pid));
    job.job_controlled = true;
    job.state = state;
    job
}

/// Checks the invariants documented on `JobList::current_job` and
/// `JobList::previous_job`.
fn assert_consistent(list: &JobList) {
    let suspended: Vec<usize> = list
        .iter()
        .filter(|(_, job)| job.state.is_stopped())
        .map(|(index, _)| index)
        .collect();
    let current = list.current_job();
    let previous = list.previous_job();
    if !list.is_empty() {
        assert!(current.is_some(), "non-empty list must have a current job");
    }
    if list.len() >= 2 {
        assert!(previous.is_some(), "two or more jobs but no previous job");
        assert_ne!(previous, current);
    }
    if !suspended.is_empty() {
        assert!(
            suspended.contains(&current.unwrap()),
            "suspended jobs {suspended:?} exist but current job {current:?} is not suspended"
        );
    }
    if suspended.len() >= 2 {
        assert!(
            suspended.contains(&previous.unwrap()),
            "suspended jobs {suspended:?} exist but previous job {previous:?} is not suspended"
        );
    }
}

/// The history a shell goes through when a process ID is reused:
///
/// 1. Background job `[1]` (pid 100) finishes. `Env::update_all_subshell_statuses`
///    reaps it, so the kernel may reuse pid 100, but the job stays in the list
///    until `jobs` or `wait` retrieves it (see docs/src/interactive/job_control.md).
/// 2. Another background job `[2]` (pid 200) is running.
/// 3. A foreground command happens to get pid 100 and is suspended with Ctrl-Z.
///    `Env::wait_for_subshell` passes the new state to `update_status` and then
///    `handle_job_status` inserts the suspended job.
#[test]
fn previous_job_survives_reinsertion_of_suspended_current_job() {
    let mut list = JobList::new();
    list.insert(job(100, ProcessState::exited(0)));
    let i200 = list.insert(job(200, ProcessState::Running));
    assert_consistent(&list);

    // Env::wait_for_subshell
    list.update_status(Pid(100), ProcessState::stopped(SIGTSTP));
    assert_consistent(&list);
    // handle_job_status
    let i100_new = list.insert(job(100, ProcessState::stopped(SIGTSTP)));

    assert_eq!(list.len(), 2);
    assert_eq!(list.current_job(), Some(i100_new));
    // `%-` must designate the other job: there are two jobs in the list.
    assert_eq!(list.previous_job(), Some(i200));
    assert_consistent(&list);
}

/// Minimal form of the above: inserting the suspended current job again.
#[test]
fn inserting_suspended_current_job_again_keeps_previous_job() {
    let mut list = JobList::new();
    let running = list.insert(job(10, ProcessState::Running));
    let suspended = list.insert(job(20, ProcessState::stopped(SIGTSTP)));
    assert_eq!(list.current_job(), Some(suspended));
    assert_eq!(list.previous_job(), Some(running));

    list.insert(job(20, ProcessState::stopped(SIGTSTP)));

    assert_eq!(list.current_job(), Some(suspended));
    assert_eq!(list.previous_job(), Some(running));
    assert_consistent(&list);
}

/// The existing job is "silently removed", so if it was the suspended current
/// job and its replacement is not suspended, another suspended job must take
/// over as the current job (exactly as `JobList::remove` would have done).
#[test]
fn replacing_suspended_current_job_with_running_job_reselects_current_job() {
    let mut list = JobList::new();
    let i10 = list.insert(job(10, ProcessState::stopped(SIGTSTP)));
    let i20 = list.insert(job(20, ProcessState::stopped(SIGTSTP)));
    list.set_current_job(i20).unwrap();
    assert_eq!(list.current_job(), Some(i20));
    assert_eq!(list.previous_job(), Some(i10));

    list.insert(job(20, ProcessState::Running));

    // Job 10 is the only suspended job now, so `%+` must designate it.
    assert_eq!(list.current_job(), Some(i10));
    assert_consistent(&list);
}
