
    #[test]
    fn pre_sigchld_stays_blocked_after_first_uncontrolled_async_subshell() {
        in_virtual_system(|mut parent_env, state| async move {
            let (child_pid, _) = Config {
                job_control: Some(JobControl::Background),
                ignores_sigint_sigquit: true,
            }
            .start(
                &mut parent_env,
                async |_env: &mut Env<Rc<Concurrent<VirtualSystem>>>, _job_control| {},
            )
            .await
            .unwrap();
            {
                let state = state.borrow();
                let parent = &state.processes[&parent_env.main_pid];
                assert_eq!(parent.disposition(SIGCHLD), Disposition::Catch);
                // A caught signal must stay blocked outside `select`.
                assert_eq!(parent.blocked_signals().contains(SIGCHLD), Ok(true));
            }
            parent_env.wait_for_subshell(child_pid).await.unwrap();
        })
    }

    #[test]
    fn pre_sigchld_stays_blocked_after_second_uncontrolled_async_subshell() {
        in_virtual_system(|mut parent_env, state| async move {
            // SIGCHLD internal disposition installed beforehand (outside the block window)
            parent_env
                .traps
                .enable_internal_disposition_for_sigchld(&parent_env.system)
                .await
                .unwrap();
            let (child_pid, _) = Config {
                job_control: Some(JobControl::Background),
                ignores_sigint_sigquit: true,
            }
            .start(
                &mut parent_env,
                async |_env: &mut Env<Rc<Concurrent<VirtualSystem>>>, _job_control| {},
            )
            .await
            .unwrap();
            {
                let state = state.borrow();
                let parent = &state.processes[&parent_env.main_pid];
                assert_eq!(parent.blocked_signals().contains(SIGCHLD), Ok(true));
            }
            parent_env.wait_for_subshell(child_pid).await.unwrap();
        })
    }

    #[test]
    fn pre_sigint_kills_shell_waiting_for_first_uncontrolled_async_subshell() {
        use crate::job::ProcessResult;
        use crate::system::{GetPid as _, SendSignal as _};
        use std::future::pending;

        let system = VirtualSystem::new();
        let state = Rc::clone(&system.state);
        let executor = yash_executor::Executor::new();
        state.borrow_mut().executor = Some(Rc::new(executor.spawner()));
        let mut env = Env::with_system(Rc::new(Concurrent::new(system)));
        let concurrent = Rc::clone(&env.system);
        let shell_pid = env.main_pid;

        // `{ kill -s INT $$; sleep infinity; } & wait` as the first commands of a script
        let task = async move {
            let (child_pid, _) = Config {
                job_control: Some(JobControl::Background),
                ignores_sigint_sigquit: true,
            }
            .start(
                &mut env,
                async |env: &mut Env<Rc<Concurrent<VirtualSystem>>>, _| {
                    let ppid = env.system.getppid();
                    env.system.kill(ppid, Some(SIGINT)).await.unwrap();
                    pending().await
                },
            )
            .await
            .unwrap();
            env.wait_for_subshell(child_pid).await.unwrap();
        };
        unsafe {
            executor.spawn_pinned(Box::pin(
                async move { concurrent.run_virtual(task).await },
            ))
        };
        executor.run_until_stalled();

        let state = state.borrow();
        let shell = &state.processes[&shell_pid];
        assert_eq!(shell.disposition(SIGINT), Disposition::Default);
        assert_eq!(
            shell.state(),
            ProcessState::Halted(ProcessResult::Signaled {
                signal: SIGINT,
                core_dump: false
            }),
            "pending: {:?}, blocked: {:?}",
            shell.pending_signals(),
            shell.blocked_signals(),
        );
    }
