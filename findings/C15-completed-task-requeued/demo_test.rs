// new file yash-executor/tests/woken_after_completion.rs ; run: CARGO_NET_OFFLINE=true cargo test --offline -p yash-executor --test woken_after_completion
//
// A task that has been woken by a stale waker after (or during) its final poll
// must not be run/reported again: `step` must not report it as a task that
// completed in that step, `run_until_stalled` must count each task's completion
// once, and `wake_count` must not count a finished task as runnable.

use std::cell::{Cell, RefCell};
use std::future::poll_fn;
use std::rc::Rc;
use std::task::{Poll, Waker};
use yash_executor::Executor;

/// The task wakes itself in the very poll in which it completes.
#[test]
fn self_wake_in_final_poll_is_not_counted_as_second_completion() {
    let executor = Executor::new();
    unsafe {
        executor.spawn_pinned(Box::pin(poll_fn(|cx| {
            cx.waker().wake_by_ref();
            Poll::Ready(())
        })));
    }
    // Exactly one task exists and it completes exactly once.
    assert_eq!(executor.run_until_stalled(), 1);
    assert_eq!(executor.wake_count(), 0);
}

/// A waker that was handed out while the task was pending is fired after the
/// task has completed (typical for a task that waited on two event sources).
#[test]
fn stale_waker_fired_after_completion_does_not_requeue_finished_task() {
    let executor = Executor::new();
    let stale: Rc<RefCell<Option<Waker>>> = Rc::new(RefCell::new(None));
    let stale2 = Rc::clone(&stale);
    let polls = Rc::new(Cell::new(0));
    let polls2 = Rc::clone(&polls);
    unsafe {
        executor.spawn_pinned(Box::pin(poll_fn(move |cx| {
            polls2.set(polls2.get() + 1);
            if polls2.get() == 1 {
                // register with two event sources
                *stale2.borrow_mut() = Some(cx.waker().clone());
                cx.waker().wake_by_ref();
                Poll::Pending
            } else {
                Poll::Ready(())
            }
        })));
    }
    assert_eq!(executor.run_until_stalled(), 1);
    assert_eq!(polls.get(), 2);

    // The second event source fires late.
    stale.borrow_mut().take().unwrap().wake();

    // Nothing is runnable: the only task has already finished.
    assert_eq!(executor.wake_count(), 0);
    assert_eq!(executor.step(), None);
    assert_eq!(executor.run_until_stalled(), 0);
    assert_eq!(polls.get(), 2);
}
