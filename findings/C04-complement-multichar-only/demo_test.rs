// Append inside `mod tests` (the last item) of yash-fnmatch/src/ast/regex.rs, then run:
//   CARGO_NET_OFFLINE=true cargo test --offline -p yash-fnmatch --lib regex::tests::complemented_bracket_with_only_multi_character
// A collating symbol (or equivalence class) of more than one character, like [.ch.], stands for that
// whole string, so in a complemented bracket expression it excludes no single character; such items are
// left out of the `[^...]` the bracket expression is converted to. Before 51af144, when *all* items
// were of that kind, what was left was `[^]`, which the regex crate rejects ("unclosed character
// class"): the conversion produced an invalid regular expression and Pattern::parse failed for the
// whole pattern, so e.g. `case x in [![.ch.]]) ...` could never match.
    #[test]
    fn complemented_bracket_with_only_multi_character_items_is_valid_regex() {
        let bracket = Bracket {
            complement: true,
            items: vec![BracketItem::Atom(BracketAtom::CollatingSymbol(
                "ch".to_string(),
            ))],
        };
        let ast = Ast {
            atoms: vec![Atom::Bracket(bracket)],
        };
        let regex = ast.to_regex(&Config::default()).unwrap();
        assert_ne!(regex, "[^]");
        let compiled = ::regex::Regex::new(&regex);
        assert!(compiled.is_ok(), "{regex:?} is not a valid regex: {compiled:?}");
    }

    #[test]
    fn complemented_bracket_with_only_multi_character_items_matches_any_character() {
        use crate::{Pattern, without_escape};

        // whole-string match, as in `case`
        let mut config = Config::default();
        config.anchor_begin = true;
        config.anchor_end = true;

        // [![.ch.]]
        let pattern = Pattern::parse_with_config(without_escape("[![.ch.]]"), config);
        let pattern = pattern.expect("[![.ch.]] is a valid pattern");
        assert!(pattern.is_match("x"));
        assert!(pattern.is_match("c"));
        assert!(!pattern.is_match(""));
        assert!(!pattern.is_match("xy"));

        // a[![=ch=][.ll.]]b
        let pattern = Pattern::parse_with_config(without_escape("a[![=ch=][.ll.]]b"), config);
        let pattern = pattern.expect("a[![=ch=][.ll.]]b is a valid pattern");
        assert!(pattern.is_match("axb"));
        assert!(!pattern.is_match("ab"));
    }
