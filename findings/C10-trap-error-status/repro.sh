trap "echo EXIT \$?" EXIT
trap "echo \${y?}; echo more" USR1
kill -USR1 $$
echo survived
