#!/bin/sh
# usage: LANG=C sh demo.sh /path/to/target/debug/yash3
# (build with: CARGO_NET_OFFLINE=true cargo build --offline -p yash-cli)
# Passes (exit 0) iff a shell error inside a signal trap action aborts the
# non-interactive shell with the error's non-zero exit status.
sh=${1:-target/debug/yash3}
fail=0
check() { # $1 = script, $2 = expected stdout
    out=$("$sh" -c "$1" 2>/dev/null)
    st=$?
    if [ "$out" != "$2" ] || [ "$st" -eq 0 ]; then
        echo "FAIL: $1 -> stdout=[$(echo $out)] status=$st (expected stdout=[$2], status!=0)"
        fail=1
    else
        echo "ok:   $1 -> status=$st"
    fi
}
check 'trap "echo EXIT \$?" EXIT; trap "echo \${y?}; echo more" USR1; kill -USR1 $$; echo survived' 'EXIT 2'
check 'trap "echo EXIT \$?" EXIT; trap "fi" USR1; kill -USR1 $$; echo survived' 'EXIT 2'
check 'trap "echo EXIT \$?" EXIT; trap "echo \$((1/0))" USR1; kill -USR1 $$; echo survived' 'EXIT 2'
exit $fail
