// append inside `mod tests` of yash-semantics/src/trap/signal.rs
// run: CARGO_NET_OFFLINE=true cargo test --offline -p yash-semantics --lib shell_error_in_trap_action
//
// A shell error (expansion error, syntax error) that interrupts a trap action
// aborts a non-interactive shell. The exit status must then be the error's
// exit status, not the stale `$?` that happened to be current when the trap
// was entered (typically 0, which makes the aborted script "succeed").

    fn run_usr1_trap_and_apply(action: &str, previous: ExitStatus) -> (Result, ExitStatus) {
        let (mut env, system) = env_with_echo();
        env.traps
            .set_action(
                &env.system,
                SIGUSR1,
                Action::Command(action.into()),
                Location::dummy(""),
                false,
            )
            .now_or_never()
            .unwrap()
            .unwrap();
        raise_signal(&system, SIGUSR1);
        env.exit_status = previous;
        let result = run_traps_for_caught_signals(&mut env)
            .now_or_never()
            .unwrap();
        // What every caller (top-level shell, subshell, ...) does on abort:
        env.apply_result(result);
        (result, env.exit_status)
    }

    #[test]
    fn shell_error_in_trap_action_expansion_error_keeps_error_exit_status() {
        let (result, final_exit_status) =
            run_usr1_trap_and_apply("echo ${x?}; echo not reached", ExitStatus::SUCCESS);
        assert_matches!(result, Break(Divert::Interrupt(_)));
        assert_eq!(final_exit_status, ExitStatus::ERROR);

        let (result, final_exit_status) =
            run_usr1_trap_and_apply("echo ${x?}; echo not reached", ExitStatus(42));
        assert_matches!(result, Break(Divert::Interrupt(_)));
        assert_eq!(final_exit_status, ExitStatus::ERROR);
    }

    #[test]
    fn shell_error_in_trap_action_syntax_error_keeps_error_exit_status() {
        let (result, final_exit_status) = run_usr1_trap_and_apply("fi", ExitStatus::SUCCESS);
        assert_matches!(result, Break(Divert::Interrupt(_)));
        assert_eq!(final_exit_status, ExitStatus::ERROR);
    }
