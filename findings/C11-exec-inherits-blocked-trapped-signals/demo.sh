# Run with: target/debug/yash3 demo.sh      (Linux: uses /proc/self/status; needs sleep, grep)
#
# A process that has set a trap command for a signal and then replaces itself
# with `exec utility` passes a signal mask to the utility in which that signal
# is BLOCKED: the shell keeps every caught signal blocked outside its select
# call, and replace_current_process (yash-env/src/semantics/command.rs) only
# undoes the shell's *internal* dispositions before execve, not the blocking
# that comes with the user's traps.
#
# Expected output (dash and bash agree, apart from the status convention
# 128+10=138 instead of yash's 384+10=394 for "killed by SIGUSR1"):
#   SigBlk:	0000000000000000
#   wait status=394        (printed after about 0.5 s)
# Observed with the unmodified yash3:
#   SigBlk:	0000000000000200        (bit 9 = signal 10 = SIGUSR1 is blocked)
#   wait status=0          (printed after 3 s: the child could not be killed)

# 1. the signal mask seen by the executed utility
(trap 'echo trapped' USR1; exec grep SigBlk /proc/self/status)

# 2. consequence for a child that the shell starts, signals and waits for
{ trap 'echo trapped' USR1; exec sleep 3; } & p=$!
sleep 0.5
kill -USR1 $p
wait $p
echo "wait status=$?"
