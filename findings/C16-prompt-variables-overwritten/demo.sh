#!/bin/sh
# usage: sh demo.sh /path/to/target/debug/yash3
# PS1, PS2 and PS4 inherited from the environment must keep their values; the built-in values are
# only defaults. Fails before 4fe2991, passes from 4fe2991 on.
yash=$(command -v "${1:-target/debug/yash3}") || { echo "usage: sh demo.sh <path to yash3>"; exit 2; }
case $yash in /*) ;; *) yash=$PWD/$yash;; esac

out=$(
echo "xtrace with PS4='my> ': $(PS4='my> ' "$yash" -xc ': x' 2>&1)"
PS1='one ' PS2='two ' PS4='four ' "$yash" -c 'echo "in the shell: PS1=[$PS1] PS2=[$PS2] PS4=[$PS4]"; echo "passed on to env(1): $(env | grep "^PS[124]=" | sort | tr "\n" ";")"'
# control: without them in the environment the defaults are assigned (and not exported)
env -u PS1 -u PS2 -u PS4 "$yash" -c 'echo "control, defaults: PS1=[$PS1] PS2=[$PS2] PS4=[$PS4] exported=[$(env | grep "^PS[124]=")]"'
)
expected="xtrace with PS4='my> ': my> : x
in the shell: PS1=[one ] PS2=[two ] PS4=[four ]
passed on to env(1): PS1=one ;PS2=two ;PS4=four ;
control, defaults: PS1=[\$ ] PS2=[> ] PS4=[+ ] exported=[]"
printf '%s\n' "$out"
if [ "$out" = "$expected" ]; then echo PASS; exit 0; else echo "FAIL: prompt variables from the environment were overwritten"; exit 1; fi
