    // Append to the `mod tests` block at the end of
    // yash-syntax/src/parser/lex/backquote.rs

    #[test]
    fn lexer_backquote_escaped_backslash_before_newline() {
        // `\\<newline>` is an escaped backslash followed by a newline. The
        // second backslash must not pair with the newline to make a line
        // continuation. (Compare
        // `lexer_text_unit_backslash_line_continuation_not_recognized` in
        // text.rs, which tests the same thing outside backquotes.)
        let mut lexer = Lexer::with_code("`a\\\\\nb`");
        let mut lexer = WordLexer {
            lexer: &mut lexer,
            context: WordContext::Word,
        };
        let result = lexer.backquote().now_or_never().unwrap().unwrap().unwrap();
        assert_matches!(result, TextUnit::Backquote { content, .. } => {
            assert_eq!(
                content,
                [
                    BackquoteUnit::Literal('a'),
                    BackquoteUnit::Backslashed('\\'),
                    BackquoteUnit::Literal('\n'),
                    BackquoteUnit::Literal('b'),
                ]
            );
        });
    }

    #[test]
    fn backquote_print_and_reparse_round_trip() {
        use crate::syntax::Word;
        fn content_of(word: &Word) -> Vec<BackquoteUnit> {
            assert_matches!(&word.units[..],
                [crate::syntax::WordUnit::Unquoted(TextUnit::Backquote { content, .. })] => {
                    content.clone()
                }
            )
        }

        // backquote, 3 backslashes, 2 newlines, X, backquote
        let word: Word = "`\\\\\\\n\nX`".parse().unwrap();
        let printed = word.to_string();
        let reparsed: Word = printed
            .parse()
            .unwrap_or_else(|e| panic!("{printed:?} does not parse: {e:?}"));
        assert_eq!(content_of(&reparsed), content_of(&word), "printed as {printed:?}");
    }
