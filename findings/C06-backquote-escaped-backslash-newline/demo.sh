# Run with: target/debug/yash3 demo.sh   (compare: dash demo.sh, bash demo.sh)
#
# In a backquoted command substitution, `\\` is an escaped backslash. When it
# is followed by a newline, the command that is substituted contains
# <backslash><newline>, i.e. a line continuation that is removed when that
# command is parsed.
#
# Expected output (dash, bash, POSIX XCU 2.6.3 and 2.2.1):
#   a b
#   xa
# Observed with yash3:
#   aecho b
#   x\a

# The inner command is "echo a\<newline><newline>echo b", that is, two commands
# "echo a" and "echo b".
echo `echo a\\

echo b`

# The inner command is: echo "x\<newline>a" -> the line continuation inside the
# double quotes is removed -> xa
echo `echo "x\\
a"`
