// Append inside `mod tests` (the last item) of yash-builtin/src/umask/syntax.rs, then run:
//   CARGO_NET_OFFLINE=true cargo test --offline -p yash-builtin --lib umask::syntax::tests::documented_long_option
// docs/src/builtins/umask.md documents `--symbolic` as the long form of `-S`, and
// docs/src/builtins/unalias.md documents `--all` as the long form of `-a`. Both long options must be
// accepted and mean the same as the short ones. Before e9d7145 the option specs had no long names, so
// both were rejected with ParseError::UnknownLongOption.
    #[test]
    fn documented_long_option_symbolic_of_umask() {
        let env = Env::new_virtual();
        let short = parse(&env, Field::dummies(["-S"]));
        assert_eq!(short, Ok(Command::Show { symbolic: true }));
        let long = parse(&env, Field::dummies(["--symbolic"]));
        assert_eq!(long, Ok(Command::Show { symbolic: true }));
    }

    #[test]
    fn documented_long_option_all_of_unalias() {
        use crate::unalias::Command;
        use crate::unalias::syntax::parse;
        let env = Env::new_virtual();
        let short = parse(&env, Field::dummies(["-a"]));
        assert_eq!(short, Ok(Command::RemoveAll));
        let long = parse(&env, Field::dummies(["--all"]));
        assert_eq!(long, Ok(Command::RemoveAll));
    }
