// Append inside `mod tests` of yash-env/src/system/virtual.rs, then run:
//   cargo test --offline -p yash-env --lib open_create_in_missing_directory
// open(2) with O_CREAT creates the file only; when the parent directory does not exist it fails with
// ENOENT, and when a component of the path is a regular file it fails with ENOTDIR. The simulated
// kernel creates the missing directories (FileSystem::save), and even turns the regular file into a directory.
// This test FAILS on the current tree (a recorded known finding, see README.md).
    #[test]
    fn open_create_in_missing_directory() {
        let system = VirtualSystem::new();
        let result = system
            .open(c"/nodir/file", OfdAccess::WriteOnly, OpenFlag::Create.into(), Mode::empty())
            .now_or_never()
            .unwrap();
        assert_eq!(result, Err(Errno::ENOENT));
    }
