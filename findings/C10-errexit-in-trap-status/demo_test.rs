// append inside `mod tests` of yash-semantics/src/trap/signal.rs
// run: CARGO_NET_OFFLINE=true cargo test --offline -p yash-semantics --lib errexit_in_trap_action
//
// With errexit on, a command failing inside a trap action makes the shell
// exit. The exit status of the shell must be that of the failing command,
// not the `$?` that was current before the trap action started (typically 0).

    #[test]
    fn errexit_in_trap_action_exits_with_exit_status_of_failing_command() {
        use crate::tests::return_builtin;
        use yash_env::option::Option::ErrExit;

        let (mut env, system) = env_with_echo();
        env.builtins.insert("return", return_builtin());
        env.options.set(ErrExit, On);
        env.traps
            .set_action(
                &env.system,
                SIGUSR1,
                Action::Command("return -n 7; echo not reached".into()),
                Location::dummy(""),
                false,
            )
            .now_or_never()
            .unwrap()
            .unwrap();
        raise_signal(&system, SIGUSR1);
        env.exit_status = ExitStatus::SUCCESS;

        let result = run_traps_for_caught_signals(&mut env)
            .now_or_never()
            .unwrap();
        assert_matches!(result, Break(Divert::Exit(_)));
        assert_stdout(&system.state, |stdout| assert_eq!(stdout, ""));

        // What every caller (top-level shell, subshell, ...) does on exit:
        env.apply_result(result);
        assert_eq!(env.exit_status, ExitStatus(7));
    }
