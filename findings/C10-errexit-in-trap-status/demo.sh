#!/bin/sh
# usage: LANG=C sh demo.sh /path/to/target/debug/yash3
# (build with: CARGO_NET_OFFLINE=true cargo build --offline -p yash-cli)
# Passes (exit 0) iff, under errexit, a command failing inside a trap action
# makes the shell exit with the exit status of the failing command.
sh=${1:-target/debug/yash3}
fail=0
check() { # $1 = script, $2 = expected stdout, $3 = expected exit status
    out=$("$sh" -c "$1" 2>/dev/null)
    st=$?
    if [ "$out" != "$2" ] || [ "$st" -ne "$3" ]; then
        echo "FAIL: $1 -> stdout=[$(echo $out)] status=$st (expected stdout=[$2], status=$3)"
        fail=1
    else
        echo "ok:   $1 -> status=$st"
    fi
}
check 'set -e; trap "(exit 7); echo more" USR1; kill -USR1 $$; echo survived' '' 7
check 'set -e; trap "echo EXIT \$?" EXIT; trap "false; echo more" USR1; kill -USR1 $$; echo survived' 'EXIT 1' 1
# errexit failure in the EXIT trap itself (shell is exiting anyway, but must not report success)
check 'set -e; trap "false; echo more" EXIT; true' '' 1
# unchanged behaviour that must be preserved: `exit` without operand in a trap uses the pre-trap $?
check 'set -e; trap "echo trapped; exit" USR1; kill -USR1 $$; echo survived' 'trapped' 0
exit $fail
