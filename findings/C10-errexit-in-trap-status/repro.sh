set -e
trap "(exit 7); echo more" USR1
kill -USR1 $$
echo survived
