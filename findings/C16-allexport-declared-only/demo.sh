#!/bin/sh
# usage: sh demo.sh /path/to/target/debug/yash3
# With allexport (set -a) a variable is exported when it is ASSIGNED; `readonly x`, `typeset -g w`
# (operands without a value) assign nothing and must not export the variable.
# Fails before 1860a4a, passes from 1860a4a on.
yash=$(command -v "${1:-target/debug/yash3}") || { echo "usage: sh demo.sh <path to yash3>"; exit 2; }
case $yash in /*) ;; *) yash=$PWD/$yash;; esac

out=$(env -u x -u y -u z -u w "$yash" -c '
x=1; w=1
set -a
readonly x          # no value: nothing is assigned
typeset -g w        # no value: nothing is assigned
y=2                 # control: assigned under allexport -> exported
readonly z=3        # control: an operand with a value is an assignment -> exported
sh -c "echo \"readonly x   -> child sees x=\${x-<not exported>}\""
sh -c "echo \"typeset -g w -> child sees w=\${w-<not exported>}\""
sh -c "echo \"y=2          -> child sees y=\${y-<not exported>}\""
sh -c "echo \"readonly z=3 -> child sees z=\${z-<not exported>}\""
' 2>&1)
expected='readonly x   -> child sees x=<not exported>
typeset -g w -> child sees w=<not exported>
y=2          -> child sees y=2
readonly z=3 -> child sees z=3'
printf '%s\n' "$out"
if [ "$out" = "$expected" ]; then echo PASS; exit 0; else echo "FAIL: a variable that was only declared was exported"; exit 1; fi
