    // Append to the end of `mod tests` in yash-builtin/src/source/semantics.rs.

    /// The future returned by `Command::execute` is dropped while the script is
    /// being executed, as `execute_builtin` (yash-semantics) does with the
    /// future of a built-in interrupted by SIGINT in an interactive shell
    /// (e.g. `command . ./script` + Ctrl-C). The FD of the script file (FD 10)
    /// stays open in the shell process.
    #[test]
    fn c09_fd_is_closed_when_execution_is_cancelled() {
        let system = system_with_file("/foo/file", "");
        let mut env = Env::with_system(Rc::new(Concurrent::new(system.clone())));
        env.any
            .insert(Box::new(RunReadEvalLoop::<Rc<Concurrent<VirtualSystem>>>(
                // A script that never finishes (e.g. waiting for a child)
                |_env, _lexer| Box::pin(std::future::pending()),
            )));
        let command = Command {
            file: Field::dummy("/foo/file"),
            params: vec![],
        };

        {
            let mut future = std::pin::pin!(command.execute(&mut env));
            assert!(future.as_mut().now_or_never().is_none());
            // The future is dropped here.
        }

        let process = system.current_process();
        for fd in 3..50 {
            assert_matches!(process.get_fd(Fd(fd)), None, "fd={fd}");
        }
    }
