#!/bin/sh
# Demo for the built binary. Usage: LANG=C sh demo.sh [path/to/yash3]
# (build with `cargo build --offline -p yash-cli`; default binary: target/debug/yash3)
#
# An interactive shell runs `command eval 'x=$(sleep 3)'` and receives SIGINT
# while the command substitution is waiting for its output. The `command`
# built-in is cancelled (its future is dropped). Afterwards an external
# utility started by the shell must see only FDs 0, 1 and 2.
# Exits 0 if so (expected), 1 if the pipe of the command substitution leaked.
yash=${1:-target/debug/yash3}
out=$(
  {
    echo '(sleep 1; kill -INT $$) &'
    echo 'command eval "x=\$(sleep 3)"'
    # sh -c: the child lists its own FDs 3..9 that are open
    echo '/bin/sh -c '\''for fd in 3 4 5 6 7 8 9; do [ -e /proc/$$/fd/$fd ] && printf "inherited=%s " "$(readlink /proc/$$/fd/$fd)"; done; echo RESULT=done'\'
  } | LANG=C HOME=/nonexistent "$yash" -i 2>/dev/null
)
case $out in
  *inherited=pipe*) echo "FAIL: later command inherited a leaked descriptor: $out"; exit 1 ;;
  *RESULT=done*) echo "PASS: no extra descriptor inherited"; exit 0 ;;
  *) echo "inconclusive: $out"; exit 2 ;;
esac
