// Append inside `mod tests` of yash-semantics/src/expansion/initial/command_subst.rs, then run:
//   CARGO_NET_OFFLINE=true cargo test --offline -p yash-semantics --lib expansion::initial::command_subst::tests::pipe_is_closed_when_command_substitution_is_cancelled
//
// The shell cancels a running built-in by dropping its future when SIGINT is
// caught in an interactive shell (see `select` in
// command/simple_command/builtin.rs). A command substitution performed by a
// command nested in that built-in (e.g. `command eval 'x=$(sleep 9)'`) is then
// dropped while it is reading the output of the subshell. The reading end of
// the pipe (a low-numbered FD without close-on-exec) must not stay open in the
// shell, or every later command inherits it.
    #[test]
    fn pipe_is_closed_when_command_substitution_is_cancelled() {
        in_virtual_system(|mut env, state| async move {
            // A command that never finishes and never writes anything
            env.builtins.insert(
                "block",
                Builtin::new(yash_env::builtin::Type::Mandatory, |_env, _args| {
                    Box::pin(std::future::pending())
                }),
            );
            let pid = env.main_pid;
            let open_fds = || -> Vec<yash_env::io::Fd> {
                state.borrow().processes[&pid].fds().keys().copied().collect()
            };
            let fds_before = open_fds();

            {
                let mut env = Env::new(&mut env);
                let mut future = std::pin::pin!(expand(
                    "block".to_string(),
                    Location::dummy(""),
                    &mut env
                ));
                // The substitution is waiting for the output of the subshell...
                assert!(futures_util::poll!(future.as_mut()).is_pending());
                // ...and is cancelled here (the future is dropped).
            }

            // The descriptor table must be exactly what it was before.
            assert_eq!(open_fds(), fds_before);
        })
    }
