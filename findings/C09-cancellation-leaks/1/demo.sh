#!/bin/sh
# Demo for the built binary. Usage: LANG=C sh demo.sh [path/to/yash3]
# (build with `cargo build --offline -p yash-cli`; default binary: target/debug/yash3)
#
# An interactive shell runs `command eval 'true >"$(sleep 3)"'` and receives
# SIGINT while the redirection operand is still being expanded. The `command`
# built-in is cancelled (its future is dropped). Afterwards the shell must not
# hold the copy of stdout (FD 10) that the redirection made for restoring.
# Exits 0 if FD 10 is closed afterwards (expected), 1 if it leaked.
yash=${1:-target/debug/yash3}
out=$(
  {
    echo '(sleep 1; kill -INT $$) &'
    echo 'command eval "true >\"\$(sleep 3)\""'
    echo 'if [ -e /proc/$$/fd/10 ]; then echo RESULT=leaked; else echo RESULT=clean; fi'
  } | LANG=C HOME=/nonexistent "$yash" -i 2>/dev/null
)
case $out in
  *RESULT=clean*) echo "PASS: no saved descriptor left behind"; exit 0 ;;
  *RESULT=leaked*) echo "FAIL: FD 10 (saved copy of stdout) is still open after the cancelled command"; exit 1 ;;
  *) echo "inconclusive: $out"; exit 2 ;;
esac
