// Append inside `mod tests` of yash-semantics/src/redir.rs, then run:
//   CARGO_NET_OFFLINE=true cargo test --offline -p yash-semantics --lib redir::tests::saved_fd_is_released_when_perform_redir_is_cancelled
//
// The shell cancels a running built-in by dropping its future when SIGINT is
// caught in an interactive shell (see `select` in
// command/simple_command/builtin.rs). Any redirection that is being performed
// by a command nested in that built-in (e.g. `command eval 'echo >"$(sleep 9)"'`,
// or `command eval 'echo >fifo'`) is then dropped while `perform_redir` is
// suspended between "save the original FD at >= 10" and "record it in the
// RedirGuard". The saved copy must not outlive the RedirGuard.
    #[test]
    fn saved_fd_is_released_when_perform_redir_is_cancelled() {
        // A FIFO that has no reader: opening it for writing never completes.
        let inode = Inode {
            body: FileBody::Fifo {
                content: Default::default(),
                readers: 0,
                writers: 0,
                pending_open_wakers: WakerSet::new(),
                pending_read_wakers: WakerSet::new(),
                pending_write_wakers: WakerSet::new(),
            },
            permissions: Default::default(),
        };
        let (mut env, state) = env_with_nofile_limit();
        state
            .borrow_mut()
            .file_system
            .save("fifo", Rc::new(RefCell::new(inode)))
            .unwrap();
        let pid = env.main_pid;
        let open_fds = |state: &Rc<RefCell<SystemState>>| -> Vec<Fd> {
            state.borrow().processes[&pid].fds().keys().copied().collect()
        };
        let fds_before = open_fds(&state);

        {
            let mut redir_env = RedirGuard::new(&mut env);
            let redir: Redir = "> fifo".parse().unwrap();
            {
                let mut future = std::pin::pin!(redir_env.perform_redir(&redir, None));
                // The redirection blocks in open(2)...
                assert_eq!(future.as_mut().now_or_never(), None);
                // ...and is cancelled here (the future is dropped).
            }
            // The command is over: the guard is dropped, too.
        }

        // The descriptor table must be exactly what it was before.
        assert_eq!(open_fds(&state), fds_before);
    }
