    // Append to the end of `mod tests` in
    // yash-semantics/src/expansion/initial/command_subst.rs.

    fn c09_fds(
        state: &std::cell::RefCell<yash_env::system::r#virtual::SystemState>,
        pid: yash_env::job::Pid,
    ) -> Vec<Fd> {
        state.borrow().processes[&pid].fds().keys().copied().collect()
    }

    /// API level: the future returned by `expand` is dropped while the shell is
    /// reading the output of the command substitution. The reading end of the
    /// pipe (FD 3: below 10 and without the close-on-exec flag) stays open in
    /// the shell process.
    #[test]
    fn c09_dropping_expand_future_does_not_leak_pipe() {
        in_virtual_system(|mut env, state| async move {
            env.builtins.insert(
                "block",
                Builtin::new(yash_env::builtin::Type::Mandatory, |_env, _args| {
                    Box::pin(std::future::pending())
                }),
            );
            let pid = env.main_pid;
            let before = c09_fds(&state, pid);
            {
                let mut expansion_env = Env::new(&mut env);
                let future = expand("block".to_string(), Location::dummy(""), &mut expansion_env);
                let mut future = std::pin::pin!(future);
                assert!(futures_util::poll!(future.as_mut()).is_pending());
                // The future is dropped here, as `execute_builtin` does with the
                // future of a built-in interrupted by SIGINT.
            }
            assert_eq!(c09_fds(&state, pid), before);
        })
    }

    /// End to end: an interactive shell runs a built-in that executes a command
    /// (like `command eval ...` or `command . file`); the command is waiting
    /// for a command substitution when SIGINT arrives. After the interruption
    /// the FD table of the shell must be what it was before the command.
    #[test]
    fn c09_sigint_during_command_substitution_does_not_leak_pipe() {
        use crate::command::Command as _;
        use std::ops::ControlFlow::Break;
        use std::rc::Rc;
        use yash_env::VirtualSystem;
        use yash_env::builtin::Type::Mandatory;
        use yash_env::semantics::Divert;
        use yash_env::system::Concurrent;
        use yash_env::system::Signals as _;

        fn run_main(
            env: &mut yash_env::Env<Rc<Concurrent<VirtualSystem>>>,
            args: Vec<Field>,
        ) -> Pin<Box<dyn Future<Output = yash_env::builtin::Result> + '_>> {
            Box::pin(async move {
                let command: yash_syntax::syntax::SimpleCommand = args[0].value.parse().unwrap();
                let _ = command.execute(env).await;
                env.exit_status.into()
            })
        }

        in_virtual_system(|mut env, state| async move {
            let system = VirtualSystem {
                process_id: env.main_pid,
                state: Rc::clone(&state),
            };
            env.options.set(Interactive, On);
            env.traps
                .enable_internal_dispositions_for_terminators(&env.system)
                .await
                .unwrap();
            env.builtins.insert("echo", echo_builtin());
            env.builtins.insert("run", Builtin::new(Mandatory, run_main));
            env.builtins.insert(
                "block",
                Builtin::new(Mandatory, |_env, _args| Box::pin(std::future::pending())),
            );
            let pid = env.main_pid;
            let before = c09_fds(&state, pid);

            let command: yash_syntax::syntax::SimpleCommand =
                "run 'echo $(block)'".parse().unwrap();
            {
                let mut execute_fut = std::pin::pin!(command.execute(&mut env));
                assert!(futures_util::poll!(execute_fut.as_mut()).is_pending());
                system.raise(VirtualSystem::SIGINT).await.unwrap();
                let result = execute_fut.await;
                assert_eq!(
                    result,
                    Break(Divert::Interrupt(Some(ExitStatus::from(SIGINT))))
                );
            }

            assert_eq!(c09_fds(&state, pid), before);
        })
    }
