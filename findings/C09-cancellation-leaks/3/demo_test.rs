// Append inside `mod tests` of yash-builtin/src/source/semantics.rs, then run:
//   CARGO_NET_OFFLINE=true cargo test --offline -p yash-builtin --lib source::semantics::tests::fd_is_closed_when_execute_is_cancelled
//
// The shell cancels a running built-in by dropping its future when SIGINT is
// caught in an interactive shell (see `select` in
// yash-semantics/src/command/simple_command/builtin.rs). The `.` built-in
// itself is exempt (`handles_signals_internally`), but the `command` built-in
// is not, so `command . ./script` is cancelled that way while the script is
// running. The internal FD (>= 10) that `.` opened for reading the script must
// not stay open in the shell after that.
    #[test]
    fn fd_is_closed_when_execute_is_cancelled() {
        let system = system_with_file("/foo/file", "");
        let mut env = Env::with_system(Rc::new(Concurrent::new(system.clone())));
        // A script whose execution never finishes
        env.any
            .insert(Box::new(RunReadEvalLoop::<Rc<Concurrent<VirtualSystem>>>(
                |_env, _lexer| Box::pin(std::future::pending()),
            )));
        let command = Command {
            file: Field::dummy("/foo/file"),
            params: vec![],
        };

        {
            let mut future = std::pin::pin!(command.execute(&mut env));
            // The script is running...
            assert!(future.as_mut().now_or_never().is_none());
            // ...and is cancelled here (the future is dropped).
        }

        let process = system.current_process();
        for fd in 3..50 {
            assert_matches!(process.get_fd(Fd(fd)), None, "fd={fd}");
        }
    }
