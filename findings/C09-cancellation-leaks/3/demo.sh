#!/bin/sh
# Demo for the built binary. Usage: LANG=C sh demo.sh [path/to/yash3]
# (build with `cargo build --offline -p yash-cli`; default binary: target/debug/yash3)
#
# An interactive shell runs `command . ./slow.sh` (slow.sh: `sleep 3`) and
# receives SIGINT while the script is running. The `command` built-in is
# cancelled (its future is dropped). Afterwards the shell must not hold the
# internal descriptor (FD 10) that `.` opened to read the script.
# Exits 0 if FD 10 is closed afterwards (expected), 1 if it leaked.
yash=$(realpath "${1:-target/debug/yash3}")
dir=$(mktemp -d) || exit 2
trap 'rm -rf "$dir"' EXIT
cd "$dir" || exit 2
echo 'sleep 3' > slow.sh
out=$(
  {
    echo '(sleep 1; kill -INT $$) &'
    echo 'command . ./slow.sh'
    echo 'if [ -e /proc/$$/fd/10 ]; then echo RESULT=leaked $(readlink /proc/$$/fd/10); else echo RESULT=clean; fi'
  } | LANG=C HOME=/nonexistent "$yash" -i 2>/dev/null
)
case $out in
  *RESULT=clean*) echo "PASS: script descriptor closed"; exit 0 ;;
  *RESULT=leaked*) echo "FAIL: still open after the cancelled command: ${out##*RESULT=leaked }"; exit 1 ;;
  *) echo "inconclusive: $out"; exit 2 ;;
esac
