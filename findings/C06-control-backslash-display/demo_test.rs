// Demonstration for the C06 finding "the control-backslash escape does not survive printing".
// New file yash-syntax/tests/verif_control_escape_roundtrip.rs; run with
//   cargo test --offline -p yash-syntax --test verif_control_escape_roundtrip
// Before the fix `$'\c\\'` (the FS control character, 0x1C) is printed as `$'\c\'`, which
// does not parse back; after it the printed text re-parses to an equal word.
use std::str::FromStr;
use yash_syntax::syntax::Word;

#[test]
fn every_control_escape_survives_print_and_reparse() {
    for c in '\u{3F}'..'\u{60}' {
        let src = if c == '\\' { r"$'\c\\'".to_string() } else { format!("$'\\c{c}'") };
        let word = Word::from_str(&src).unwrap_or_else(|e| panic!("{src:?} does not parse: {e:?}"));
        let printed = word.to_string();
        let reparsed = Word::from_str(&printed)
            .unwrap_or_else(|e| panic!("{src:?} was printed as {printed:?}, which does not parse: {e:?}"));
        assert_eq!(reparsed.units, word.units, "{src:?} printed as {printed:?}");
    }
}
