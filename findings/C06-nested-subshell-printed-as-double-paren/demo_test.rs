    // Append to the `mod tests` block at the end of
    // yash-syntax/src/parser/grouping.rs

    #[test]
    fn printed_nested_subshell_is_accepted_in_portable_mode() {
        // `( (:))` is accepted in the portable mode (see
        // parser_subshell_spaced_open_parens_accepted_in_portable_mode) ...
        let mut lexer = Lexer::with_code("( (:); :)");
        lexer.set_mode(portable_mode());
        let mut parser = Parser::new(&mut lexer);
        let result = parser.compound_command().now_or_never().unwrap();
        let command = result.unwrap().unwrap();

        // ... so its printed form must be, too. The unmodified printer yields
        // "((:); :)", which the portable mode rejects as an arithmetic command
        // (and which bash, ksh and zsh do parse as an arithmetic command).
        let printed = command.to_string();
        let mut lexer = Lexer::with_code(&printed);
        lexer.set_mode(portable_mode());
        let mut parser = Parser::new(&mut lexer);
        let result = parser.compound_command().now_or_never().unwrap();
        let reparsed = result
            .unwrap_or_else(|e| panic!("{printed:?} is rejected: {:?}", e.cause))
            .unwrap();
        assert_eq!(reparsed.to_string(), printed);
    }
