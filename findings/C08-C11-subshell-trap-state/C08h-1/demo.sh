#!/bin/sh
# Usage: LANG=C sh demo.sh /path/to/target/debug/yash3   (Linux only: reads /proc/self/status)
# Prints the signal mask (SigBlk) seen by a command run in an asynchronous list.
# Expected (and what dash/bash give): SigBlk 0000000000000000 in both cases.
# Unmodified yash3: 0000000000000002 (SIGINT blocked) after `trap '' INT`,
#                   0000000000000004 (SIGQUIT blocked) in an interactive shell without job control.
yash=${1:-target/debug/yash3}
fail=0
out=$("$yash" -c 'trap "" INT; grep SigBlk /proc/self/status & wait')
echo "trap '' INT; cmd &   -> $out"
case $out in (*0000000000000000) ;; (*) fail=1;; esac
out=$("$yash" -i +m -c 'grep SigBlk /proc/self/status & wait' 2>/dev/null)
echo "yash -i +m; cmd &    -> $out"
case $out in (*0000000000000000) ;; (*) fail=1;; esac
exit $fail
