// append inside `mod tests` of yash-env/src/subshell/config.rs
// run: CARGO_NET_OFFLINE=true RUST_BACKTRACE=0 cargo test --offline -p yash-env --lib subshell::config::tests::sigint_sigquit_not_left_blocked_in_subshell_if_already_ignored
//
// An asynchronous list started while job control is off (`ignores_sigint_sigquit: true`)
// must run with the same signal mask as the parent shell. `Config::start` blocks SIGINT and
// SIGQUIT in the parent just before forking and relies on `TrapSet::enter_subshell` calling
// `set_disposition` in the child to unblock them again. When the parent has already ignored the
// signal (`trap '' INT`, or the internal SIGQUIT disposition of an interactive shell),
// `GrandState::enter_subshell` skips `set_disposition` because the disposition "does not change",
// so the subshell (and everything it execs) is left with the signal blocked.
    #[test]
    fn sigint_sigquit_not_left_blocked_in_subshell_if_already_ignored() {
        in_virtual_system(|mut parent_env, state| async move {
            // trap '' INT QUIT
            for signal in [SIGINT, SIGQUIT] {
                parent_env
                    .traps
                    .set_action(
                        &parent_env.system,
                        signal,
                        Action::Ignore,
                        Location::dummy(""),
                        false,
                    )
                    .await
                    .unwrap();
            }

            let state_2 = Rc::clone(&state);
            let blocked_in_child = Rc::new(Cell::new(None));
            let blocked_in_child_2 = Rc::clone(&blocked_in_child);
            let (child_pid, _) = Config {
                job_control: None,
                ignores_sigint_sigquit: true,
            }
            .start(
                &mut parent_env,
                async move |env: &mut Env<Rc<Concurrent<VirtualSystem>>>, _job_control| {
                    let state = state_2.borrow();
                    let process = &state.processes[&env.system.getpid()];
                    blocked_in_child_2.set(Some((
                        process.blocked_signals().contains(SIGINT),
                        process.blocked_signals().contains(SIGQUIT),
                    )));
                    drop(state);
                    env.exit_status = ExitStatus(123)
                },
            )
            .await
            .unwrap();
            let child_result = parent_env.wait_for_subshell(child_pid).await.unwrap();
            assert_eq!(child_result, (child_pid, ProcessState::exited(123)));

            // The parent's mask is restored...
            let state = state.borrow();
            let parent_process = &state.processes[&parent_env.main_pid];
            assert_eq!(parent_process.blocked_signals().contains(SIGINT), Ok(false));
            assert_eq!(
                parent_process.blocked_signals().contains(SIGQUIT),
                Ok(false)
            );
            // ...the signals are still ignored in the subshell...
            let child_process = &state.processes[&child_pid];
            assert_eq!(child_process.disposition(SIGINT), Disposition::Ignore);
            assert_eq!(child_process.disposition(SIGQUIT), Disposition::Ignore);
            // ...and the subshell must see the same (empty) signal mask as the parent.
            assert_eq!(
                blocked_in_child.get(),
                Some((Ok(false), Ok(false))),
                "(SIGINT, SIGQUIT) blocked in the subshell body"
            );
        })
    }
