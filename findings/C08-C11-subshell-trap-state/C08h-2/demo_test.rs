// append inside `mod tests` of yash-env/src/trap.rs
// run: CARGO_NET_OFFLINE=true RUST_BACKTRACE=0 cargo test --offline -p yash-env --lib trap::tests::trap_in_async_subshell_does_not_depend_on_parent_having_peeked_state
//
// On entering the subshell of an asynchronous list (ignore_sigint_sigquit = true), SIGINT and
// SIGQUIT are set to "ignore" by the shell itself. `GrandState::ignore` (used when the trap set
// has no entry for the signal yet) records that with `Origin::Subshell`, so that `trap ... INT`
// still works inside the subshell. If the parent merely *looked at* the trap (the `trap` built-in
// with no operands or `trap -p` calls `TrapSet::peek_state`, which inserts an entry with
// `Origin::Inherited`), `GrandState::enter_subshell` flips the action to `Ignore` but leaves
// `Origin::Inherited`, so the subshell believes the signal "has been ignored since startup" and
// refuses to trap it. A read-only operation in the parent must not change what the subshell sees.
    #[test]
    fn trap_in_async_subshell_does_not_depend_on_parent_having_peeked_state() {
        fn run(peek_first: bool) -> (Result<(), SetActionError>, Option<Origin>) {
            let system = DummySystem::default();
            let mut trap_set = TrapSet::default();
            if peek_first {
                // What `trap` (printing) does in the parent shell
                let state = trap_set.peek_state(&system, SIGINT).unwrap();
                assert_eq!(state.action, Action::Default);
            }
            // Entering the subshell of an asynchronous list without job control
            trap_set
                .enter_subshell(&system, true, false)
                .now_or_never()
                .unwrap();
            assert_eq!(system.0.borrow()[&SIGINT], Disposition::Ignore);
            let origin = trap_set.get_state(SIGINT).0.map(|s| s.origin.clone());
            // `trap 'echo INT' INT` in the (non-interactive) subshell
            let result = trap_set
                .set_action(
                    &system,
                    SIGINT,
                    Action::Command("echo INT".into()),
                    Location::dummy("trap"),
                    false,
                )
                .now_or_never()
                .unwrap();
            (result, origin)
        }

        let without_peek = run(false);
        assert_eq!(without_peek, (Ok(()), Some(Origin::Subshell)));
        let with_peek = run(true);
        assert_eq!(with_peek, without_peek);
    }
