#!/bin/sh
# Usage: LANG=C sh demo.sh /path/to/target/debug/yash3
# The asynchronous list sets a SIGINT trap and sends itself SIGINT. Whether the trap works must not
# depend on the parent shell having merely *printed* its traps before.
# Expected output: "caught" twice.  Unmodified yash3: "caught" only once (the second trap command
# is silently refused as "ignored since startup").
yash=${1:-target/debug/yash3}
out=$("$yash" -c '
{ trap "echo caught" INT; sh -c "kill -INT \$PPID"; echo done1; } & wait
trap   # print traps (prints nothing); must be a read-only operation
{ trap "echo caught" INT; sh -c "kill -INT \$PPID"; echo done2; } & wait
')
printf '%s\n' "$out"
[ "$out" = "caught
done1
caught
done2" ]
