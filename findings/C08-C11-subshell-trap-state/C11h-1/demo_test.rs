// Append inside `mod tests` of yash-env/src/trap.rs, then run:
//   CARGO_NET_OFFLINE=true RUST_BACKTRACE=0 cargo test --offline -p yash-env --lib trap::tests::trapping_sigint_in_async_subshell_after_peeking
//
// History: a non-interactive shell starts with SIGINT at the default disposition,
// looks at the trap (`trap` or `trap -p INT`, i.e. `peek_state`), and then enters an
// asynchronous subshell without job control (`ignore_sigint_sigquit == true`).
// The subshell must still be able to set a trap for SIGINT, exactly as it can when
// the trap had not been peeked before (see `GrandState::ignore` and the test
// `ignoring_initially_defaulted_signal` in yash-env/src/trap/state.rs).

    #[test]
    fn trapping_sigint_in_async_subshell_after_peeking() {
        // Reference path: no entry for SIGINT when the subshell is entered
        let system = DummySystem::default();
        let mut trap_set = TrapSet::default();
        trap_set
            .enter_subshell(&system, true, false)
            .now_or_never()
            .unwrap();
        let result = trap_set
            .set_action(
                &system,
                SIGINT,
                Action::Command("echo".into()),
                Location::dummy("trap"),
                false,
            )
            .now_or_never()
            .unwrap();
        assert_eq!(result, Ok(()), "without peeking");
        assert_eq!(system.0.borrow()[&SIGINT], Disposition::Catch);

        // Same history, but the state of SIGINT was peeked before the subshell
        let system = DummySystem::default();
        let mut trap_set = TrapSet::default();
        let state = trap_set.peek_state(&system, SIGINT).unwrap();
        assert_eq!(state.action, Action::Default);
        trap_set
            .enter_subshell(&system, true, false)
            .now_or_never()
            .unwrap();
        assert_eq!(system.0.borrow()[&SIGINT], Disposition::Ignore);
        // The signal was NOT ignored on entry to the shell, so the ignorance
        // must not be reported as inherited ...
        assert_ne!(
            trap_set.get_state(SIGINT).0.unwrap().origin,
            Origin::Inherited,
            "SIGINT was not ignored on entry to the shell"
        );
        // ... and the subshell must be able to trap it.
        let result = trap_set
            .set_action(
                &system,
                SIGINT,
                Action::Command("echo".into()),
                Location::dummy("trap"),
                false,
            )
            .now_or_never()
            .unwrap();
        assert_eq!(result, Ok(()), "after peeking");
        assert_eq!(system.0.borrow()[&SIGINT], Disposition::Catch);
    }
