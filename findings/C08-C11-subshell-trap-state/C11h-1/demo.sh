#!/bin/sh
# Run from the repository root after `cargo build --offline -p yash-cli`:
#   LANG=C sh /tmp/seed-out/C11h/1/demo.sh
# Exits 0 if the behaviour is correct, 1 if the defect is present.
export LANG=C
Y=${YASH:-target/debug/yash3}
script='
(trap "echo caught INT" INT; sh -c "kill -INT \$PPID"; echo sub done) &
wait
'
expected=$("$Y" -c "$script" 2>&1)             # no peek: prints "caught INT" / "sub done"
actual=$("$Y" -c "trap -p INT >/dev/null
$script" 2>&1)                                  # peeked with `trap -p INT` first
printf 'without peek:\n%s\nwith peek:\n%s\n' "$expected" "$actual"
[ "$expected" = "$actual" ] && [ "$actual" = "caught INT
sub done" ]
