#!/bin/sh
# Run from the repository root after `cargo build --offline -p yash-cli`:
#   LANG=C sh /tmp/seed-out/C11h/2/demo.sh
# Exits 0 if the trapped SIGUSR2 ran its action exactly once, 1 otherwise.
export LANG=C
Y=${YASH:-target/debug/yash3}
out=$("$Y" -c '
trap "echo old USR2" USR2
trap "kill -USR2 \$\$; echo in USR1 trap; trap \"echo new USR2\" USR2; echo end USR1 trap" USR1
kill -USR1 $$
echo after
echo done
' 2>&1)
printf '%s\n' "$out"
n=$(printf '%s\n' "$out" | grep -c 'USR2$')
echo "USR2 trap action ran $n time(s); expected 1"
[ "$n" -eq 1 ]
