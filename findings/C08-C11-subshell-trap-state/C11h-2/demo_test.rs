// Append inside `mod tests` of yash-env/src/trap.rs, then run:
//   CARGO_NET_OFFLINE=true RUST_BACKTRACE=0 cargo test --offline -p yash-env --lib trap::tests::caught_signal_survives_resetting_its_trap
//
// History: SIGUSR2 is trapped; a SIGUSR2 is delivered and recorded as pending
// (`catch_signal`, as done by Env::poll_signals) at a moment when traps cannot run
// yet (the shell is inside another trap action, see `in_trap` in
// yash-semantics/src/trap/signal.rs); before the deferred trap gets its turn, the
// running code executes `trap 'echo new' USR2`. The delivery must not be forgotten:
// the signal is still trapped, so its action has to run once at the next
// command boundary.

    #[test]
    fn caught_signal_survives_resetting_its_trap() {
        let system = DummySystem::default();
        let mut trap_set = TrapSet::default();
        let command = Action::Command("echo old".into());
        trap_set
            .set_action(&system, SIGUSR2, command, Location::dummy("old"), false)
            .now_or_never()
            .unwrap()
            .unwrap();

        // SIGUSR2 is delivered and noticed by the shell
        trap_set.catch_signal(SIGUSR2);

        // The trap action is replaced before the pending trap has run
        let command = Action::Command("echo new".into());
        trap_set
            .set_action(&system, SIGUSR2, command, Location::dummy("new"), false)
            .now_or_never()
            .unwrap()
            .unwrap();
        assert_eq!(system.0.borrow()[&SIGUSR2], Disposition::Catch);

        // The delivery must still be reported so that the action runs once.
        let (signal, state) = trap_set
            .take_caught_signal()
            .expect("the caught SIGUSR2 must not be lost");
        assert_eq!(signal, SIGUSR2);
        assert_eq!(state.action, Action::Command("echo new".into()));
        // ... and only once
        assert_eq!(trap_set.take_caught_signal(), None);
    }
