#!/bin/sh
# Shell demonstration for the built binary:
#   CARGO_NET_OFFLINE=true cargo build --offline -p yash-cli
#   LANG=C sh demo.sh /path/to/target/debug/yash3
# For every reserved word W: define a function named W (`\W() { echo ok; }`),
# print it with `typeset -fp`, evaluate the listing in a fresh shell and call
# the function there (`\W`). Prints PASS and exits 0 if every function is
# recreated.
yash=${1:-target/debug/yash3}
export LANG=C
tmp=$(mktemp -d) || exit 2
trap 'rm -rf "$tmp"' EXIT
status=0
for w in '!' '{' '}' '[[' ']]' case do done elif else esac fi for function if in \
    namespace select then until while
do
    printf '%s\n' "\\$w() { echo ok; }" "typeset -fp" > "$tmp/define.sh"
    "$yash" "$tmp/define.sh" > "$tmp/listing.sh" || exit 2
    printf '%s\n' ". $tmp/listing.sh" "\\$w" > "$tmp/fresh.sh"
    out=$("$yash" "$tmp/fresh.sh" 2>/dev/null)
    if [ "$out" != ok ]; then
        echo "FAIL: $w: listing $(cat "$tmp/listing.sh") does not recreate the function"
        status=1
    fi
done
[ "$status" -eq 0 ] && echo PASS
exit "$status"
