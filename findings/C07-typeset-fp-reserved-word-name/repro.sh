\if() { echo ok; }
typeset -fp > /tmp/fn_listing.sh
cat /tmp/fn_listing.sh
