// append inside `mod tests` of yash-builtin/src/typeset/print_functions.rs
// run: CARGO_NET_OFFLINE=true RUST_BACKTRACE=0 cargo test --offline -p yash-builtin --lib typeset::print_functions::tests::function_named_like_reserved_word_reads_back

    /// A function may be named like a reserved word (define it with
    /// `\if() { ...; }`, call it with `\if`). The definition printed by
    /// `typeset -fp` must be parsed by the shell's own parser as a definition
    /// of a function with that very name.
    #[test]
    fn function_named_like_reserved_word_reads_back() {
        use yash_syntax::syntax::{Command, List, Unquote as _};

        let names = [
            "!", "{", "}", "[[", "]]", "case", "do", "done", "elif", "else", "esac", "fi", "for",
            "function", "if", "in", "namespace", "select", "then", "until", "while",
        ];
        let mut failures = Vec::new();
        for name in names {
            let mut functions = FunctionSet::<()>::new();
            let function = Function::new(
                name,
                function_body_stub("{ :; }"),
                Location::dummy("location"),
            );
            functions.define(function).unwrap();
            let pf = PrintFunctions {
                functions: Field::dummies([name]),
                attrs: vec![],
            };
            let output = pf.execute(&functions, &PRINT_CONTEXT).unwrap();

            let reread_name = match output.trim_end().parse::<List>() {
                Err(error) => Err(format!("syntax error: {}", error.cause)),
                Ok(list) => match &list.0[..] {
                    [item]
                        if item.and_or.rest.is_empty()
                            && !item.and_or.first.negation
                            && item.and_or.first.commands.len() == 1 =>
                    {
                        match &*item.and_or.first.commands[0] {
                            Command::Function(definition) => Ok(definition.name.unquote().0),
                            other => Err(format!("not a function definition: `{other}`")),
                        }
                    }
                    _ => Err(format!("parsed as `{list}`")),
                },
            };
            if reread_name.as_deref() != Ok(name) {
                failures.push(format!("{name}: {output:?} -> {reread_name:?}"));
            }
        }
        assert!(
            failures.is_empty(),
            "printed definitions that do not read back:\n{}",
            failures.join("\n")
        );
    }
