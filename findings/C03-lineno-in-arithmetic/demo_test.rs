// Append inside `mod tests` of yash-semantics/src/expansion/initial/arith.rs, then run:
//   cargo test --offline -p yash-semantics --lib line_number_in_arithmetic_expansion
// `$((LINENO))` must denote the same constant as `$(($LINENO))` (the line of the expansion),
// not the raw stored value of the variable (empty, hence 0).
    #[test]
    fn line_number_in_arithmetic_expansion() {
        use crate::expansion::expand_word;
        use yash_syntax::syntax::Word;
        let mut env = yash_env::Env::new_virtual();
        env.init_variables();
        let word: Word = "$((LINENO)):$(($LINENO)):$((LINENO+1))".parse().unwrap();
        let (field, _) = expand_word(&mut env, &word).now_or_never().unwrap().unwrap();
        assert_eq!(field.value, "1:1:2");
    }
