// Append inside `mod tests` (the last item) of yash-env/src/system/concurrency/run_virtual.rs, then run:
//   CARGO_NET_OFFLINE=true cargo test --offline -p yash-env --lib run_virtual::tests::halted_process
// A process that has been terminated by a signal never executes another instruction, and a stopped one
// executes none until it is continued. Before e39d312, Concurrent::run_virtual polled the task of the
// process first and looked at the process state only after the task had returned Pending, so a process
// killed (or stopped) while its task was not being polled - typically between the fork and the first
// poll of the child by the executor - still ran its body.
    #[test]
    fn halted_process_killed_before_first_poll_does_not_run_task() {
        let system = Concurrent::new(VirtualSystem::new());
        let ran = Cell::new(false);
        _ = system.inner.current_process_mut().raise_signal(SIGKILL);

        let result = system.run_virtual(async { ran.set(true) }).now_or_never();

        assert_eq!(result, Some(()));
        assert!(!ran.get(), "the task of a process killed by SIGKILL was polled");
    }

    #[test]
    fn halted_process_stopped_before_first_poll_does_not_run_task_until_continued() {
        let system = Concurrent::new(VirtualSystem::new());
        let ran = Cell::new(false);
        _ = system.inner.current_process_mut().raise_signal(SIGSTOP);
        let mut future = pin!(system.run_virtual(async { ran.set(true) }));

        let mut context = Context::from_waker(Waker::noop());
        let poll = future.as_mut().poll(&mut context);
        assert!(!ran.get(), "the task of a stopped process was polled");
        assert_eq!(poll, Pending);

        _ = system.inner.current_process_mut().raise_signal(SIGCONT);
        assert_eq!(future.as_mut().poll(&mut context), Ready(()));
        assert!(ran.get());
    }

    // The same through the public API: fork, kill the child at once, reap it, let the executor go on.
    #[test]
    fn halted_process_child_killed_right_after_fork_does_not_run_body() {
        use crate::Env;
        use crate::job::Pid;
        use crate::system::{Fork as _, Wait as _};
        use crate::test_helper::in_virtual_system;

        in_virtual_system(|env: Env<Rc<Concurrent<VirtualSystem>>>, state| async move {
            state.borrow_mut().now = Some(Instant::now()); // for sleep below
            let child_ran = Rc::new(Cell::new(false));
            let child_ran_2 = Rc::clone(&child_ran);
            let (result, ()) = env.system.run_in_child_process(
                (),
                |child_system: Rc<Concurrent<VirtualSystem>>, ()| async move {
                    child_ran_2.set(true);
                    child_system.exit(ExitStatus(7)).await;
                },
            );
            let child: Pid = result.unwrap();

            // kill -KILL $child; wait $child
            env.system.kill(child, Some(SIGKILL)).await.unwrap();
            let signaled = ProcessState::Halted(crate::job::ProcessResult::Signaled {
                signal: SIGKILL,
                core_dump: false,
            });
            assert_eq!(env.system.wait(child), Ok(Some((child, signaled))));

            // Give the executor the opportunity to poll the child's task.
            env.system.sleep(Duration::from_secs(1)).await;

            // The body has not run, and the dead (and reaped) child has not changed its state by
            // exiting "again".
            let final_state = state.borrow().processes[&child].state();
            assert_eq!(
                (child_ran.get(), final_state),
                (false, signaled),
                "(body of the killed child was executed, final state of the child)"
            );
        });
    }
