set -- a b; IFS='?'
case axb in ("$@") echo "quoted-at matched (BUG)";; (*) echo "quoted-at literal";; esac
case axb in ("$*") echo "quoted-star matched (BUG)";; (*) echo "quoted-star literal";; esac
x="$@"; echo "assign: $x"
v=axb; echo "trim: ${v#"$@"}"
