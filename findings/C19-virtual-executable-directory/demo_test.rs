// Append inside `mod tests` of yash-env/src/system/virtual.rs, then run:
//   cargo test --offline -p yash-env --lib is_executable_file_with_directory
// RealSystem::is_executable_file requires a *regular* file (fstatat + is_regular_file) with
// execute permission. The simulated system must agree: a directory is not an executable file,
// even though directories carry 0o755.
    #[test]
    fn is_executable_file_with_directory() {
        let system = VirtualSystem::new();
        let mut content = Inode::default();
        content.permissions.set(Mode::USER_EXEC, true);
        let content = Rc::new(RefCell::new(content));
        let mut state = system.state.borrow_mut();
        state.file_system.save("/some/dir/file", content).unwrap();
        drop(state);
        assert!(system.is_executable_file(c"/some/dir/file"));
        // "/some/dir" exists, is searchable (0o755), and is a directory
        assert!(!system.is_executable_file(c"/some/dir"));
    }
