    // Append to the `mod tests` block at the end of
    // yash-syntax/src/parser/from_str.rs

    #[test]
    fn list_from_str_redundant_token() {
        block_on(async {
            // Every other `FromStr` implementation in this file rejects text
            // that follows the parsed construct (`RedundantToken`), e.g.
            let e = "a||b;".parse::<AndOrList>().unwrap_err().unwrap();
            assert_eq!(e.cause, ErrorCause::Syntax(SyntaxError::RedundantToken));

            // ... but `List` silently ignores everything from the first clause
            // delimiter on, even text that cannot be tokenized.
            for code in ["echo a ) garbage ((( \"", "echo a; } fi done", "echo a;; esac", "}", ")"] {
                let result: Result<List, _> = code.parse();
                assert_matches!(result, Err(_), "{code:?}");
            }
        })
    }
