#!/bin/sh
# usage: LANG=C sh demo.sh /tmp/seed/C01h/target/debug/yash3
# (build first: CARGO_NET_OFFLINE=true cargo build --offline -p yash-cli)
# Every script below contains an expansion error (unset parameter under `set -u`, or
# `${u?}`) in a redirection operand / here-document.  POSIX XCU 2.8.1 + `set -u` +
# 2.6.2 `${parameter?word}`: a non-interactive shell shall exit, so "survived" must
# never be printed (dash and bash --posix never print it).
sh=${1:-/tmp/seed/C01h/target/debug/yash3}
fail=0
check() {
    out=$(LANG=C "$sh" "$@" 2>/dev/null); rc=$?
    case $out in
    *survived*) echo "FAIL: $* -> shell kept running (output: $out, status $rc)"; fail=1;;
    *) if [ "$rc" -eq 0 ]; then echo "FAIL: $* -> exit status 0"; fail=1; else echo "ok:   $*"; fi;;
    esac
}
check -uc 'echo a >$u; echo survived'
check -uc '/bin/true >$u; echo survived'
check -uc '{ echo a; } >$u; echo survived'
check -uc 'f() { :; }; f >$u; echo survived'
check -uc 'if :; then :; fi 2>$u; echo survived'
check -c  'echo a >${u?must be set}; echo survived'
check -c  'echo a >$((1/0)); echo survived'
check -uc 'cat <<E
$u
E
echo survived'
# sanity: the same error in a command word does terminate the shell already
check -uc 'echo $u >/dev/null; echo survived'
exit $fail
