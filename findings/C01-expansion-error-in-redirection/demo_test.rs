// append inside `mod tests` of yash-semantics/src/command/compound_command.rs
// run: CARGO_NET_OFFLINE=true RUST_BACKTRACE=0 cargo test --offline -p yash-semantics --lib expansion_error_in_redirection
//
// POSIX XCU 2.8.1: an *expansion error* makes a non-interactive shell exit; `set -u`
// and `${parameter?}` say the same.  In yash-rs that is `Divert::Interrupt(Some(ERROR))`,
// which is what a failed expansion in a command word yields.  The very same failed
// expansion in a redirection operand (or a here-document body) is downgraded to a
// plain redirection error: a message is printed, `$?` becomes 2 and the script
// simply carries on with the next command.

    #[test]
    fn expansion_error_in_redirection_operand_with_nounset() {
        use yash_env::option::Option::Unset;
        use yash_env::option::State::Off;

        // Reference behaviour: the unset parameter is expanded in a command word.
        let mut env = Env::new_virtual();
        env.builtins.insert("echo", echo_builtin());
        env.options.set(Unset, Off); // set -u
        let command: syntax::FullCompoundCommand = "{ echo $unset_var; }".parse().unwrap();
        let in_word = command.execute(&mut env).now_or_never().unwrap();
        assert_eq!(in_word, Break(Divert::Interrupt(Some(ExitStatus::ERROR))));

        // Same unset parameter, this time in the operand of a redirection.
        let system = VirtualSystem::new();
        let state = Rc::clone(&system.state);
        let mut env = Env::with_system(Rc::new(Concurrent::new(system)));
        env.builtins.insert("echo", echo_builtin());
        env.options.set(Unset, Off); // set -u
        let command: syntax::FullCompoundCommand =
            "{ echo not reached; } > $unset_var".parse().unwrap();
        let in_redir = command.execute(&mut env).now_or_never().unwrap();
        assert_stdout(&state, |stdout| assert_eq!(stdout, ""));
        assert_eq!(in_redir, in_word, "the shell must be interrupted, not continue");
    }

    #[test]
    fn expansion_error_in_redirection_operand_with_error_switch() {
        let mut env = Env::new_virtual();
        env.builtins.insert("echo", echo_builtin());
        let command: syntax::FullCompoundCommand =
            "{ echo not reached; } > ${unset_var?}".parse().unwrap();
        let result = command.execute(&mut env).now_or_never().unwrap();
        assert_eq!(result, Break(Divert::Interrupt(Some(ExitStatus::ERROR))));
    }
