// Append inside `mod tests` (the inline block that ends just before `#[cfg(test)] mod fifo_tests;`)
// of yash-env/src/system/virtual.rs, then run:
//   CARGO_NET_OFFLINE=true cargo test --offline -p yash-env --lib virtual::tests::demo_opendir
// `mkdir -m 300 /secret; : >/secret/file; echo /secret/*`: the real opendir(3) fails with EACCES
// ("Search permission is denied for the component of the path prefix of dirname or read permission
// is denied for dirname", POSIX fdopendir/opendir ERRORS), so pathname expansion leaves the pattern
// intact. Before 6476b30 the virtual opendir ignored the permission bits and listed the directory.
    #[test]
    fn demo_opendir_requires_read_permission() {
        let system = VirtualSystem::new();
        let mut state = system.state.borrow_mut();
        state
            .file_system
            .save("/secret/file", Rc::new(RefCell::new(Inode::new([]))))
            .unwrap();
        // chmod 300 /secret: write and search, but no read permission
        let secret = state.file_system.get("/secret").unwrap();
        secret.borrow_mut().permissions = Mode::from_bits_retain(0o300);
        drop(state);

        let names = system.opendir(c"/secret").map(|mut dir| {
            let mut names = Vec::new();
            while let Some(entry) = dir.next().unwrap() {
                names.push(entry.name.to_unix_string());
            }
            names.sort_unstable();
            names
        });
        assert_eq!(
            names,
            Err(Errno::EACCES),
            "a directory without the read permission was opened and its entries were read"
        );
    }

    #[test]
    fn demo_opendir_with_read_permission_only() {
        // Control: chmod 400 /public; the read permission alone is enough to list a directory.
        let system = VirtualSystem::new();
        let mut state = system.state.borrow_mut();
        state
            .file_system
            .save("/public/file", Rc::new(RefCell::new(Inode::new([]))))
            .unwrap();
        let public = state.file_system.get("/public").unwrap();
        public.borrow_mut().permissions = Mode::from_bits_retain(0o400);
        drop(state);

        let mut dir = system.opendir(c"/public").unwrap();
        let mut names = Vec::new();
        while let Some(entry) = dir.next().unwrap() {
            names.push(entry.name.to_unix_string());
        }
        names.sort_unstable();
        assert_eq!(
            names[..],
            [
                UnixString::from("."),
                UnixString::from(".."),
                UnixString::from("file")
            ]
        );
    }
