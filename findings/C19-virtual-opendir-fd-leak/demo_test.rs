    #[test]
    fn demo_opendir_does_not_leak_a_file_descriptor() {
        use crate::system::r#virtual::VirtualSystem;
        use crate::system::resource::{LimitPair, Resource};
        use crate::system::{Dir as _, Open as _, SetRlimit as _};
        let system = VirtualSystem::new();
        system
            .setrlimit(Resource::NOFILE, LimitPair { soft: 8, hard: 8 })
            .unwrap();
        let before = system.current_process().fds().len();
        // `ulimit -n 8; echo *; echo *; ...`: every pathname expansion scans a directory
        for round in 0..20 {
            let mut dir = system
                .opendir(c"/")
                .unwrap_or_else(|e| panic!("opendir failed in round {round}: {e:?}"));
            while dir.next().unwrap().is_some() {}
            drop(dir);
        }
        assert_eq!(system.current_process().fds().len(), before);
    }
