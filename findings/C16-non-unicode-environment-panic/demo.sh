#!/bin/sh
# usage: sh demo.sh /path/to/target/debug/yash3
# An environment variable whose value (or name) is not valid UTF-8 must not kill the shell at
# start-up. Fails (panic, exit status 101) before f728452, passes from f728452 on.
yash=$(command -v "${1:-target/debug/yash3}") || { echo "usage: sh demo.sh <path to yash3>"; exit 2; }
case $yash in /*) ;; *) yash=$PWD/$yash;; esac
RUST_BACKTRACE=0; export RUST_BACKTRACE

bad=$(printf 'caf\351')          # "café" in ISO 8859-1: the byte 0xE9 alone is not valid UTF-8
out=$(env "BADVALUE=$bad" GOOD=1 "$yash" -c 'echo "alive, GOOD=$GOOD, BADVALUE is ${BADVALUE+set}${BADVALUE-unset}"' 2>&1)
status=$?
printf '%s\n' "$out" | sed 's/thread .main. ([0-9]*)/thread main/'
echo "invalid value: exit status $status"
out2=$(env "$bad=1" GOOD=1 "$yash" -c 'echo "alive, GOOD=$GOOD"' 2>&1)
status2=$?
printf '%s\n' "$out2" | sed 's/thread .main. ([0-9]*)/thread main/'
echo "invalid name: exit status $status2"
if [ "$status" -eq 0 ] && [ "$status2" -eq 0 ] &&
   [ "$out" = "alive, GOOD=1, BADVALUE is unset" ] && [ "$out2" = "alive, GOOD=1" ]; then
    echo PASS; exit 0
else
    echo "FAIL: the shell died at start-up"; exit 1
fi
