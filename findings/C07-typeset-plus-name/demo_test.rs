    // append inside `mod tests` of yash-builtin/src/typeset/print_variables.rs
    // cargo test --offline -p yash-builtin --lib verif_plus_name
    #[test]
    fn verif_plus_name_is_protected_by_separator() {
        let mut vars = VariableSet::new();
        vars.get_or_new("+r", Scope::Global.into()).assign("1", None).unwrap();
        let pv = PrintVariables {
            variables: Field::dummies(["+r"]),
            attrs: vec![],
            scope: Scope::Global,
        };
        let output = pv.execute(&vars, &PRINT_CONTEXT).unwrap();
        assert_eq!(output, "typeset -- +r=1\n");
    }
