    // Run alone (it uses the same static slots as real_system_caught_signals):
    //   cargo test -p yash-env --offline --lib demo_c11_nine_distinct_signals
    #[test]
    fn demo_c11_nine_distinct_signals_caught_before_one_select_are_all_reported() {
        unsafe {
            let system = RealSystem::new();
            let _ = system.caught_signals();
            // nine distinct trapped signals become pending while the shell is busy and are
            // delivered in one burst when pselect unblocks them
            for n in 1..=9 {
                catch_signal(n);
            }
            let mut got: Vec<i32> = system
                .caught_signals()
                .into_iter()
                .map(|n| n.as_raw())
                .collect();
            got.sort();
            assert_eq!(got, (1..=9).collect::<Vec<i32>>());
        }
    }
