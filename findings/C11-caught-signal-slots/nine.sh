for s in HUP INT QUIT USR1 USR2 ALRM TERM PIPE VTALRM; do trap "echo got $s" $s; done
(/bin/sleep 0.3; for s in HUP INT QUIT USR1 USR2 ALRM TERM PIPE VTALRM; do kill -s $s $$; done) &
: /usr/*/*/*/* /usr/*/*/*/* /usr/*/*/*/*
wait
echo done
