    // Demonstration for the C09 finding "saved copy leaked on a failed redirection".
    // Appended inside `mod tests` of yash-semantics/src/redir.rs; fails before the
    // fix (fd 10 stays open), passes after it.
    #[test]
    fn verif_failed_redirection_leaves_no_saved_fd() {
        let (mut env, state) = env_with_nofile_limit();
        let pid = env.main_pid;
        let before: Vec<Fd> = state.borrow().processes[&pid].fds().keys().copied().collect();
        {
            let mut guard = RedirGuard::new(&mut env);
            // fd 0 is open, so it is saved; the open of the operand then fails
            let redir = "< no_such_file".parse().unwrap();
            guard
                .perform_redir(&redir, None)
                .now_or_never()
                .unwrap()
                .unwrap_err();
        }
        let after: Vec<Fd> = state.borrow().processes[&pid].fds().keys().copied().collect();
        assert_eq!(before, after, "descriptor table changed by a failed redirection");
    }
