    #[test]
    fn backslash_escapes_next_pattern_char_across_quoting_chars() {
        let mut env = env_with_dummy_files([r"\a", r"\*"]);
        let mut f = dummy_attr_field("\\\"\"*");
        f.chars[1].is_quoting = true;
        f.chars[2].is_quoting = true;
        let values: Vec<String> = glob(&mut env, f).map(|r| r.unwrap().value).collect();
        assert_eq!(values, [r"\*"]);
    }
