#!/bin/sh
# Demonstration for the built binary. Build with
#   CARGO_NET_OFFLINE=true cargo build --offline -p yash-cli
# and run from the repository root:
#   sh /tmp/seed-out/C14h/1/demo.sh target/debug/yash3
# Exit status 0 = all bytes arrived (correct), 1 = bytes were lost (defect).
#
# A background `cat` and the main shell's `pwd` built-in write to the same
# pipe. The reader is slow, so the pipe is full when `pwd` writes its few
# bytes. The shell then parks in select() with O_NONBLOCK left set on the open
# file description it shares with `cat`; `cat` gets EAGAIN from write(2),
# reports "Resource temporarily unavailable" and dies, so most of its 2000000
# bytes never reach the reader.
Y=$(realpath "${1:-target/debug/yash3}")
export LANG=C
tmp=$(mktemp -d) || exit 2
trap 'rm -rf "$tmp"' EXIT
cd "$tmp" || exit 2
head -c 2000000 /dev/zero | tr '\0' b > big
expected=$((2000000 + $(pwd | wc -c)))
status=0
for round in 1 2 3; do
    actual=$("$Y" -c 'cat big & sleep 0.2; pwd; wait' 2>err |
        (sleep 1; dd bs=512 2>/dev/null | wc -c))
    if [ "$actual" -ne "$expected" ] || [ -s err ]; then
        echo "round $round: FAIL: expected $expected bytes, got $actual; stderr: $(cat err)"
        status=1
    else
        echo "round $round: ok ($actual bytes)"
    fi
done
exit $status
