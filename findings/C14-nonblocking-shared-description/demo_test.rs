// append inside `mod tests` of yash-env/src/system/concurrency/rw_all.rs
// run: CARGO_NET_OFFLINE=true cargo test --offline -p yash-env --lib shared_open_file_description_stays_blocking
//
// The O_NONBLOCK flag belongs to the open file description, which is shared
// with every process that inherited the file descriptor (another command of a
// pipeline, an asynchronous command, ...). While a `write_all`/`read_all`/
// `read`/`write` task of the shell is suspended waiting for the pipe, such a
// process must still see a blocking file descriptor; otherwise its write(2) or
// read(2) fails with EAGAIN and its data never reaches the reader.

    #[test]
    fn shared_open_file_description_stays_blocking_while_write_all_waits() {
        use futures_util::poll;
        use std::pin::pin;
        use std::task::Poll;

        let system = Rc::new(Concurrent::new(VirtualSystem::new()));
        let (_read_fd, write_fd) = system.pipe().unwrap();
        // Another writer has filled the pipe.
        system
            .inner
            .write(write_fd, &[0; PIPE_SIZE])
            .now_or_never()
            .unwrap()
            .unwrap();

        async {
            let mut write = pin!(system.write_all(write_fd, b"/home/user\n"));
            assert_eq!(poll!(&mut write), Poll::Pending);
            // The task is now parked until `select` reports the pipe writable.
            // Meanwhile, another process sharing the open file description
            // (e.g. `cat big &`) must not observe O_NONBLOCK.
            assert_eq!(
                system.inner.get_and_set_nonblocking(write_fd, false),
                Ok(false),
                "write_all left O_NONBLOCK set on the shared open file description"
            );
        }
        .now_or_never()
        .unwrap();
    }

    #[test]
    fn shared_open_file_description_stays_blocking_while_read_all_waits() {
        use futures_util::poll;
        use std::pin::pin;
        use std::task::Poll;

        let system = Rc::new(Concurrent::new(VirtualSystem::new()));
        let (read_fd, _write_fd) = system.pipe().unwrap();

        async {
            let mut read = pin!(system.read_all(read_fd));
            assert_eq!(poll!(&mut read), Poll::Pending);
            assert_eq!(
                system.inner.get_and_set_nonblocking(read_fd, false),
                Ok(false),
                "read_all left O_NONBLOCK set on the shared open file description"
            );
        }
        .now_or_never()
        .unwrap();
    }

    #[test]
    fn shared_open_file_description_stays_blocking_for_other_writer() {
        // End-to-end variant: a second writer that shares the pipe and writes
        // with plain blocking semantics (as an external utility does) must not
        // get EAGAIN while the shell's write_all is waiting for room.
        use futures_util::poll;
        use std::pin::pin;
        use std::task::Poll;

        let system = Rc::new(Concurrent::new(VirtualSystem::new()));
        let (read_fd, write_fd) = system.pipe().unwrap();
        system
            .inner
            .write(write_fd, &[b'x'; PIPE_SIZE])
            .now_or_never()
            .unwrap()
            .unwrap();

        async {
            let mut shell_write = pin!(system.write_all(write_fd, b"pwd\n"));
            assert_eq!(poll!(&mut shell_write), Poll::Pending);

            // The "external utility" writes to the same open file description.
            // The pipe is full, so a blocking write must wait, not fail.
            let mut other_write = pin!(system.inner.write(write_fd, b"cat\n"));
            assert_eq!(
                poll!(&mut other_write),
                Poll::Pending,
                "blocking write of another process failed instead of waiting"
            );

            // Drain the pipe; both writers can now finish.
            let mut sink = [0; PIPE_SIZE];
            let count = system.inner.read(read_fd, &mut sink).await.unwrap();
            assert_eq!(count, PIPE_SIZE);
            assert_eq!(other_write.await, Ok(4));
            system.peek();
            assert_eq!(shell_write.await, Ok(()));

            let count = system.inner.read(read_fd, &mut sink).await.unwrap();
            let mut got = sink[..count].to_vec();
            got.sort();
            let mut want = b"cat\npwd\n".to_vec();
            want.sort();
            assert_eq!(got, want);
        }
        .now_or_never()
        .unwrap();
    }
