// append inside `mod tests` of yash-env/src/subshell/config.rs
// run: CARGO_NET_OFFLINE=true RUST_BACKTRACE=0 cargo test --offline -p yash-env --lib subshell::config::tests::subshell_blocked_in_read_does_not_make_shared_open_file_nonblocking
//
// A subshell that waits for input on an open file description it shares with the parent shell
// (e.g. `read x <&3 &`, or `read x | ...` on the shell's stdin) must not change that open file
// as seen by the parent: O_NONBLOCK is a property of the shared open file description, so while
// `Concurrent::read` keeps it set for the whole time it is suspended (and for ever, if the
// subshell is killed meanwhile), every other process using the file gets EAGAIN.
    #[test]
    fn subshell_blocked_in_read_does_not_make_shared_open_file_nonblocking() {
        use crate::system::concurrency::Sleep as _;
        use crate::system::r#virtual::SIGTERM;
        use crate::system::{Fcntl as _, Pipe as _, Read as _, SendSignal as _};
        use std::time::Duration;

        in_virtual_system(|mut parent_env, state| async move {
            state.borrow_mut().now = Some(std::time::Instant::now());
            let (reader, _writer) = parent_env.system.pipe().unwrap();
            // Returns the O_NONBLOCK flag of the open file description without changing it
            let is_nonblocking = |system: &Rc<Concurrent<VirtualSystem>>| {
                let flag = system.get_and_set_nonblocking(reader, false).unwrap();
                if flag {
                    system.get_and_set_nonblocking(reader, true).unwrap();
                }
                flag
            };
            assert!(!is_nonblocking(&parent_env.system));

            // ( read ... ) on the shared, still empty pipe
            let (child_pid, _) = Config::new()
                .start(
                    &mut parent_env,
                    async move |env: &mut Env<Rc<Concurrent<VirtualSystem>>>, _job_control| {
                        let mut buffer = [0; 1];
                        env.system.read(reader, &mut buffer).await.ok();
                    },
                )
                .await
                .unwrap();

            // Let the subshell run until it is suspended waiting for input.
            parent_env.system.sleep(Duration::from_secs(1)).await;
            let nonblocking_while_subshell_waits = is_nonblocking(&parent_env.system);

            // kill $!; wait $!
            parent_env
                .system
                .kill(child_pid, Some(SIGTERM))
                .await
                .unwrap();
            let (_, child_state) = parent_env.wait_for_subshell(child_pid).await.unwrap();
            assert_eq!(
                child_state,
                ProcessState::Halted(ProcessResult::Signaled {
                    signal: SIGTERM,
                    core_dump: false
                })
            );
            let nonblocking_after_subshell_killed = is_nonblocking(&parent_env.system);

            assert_eq!(
                (
                    nonblocking_while_subshell_waits,
                    nonblocking_after_subshell_killed
                ),
                (false, false),
                "O_NONBLOCK on the parent's open file (while the subshell waits, after it is killed)"
            );
        })
    }
