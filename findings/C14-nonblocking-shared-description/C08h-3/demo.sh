#!/bin/sh
# Usage: LANG=C sh demo.sh /path/to/target/debug/yash3      (needs coreutils `cat`, `sleep`)
# A subshell (`read x <&3 &`) waits for input on the open file it shares with the parent shell and is
# killed while waiting. Afterwards the parent's standard input must be unchanged, so `cat` run by
# the parent must copy "hello" and succeed (dash, bash, ksh do).
# Unmodified yash3: "cat: -: Resource temporarily unavailable", status 1, because the dead subshell
# left O_NONBLOCK set on the shared open file description.
yash=${1:-target/debug/yash3}
out=$( (sleep 2; echo hello) | "$yash" -c '
exec 3<&0
read x <&3 &
sleep 0.5
kill $!
wait
cat
echo "cat exit=$?"
' 2>&1)
printf '%s\n' "$out"
[ "$out" = "hello
cat exit=0" ]
