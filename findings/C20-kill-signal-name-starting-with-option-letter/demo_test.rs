// Append inside `mod tests` (the last item) of yash-builtin/src/kill/syntax.rs, then run:
//   CARGO_NET_OFFLINE=true cargo test --offline -p yash-builtin --lib kill::syntax::tests::obsolete_signal_syntax_with_name_starting_with
// `kill -NAME pid` (the obsolete XSI syntax) must work for every signal name. VTALRM starts with the
// letter of the -v option and LOST with that of the -l option. Before b738927 the parser consumed the
// leading letter as the option and then, finding a non-option letter, took the *whole* argument for a
// signal as well, so the one argument was both "-v"/"-l" and a signal: Error::ConflictingOptions
// (or, with the `portable` option on, Error::NonPortableOption('v', ..), although the -SIGNAL syntax
// with a signal name is portable).
    #[test]
    fn obsolete_signal_syntax_with_name_starting_with_v() {
        let env = Env::new_virtual();
        let result = parse(&env, Field::dummies(["-vtalrm", "1"]));
        assert_eq!(
            result,
            Ok(Command::Send {
                signal: VirtualSystem::SIGVTALRM.as_raw(),
                signal_origin: Some(Field::dummy("-vtalrm")),
                targets: Field::dummies(["1"]),
            })
        );
    }

    #[test]
    fn obsolete_signal_syntax_with_name_starting_with_l() {
        let env = Env::new_virtual();
        let result = parse(&env, Field::dummies(["-lost", "1"]));
        assert_eq!(
            result,
            Ok(Command::Send {
                signal: VirtualSystem::SIGLOST.unwrap().as_raw(),
                signal_origin: Some(Field::dummy("-lost")),
                targets: Field::dummies(["1"]),
            })
        );
    }

    #[test]
    fn obsolete_signal_syntax_with_name_starting_with_v_in_portable_mode() {
        let mut env = Env::new_virtual();
        env.options.set(Portable, On);
        let result = parse(&env, Field::dummies(["-vtalrm", "1"]));
        assert_eq!(
            result,
            Ok(Command::Send {
                signal: VirtualSystem::SIGVTALRM.as_raw(),
                signal_origin: Some(Field::dummy("-vtalrm")),
                targets: Field::dummies(["1"]),
            })
        );
    }
