// Append inside `mod tests` (the last item) of yash-builtin/src/kill/syntax.rs, then run:
//   CARGO_NET_OFFLINE=true cargo test --offline -p yash-builtin --lib kill::syntax::tests::argument_starting_with_two_hyphens
// The kill built-in has no long options, so an argument that starts with `--` (other than `--` itself)
// is an unknown option. Before a835bd0 only one hyphen was removed and the rest, `-0`, was parsed as a
// decimal signal number in the obsolete `-SIGNAL` syntax: `kill --0 1` was `kill -s 0 1`, and
// `kill --9 1` was accepted as sending the "signal" -9.
    #[test]
    fn argument_starting_with_two_hyphens_is_not_a_signal() {
        let env = Env::new_virtual();

        let arg = Field::dummy("--0");
        let result = parse(&env, vec![arg.clone(), Field::dummy("1")]);
        assert_eq!(result, Err(Error::UnknownOption(arg)));

        let arg = Field::dummy("--9");
        let result = parse(&env, vec![arg.clone(), Field::dummy("1")]);
        assert_eq!(result, Err(Error::UnknownOption(arg)));
    }
