# Run as:  target/debug/yash3 demo.sh
# (the inner shell gets its script through the standard input, shared with `read`)
#
# Expected output (the data line is consumed by `read`, even though `read`
# fails because the line is not valid UTF-8):
#   name=[] read-status=3        (any non-zero status)
#   end
# Observed on the unmodified worktree: the tail of the data line is run as a command:
#   INJECTED
#   name=[] read-status=0
#   end
printf 'read name\nJos\351; echo INJECTED\necho "name=[$name] read-status=$?"\necho end\n' |
    "${YASH:-target/debug/yash3}" 2>/dev/null
