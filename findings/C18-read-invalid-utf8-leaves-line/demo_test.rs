    // Append to the end of `mod tests` in yash-builtin/src/read/input.rs

    #[test]
    fn hunt_broken_utf8_does_not_leave_rest_of_line_unread() {
        // The line containing the invalid byte is the line `read` was asked to
        // consume. After the failure, the next reader of the standard input
        // (another `read`, or the shell itself when the script comes from the
        // standard input) must start at the following line.
        in_virtual_system(|mut env, system| async move {
            set_stdin(&system, *b"Jos\xE9; echo INJECTED\nnext\n");

            let result = read(&mut env, b'\n', false).await;
            assert_eq!(result, Err(Errno::EILSEQ.into()));

            let result = read(&mut env, b'\n', false).await;
            assert_eq!(result, Ok((attr_chars("next"), true)));
        });

        // The byte that reveals the error may be the delimiter itself, in
        // which case nothing more must be consumed.
        in_virtual_system(|mut env, system| async move {
            set_stdin(&system, *b"caf\xC3\nnext\n");

            let result = read(&mut env, b'\n', false).await;
            assert_eq!(result, Err(Errno::EILSEQ.into()));

            let result = read(&mut env, b'\n', false).await;
            assert_eq!(result, Ok((attr_chars("next"), true)));
        });
    }
