// append inside `mod tests` of yash-semantics/src/runner.rs
// run: CARGO_NET_OFFLINE=true cargo test --offline -p yash-semantics --lib runner::tests::exit_status_
//
// `read_eval_loop` is the engine behind `.`/`source`, `eval`, command
// substitution, trap actions and the main script. Its doc comment says: "If
// the input source code contains no commands, the exit status is set to zero."
// (Likewise docs/src/builtins/source.md and eval.md, and POSIX XCU dot/eval
// EXIT STATUS: "... or a zero exit status if no command is executed".)
// The unmodified code only honours this for *completely empty* input. If the
// input has a blank line or a comment line (still no command), the previous
// value of `$?` leaks through.

    #[test]
    fn exit_status_zero_with_blank_lines_only() {
        let mut env = Env::new_virtual();
        env.exit_status = ExitStatus(5);
        let mut lexer = Lexer::with_code("\n\n");
        let ref_env = RefCell::new(&mut env);

        let result = read_eval_loop(&ref_env, &mut lexer).now_or_never().unwrap();
        assert_eq!(result, Continue(()));
        assert_eq!(env.exit_status, ExitStatus::SUCCESS);
    }

    #[test]
    fn exit_status_zero_with_comments_only() {
        let mut env = Env::new_virtual();
        env.exit_status = ExitStatus(5);
        let mut lexer = Lexer::with_code("# just a comment\n  # and another one");
        let ref_env = RefCell::new(&mut env);

        let result = read_eval_loop(&ref_env, &mut lexer).now_or_never().unwrap();
        assert_eq!(result, Continue(()));
        assert_eq!(env.exit_status, ExitStatus::SUCCESS);
    }

    #[test]
    fn exit_status_kept_with_blank_lines_after_command() {
        // Blank lines after a real command must not reset its exit status.
        let mut env = Env::new_virtual();
        env.builtins.insert("return", return_builtin());
        let mut lexer = Lexer::with_code("\nreturn -n 7\n\n# comment\n");
        let ref_env = RefCell::new(&mut env);

        let result = read_eval_loop(&ref_env, &mut lexer).now_or_never().unwrap();
        assert_eq!(result, Continue(()));
        assert_eq!(env.exit_status, ExitStatus(7));
    }
