#!/bin/sh
# usage: LANG=C sh demo.sh /path/to/target/debug/yash3
# Prints "ok" and exits 0 on a correct shell; exits 1 on the unmodified tree.
yash=$(command -v "${1:-target/debug/yash3}") || exit 2
case $yash in /*) ;; *) yash=$PWD/$yash;; esac
LANG=C; export LANG
dir=$(mktemp -d) || exit 2
trap 'rm -rf "$dir"' EXIT
cd "$dir" || exit 2
printf '# this script has no commands\n\n' > comment.sh
: > empty.sh
out=$("$yash" -c '
false; . ./empty.sh;   echo "empty-file=$?"
false; . ./comment.sh; echo "comment-file=$?"
false; eval "# nothing"; echo "eval-comment=$?"
false; eval "
";                     echo "eval-newline=$?"
false; x=$(
);                     echo "cmdsubst-newline=$?"
false; . ./comment.sh && echo "and-or-sees-success" || echo "and-or-sees-failure"
')
printf '%s\n' "$out"
expected='empty-file=0
comment-file=0
eval-comment=0
eval-newline=0
cmdsubst-newline=0
and-or-sees-success'
[ "$out" = "$expected" ] && echo ok
