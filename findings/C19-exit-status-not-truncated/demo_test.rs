
    #[test]
    fn demo_exit_status_is_truncated_to_8_bits() {
        // `(exit 300); echo $?` prints 44 on a real system: wait(2) delivers only the low 8 bits
        let system = VirtualSystem::new();
        system.exit(ExitStatus(300)).now_or_never();
        assert_eq!(
            system.current_process().state(),
            ProcessState::exited(ExitStatus(44))
        );
        let system = VirtualSystem::new();
        system.exit(ExitStatus(256)).now_or_never();
        assert_eq!(
            system.current_process().state(),
            ProcessState::exited(ExitStatus(0))
        );
    }
