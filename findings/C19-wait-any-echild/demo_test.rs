// Append inside `mod tests` of yash-env/src/system/virtual.rs, then run:
//   cargo test --offline -p yash-env --lib wait_for_any_child_with_running_and_reaped_children
// waitpid(-1, .., WNOHANG) answers ECHILD only when the caller has no children left; with one child still
// running (and another one already reaped) it answers "no change yet". The simulated wait(-1) looked at the
// child with the highest pid when nothing had changed, and answered ECHILD if that one was already reaped.
    #[test]
    fn wait_for_any_child_with_running_and_reaped_children() {
        let (system, mut executor) = virtual_system_with_executor();
        let mut env = Env::with_system(system);

        // first child: never finishes (the executor has nothing to run for it after the first poll)
        let running = env
            .run_in_child_process((), |_, ()| async { std::future::pending::<()>().await })
            .0
            .unwrap();
        // second child (higher pid): exits at once
        let exited = env
            .run_in_child_process((), |child_env: Env<VirtualSystem>, ()| async move {
                child_env.system.exit(ExitStatus(5)).await;
            })
            .0
            .unwrap();
        assert!(running < exited);
        executor.run_until_stalled();

        // the exited child is reported once (reaped) ...
        assert_eq!(env.system.wait(Pid(-1)), Ok(Some((exited, ProcessState::exited(5)))));
        // ... and afterwards the running child is still there: no change yet, not ECHILD
        assert_eq!(env.system.wait(Pid(-1)), Ok(None));
    }
