// Append inside `mod tests` (the last item) of yash-env/src/system/virtual/process.rs, then run:
//   CARGO_NET_OFFLINE=true cargo test --offline -p yash-env --lib process::tests::kill_fails_with_esrch
// (`mod tests` of yash-env/src/system/virtual.rs, where the kill tests live, is followed by
// `mod fifo_tests;` and so is not the last item of its file; process.rs is the other file of the fix.)
// Once wait has reported the termination of a child, the child is gone: its process ID refers to no
// process, wait fails with ECHILD and kill fails with ESRCH. The virtual system keeps every process in
// its table forever. wait told the reaped child apart (ECHILD), but before 7c36cbb kill did not and
// returned Ok(()) for it - for the null signal, for a real signal and for its process group.
    #[test]
    fn kill_fails_with_esrch_for_child_already_awaited() {
        use crate::semantics::ExitStatus;
        use crate::system::r#virtual::{SIGTERM, VirtualSystem};
        use crate::system::{Errno, Exit as _, Fork as _, SendSignal as _, Wait as _};
        use futures_executor::LocalPool;

        let system = VirtualSystem::new();
        let mut executor = LocalPool::new();
        system.state.borrow_mut().executor = Some(Rc::new(executor.spawner()));

        // child & -- the child exits with 5 at once
        let (result, ()) = system.run_in_child_process((), |child: VirtualSystem, ()| async move {
            child.exit(ExitStatus(5)).await;
        });
        let child = result.unwrap();
        executor.run_until_stalled();

        // A zombie still exists and can be signalled.
        assert_eq!(system.kill(child, None).now_or_never().unwrap(), Ok(()));

        // wait $child -- the termination is reported once, and then the child is gone
        assert_eq!(system.wait(child), Ok(Some((child, ProcessState::exited(5)))));
        assert_eq!(system.wait(child), Err(Errno::ECHILD));

        // kill -0 $child; kill $child
        let kill_0 = system.kill(child, None).now_or_never().unwrap();
        assert_eq!(kill_0, Err(Errno::ESRCH), "kill(child, 0) after wait");
        let kill_term = system.kill(child, Some(SIGTERM)).now_or_never().unwrap();
        assert_eq!(kill_term, Err(Errno::ESRCH), "kill(child, SIGTERM) after wait");
    }

    #[test]
    fn kill_fails_with_esrch_for_process_group_of_children_already_awaited() {
        use crate::job::Pid;
        use crate::semantics::ExitStatus;
        use crate::system::r#virtual::VirtualSystem;
        use crate::system::{Errno, Exit as _, Fork as _, SendSignal as _, SetPgid as _, Wait as _};
        use futures_executor::LocalPool;

        let system = VirtualSystem::new();
        let mut executor = LocalPool::new();
        system.state.borrow_mut().executor = Some(Rc::new(executor.spawner()));

        // set -m; child & -- the only member of its own process group
        let (result, ()) = system.run_in_child_process((), |child: VirtualSystem, ()| async move {
            child.setpgid(Pid(0), Pid(0)).unwrap();
            child.exit(ExitStatus(0)).await;
        });
        let child = result.unwrap();
        executor.run_until_stalled();
        assert_eq!(system.wait(child), Ok(Some((child, ProcessState::exited(0)))));

        // kill -0 -- -$child: no process is left in the group
        let result = system.kill(Pid(-child.0), None).now_or_never().unwrap();
        assert_eq!(result, Err(Errno::ESRCH), "kill(-pgid, 0) after wait");
    }
