// Demonstration for the C19 finding "simulated open of a directory for writing succeeds".
//
// Where it goes: paste the two functions below into the `#[cfg(test)] mod tests` of
// `yash-env/src/system/virtual.rs`, next to `open_non_directory_file` (they only use names
// that module already imports: `super::*`, `futures_util::FutureExt as _`).
//
// Run:  cargo test -p yash-env --lib open_directory_for_writing
//
// Before the fix (fix.patch in this directory) both tests fail: `open` returns `Ok(Fd(4))`,
// i.e. the simulated kernel hands out a writable descriptor for a directory and only a later
// `write` reports EISDIR. A real kernel fails the `open` itself with EISDIR (POSIX open(),
// ERRORS: "[EISDIR] The named file is a directory and oflag includes O_WRONLY or O_RDWR"),
// so for `echo x > dir` the real shell reports a redirection error and does not run the
// command, whereas on the simulator the redirection succeeds and the command runs and fails
// on its own write. After the fix both tests pass.

    #[test]
    fn open_directory_for_writing_fails_with_eisdir() {
        let system = VirtualSystem::new();

        // Create a regular file and its parent directory
        let _ = system
            .open(
                c"/dir/file",
                OfdAccess::WriteOnly,
                OpenFlag::Create.into(),
                Mode::empty(),
            )
            .now_or_never()
            .unwrap();

        for access in [OfdAccess::WriteOnly, OfdAccess::ReadWrite] {
            let result = system
                .open(c"/dir", access, EnumSet::empty(), Mode::empty())
                .now_or_never()
                .unwrap();
            assert_eq!(result, Err(Errno::EISDIR), "access = {access:?}");
        }

        // The directory must not have been damaged by the failed attempts,
        // and reading it is still allowed.
        let result = system
            .open(
                c"/dir",
                OfdAccess::ReadOnly,
                OpenFlag::Directory.into(),
                Mode::empty(),
            )
            .now_or_never()
            .unwrap();
        assert_eq!(result, Ok(Fd(4)));
        let result = system
            .open(
                c"/dir/file",
                OfdAccess::ReadOnly,
                EnumSet::empty(),
                Mode::empty(),
            )
            .now_or_never()
            .unwrap();
        assert_eq!(result, Ok(Fd(5)));
    }

    #[test]
    fn open_directory_for_writing_with_truncate_fails_with_eisdir() {
        // This is what the `>` redirection does: WriteOnly + Create + Truncate.
        let system = VirtualSystem::new();
        let _ = system
            .open(
                c"/dir/file",
                OfdAccess::WriteOnly,
                OpenFlag::Create.into(),
                Mode::empty(),
            )
            .now_or_never()
            .unwrap();

        let result = system
            .open(
                c"/dir",
                OfdAccess::WriteOnly,
                OpenFlag::Create | OpenFlag::Truncate,
                Mode::ALL_9,
            )
            .now_or_never()
            .unwrap();
        assert_eq!(result, Err(Errno::EISDIR));
    }
