#!/bin/sh
# usage: LANG=C sh demo.sh /path/to/target/debug/yash3
# Exits 0 iff a dangling symlink is found by `*/link` just as by `d/lin?`.
Y=${1:-target/debug/yash3}
case $Y in /*) ;; *) Y=$PWD/$Y;; esac
export LANG=C
d=$(mktemp -d) && cd "$d" || exit 2
mkdir d e; ln -s /no/such/file d/link; : >e/other
out=$("$Y" -c 'echo d/lin?; echo */link; echo d*/link d/link*')
rm -rf "$d"
expected='d/link
d/link
d/link d/link'
printf '%s\n' "$out"
[ "$out" = "$expected" ]
