// append inside `mod tests` of yash-semantics/src/expansion/glob.rs
// run: RUST_BACKTRACE=0 CARGO_NET_OFFLINE=true cargo test --offline -p yash-semantics --lib expansion::glob::tests::dangling_symlink
//
// A dangling symbolic link is an existing directory entry.  It is returned when
// the component naming it is a pattern (found by readdir), so it must also be
// returned when that component is literal and an earlier component is a
// pattern (existence check).  Both spellings denote the same set of pathnames.

    fn env_with_dangling_symlink() -> Env<Rc<Concurrent<VirtualSystem>>> {
        use std::cell::RefCell;
        use yash_env::system::r#virtual::{FileBody, Inode};
        let system = VirtualSystem::new();
        {
            let mut state = system.state.borrow_mut();
            let link = Rc::new(RefCell::new(Inode {
                body: FileBody::Symlink {
                    target: "/no/such/file".into(),
                },
                permissions: Mode::default(),
            }));
            state.file_system.save("d/link", link).unwrap();
            state.file_system.save("e/other", Rc::default()).unwrap();
        }
        Env::with_system(Rc::new(Concurrent::new(system)))
    }

    // Passes before and after the fix: last component is a pattern.
    #[test]
    fn dangling_symlink_matched_by_pattern_component() {
        let mut env = env_with_dangling_symlink();
        let f = dummy_attr_field("d/lin?");
        let mut i = glob(&mut env, f);
        assert_eq!(i.next().unwrap().unwrap().value, "d/link");
        assert_eq!(i.next(), None);
    }

    // Fails on the unmodified tree: yields the pattern "?/link" itself.
    #[test]
    fn dangling_symlink_named_by_literal_component_after_pattern() {
        let mut env = env_with_dangling_symlink();
        let f = dummy_attr_field("?/link");
        let mut i = glob(&mut env, f);
        assert_eq!(i.next().unwrap().unwrap().value, "d/link");
        assert_eq!(i.next(), None);
    }
