// Demonstration for the C16 finding "VariableSet::unset uses a context index as a stack position".
// New file yash-env/tests/verif_unset_scope.rs; run with  cargo test --offline -p yash-env --test verif_unset_scope
// Before the fix the first test finds the local variable still set and the second panics (slice index out of range);
// both pass after it.
use yash_env::variable::{Context, Scope, VariableSet, Value};

#[test]
fn unset_local_removes_the_local_variable_only() {
    let mut set = VariableSet::new();
    set.get_or_new("g", Scope::Global).assign("global", None).unwrap();
    let mut set = set.push_context(Context::default());
    // x exists only in the function's (local) context
    set.get_or_new("x", Scope::Local).assign("local", None).unwrap();
    let removed = set.unset("x", Scope::Local).unwrap();
    assert_eq!(removed.map(|v| v.value), Some(Some(Value::scalar("local"))));
    assert_eq!(set.get("x"), None);
}

#[test]
fn unset_local_of_a_global_only_variable_does_not_panic() {
    let mut set = VariableSet::new();
    set.get_or_new("g", Scope::Global).assign("global", None).unwrap();
    let mut set = set.push_context(Context::default());
    let mut set = set.push_context(Context::default());
    // g is visible but defined two contexts below: nothing local to remove
    let removed = set.unset("g", Scope::Local).unwrap();
    assert_eq!(removed, None);
    assert!(set.get("g").is_some());
}
