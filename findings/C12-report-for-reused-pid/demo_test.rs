    #[test]
    fn demo_finished_job_keeps_its_status_when_its_pid_is_reused() {
        // `cmd &` : a job for process 10
        let mut list = JobList::default();
        let i = list.insert(Job::new(Pid(10)));
        // the job finishes with status 11 and the shell awaits it (update_all_subshell_statuses)
        assert_eq!(list.update_status(Pid(10), ProcessState::exited(11)), Some(i));
        // before `wait $!` consumes the job, the kernel gives process ID 10 to an unrelated
        // foreground subshell; Env::wait_for_subshell reports ITS status to the job list too
        let _ = list.update_status(Pid(10), ProcessState::exited(6));
        // `wait $!` must still report 11
        assert_eq!(list[i].state, ProcessState::exited(11));
    }
