//! MIR facts: one JSON object per body, taken from the freshly built (pre-borrowck,
//! pre-coroutine-lowering) MIR.

use crate::json::J;
use crate::obj;
use crate::{path_of, span_loc, ty_str};
use rustc_middle::mir::*;
use rustc_middle::ty::{self, Instance, Ty, TyCtxt, TypingEnv};
use rustc_span::def_id::{DefId, LocalDefId};

pub struct Cx<'tcx, 'a> {
    pub tcx: TyCtxt<'tcx>,
    pub def: LocalDefId,
    pub body: &'a Body<'tcx>,
    pub file: String,
}

pub fn dump_body<'tcx>(tcx: TyCtxt<'tcx>, def: LocalDefId, body: &Body<'tcx>) -> J {
    let did = def.to_def_id();
    let (file, line) = span_loc(tcx, body.span);
    let cx = Cx { tcx, def, body, file: file.clone() };
    let root = tcx.typeck_root_def_id(did);
    let mut names: Vec<Option<String>> = vec![None; body.local_decls.len()];
    for vdi in body.var_debug_info.iter() {
        if let VarDebugInfoContents::Place(p) = &vdi.value {
            if p.projection.is_empty() {
                names[p.local.as_usize()] = Some(vdi.name.to_string());
            }
        }
    }
    let locals: Vec<J> = body
        .local_decls
        .iter_enumerated()
        .map(|(l, d)| {
            obj! {
                "ty": J::s(ty_str(d.ty)),
                "name": match &names[l.as_usize()] { Some(n) => J::s(n.clone()), None => J::Null },
                "user": if d.is_user_variable() { J::Bool(true) } else { J::Null },
            }
        })
        .collect();
    // upvar names for closures (debug info with projections on _1)
    let mut upvars = vec![];
    for vdi in body.var_debug_info.iter() {
        if let VarDebugInfoContents::Place(p) = &vdi.value {
            if !p.projection.is_empty() {
                upvars.push(obj! {"name": J::s(vdi.name.to_string()), "place": cx.place(p)});
            }
        }
    }
    let blocks: Vec<J> = body
        .basic_blocks
        .iter()
        .map(|bb| {
            let stmts: Vec<J> =
                bb.statements.iter().filter_map(|s| cx.stmt(s)).collect();
            obj! {
                "s": J::Arr(stmts),
                "t": cx.term(bb.terminator()),
                "cleanup": if bb.is_cleanup { J::Bool(true) } else { J::Null },
            }
        })
        .collect();
    obj! {
        "fn": J::s(path_of(tcx, did)),
        "root": J::s(path_of(tcx, root)),
        "kind": J::s(format!("{:?}", tcx.def_kind(did))),
        "coroutine": match tcx.coroutine_kind(did) { Some(k) => J::s(format!("{:?}", k)), None => J::Null },
        "file": J::s(file),
        "line": J::n(line),
        "argc": J::n(body.arg_count),
        "locals": J::Arr(locals),
        "upvars": J::Arr(upvars),
        "blocks": J::Arr(blocks),
    }
}

impl<'tcx, 'a> Cx<'tcx, 'a> {
    fn loc(&self, sp: rustc_span::Span) -> (J, J, J) {
        let (f, l) = span_loc(self.tcx, sp);
        let fj = if f == self.file { J::Null } else { J::s(f) };
        let exp = if sp.from_expansion() { J::Bool(true) } else { J::Null };
        (J::n(l), fj, exp)
    }

    pub fn place(&self, p: &Place<'tcx>) -> J {
        let mut proj = vec![];
        let mut ty = PlaceTy::from_ty(self.body.local_decls[p.local].ty);
        for elem in p.projection.iter() {
            match elem {
                ProjectionElem::Deref => proj.push(J::s("*")),
                ProjectionElem::Field(f, fty) => {
                    let mut fname = format!("{}", f.as_usize());
                    let mut adt = J::Null;
                    match ty.ty.kind() {
                        ty::Adt(def, _) => {
                            let v = match ty.variant_index {
                                Some(v) => def.variant(v),
                                None => def.non_enum_variant(),
                            };
                            if let Some(fd) = v.fields.get(f) {
                                fname = fd.name.to_string();
                            }
                            adt = J::s(path_of(self.tcx, def.did()));
                        }
                        ty::Closure(did, _) | ty::Coroutine(did, _) | ty::CoroutineClosure(did, _) => {
                            adt = J::s(path_of(self.tcx, *did));
                        }
                        _ => {}
                    }
                    proj.push(obj! {"f": J::s(fname), "adt": adt, "ty": J::s(ty_str(fty))});
                }
                ProjectionElem::Downcast(name, vi) => {
                    let n = match name {
                        Some(n) => n.to_string(),
                        None => format!("{}", vi.as_usize()),
                    };
                    proj.push(obj! {"v": J::s(n)});
                }
                ProjectionElem::Index(l) => proj.push(obj! {"idx": J::n(l.as_usize())}),
                ProjectionElem::ConstantIndex { offset, from_end, .. } => {
                    proj.push(obj! {"cidx": J::n(offset), "from_end": J::Bool(from_end)})
                }
                ProjectionElem::Subslice { from, to, from_end } => {
                    proj.push(obj! {"sub": J::Arr(vec![J::n(from), J::n(to)]), "from_end": J::Bool(from_end)})
                }
                ProjectionElem::OpaqueCast(_) => proj.push(J::s("opaque")),
                ProjectionElem::UnwrapUnsafeBinder(_) => proj.push(J::s("unwrap_binder")),
            }
            ty = ty.projection_ty(self.tcx, elem);
        }
        obj! {
            "l": J::n(p.local.as_usize()),
            "p": if proj.is_empty() { J::Null } else { J::Arr(proj) },
        }
    }

    fn konst(&self, c: &ConstOperand<'tcx>) -> J {
        let cty = c.const_.ty();
        let mut fnpath = J::Null;
        let mut gargs = J::Null;
        if let ty::FnDef(did, args) = cty.kind() {
            fnpath = J::s(path_of(self.tcx, *did));
            if !args.is_empty() {
                gargs = J::s(ty_str_args(self.tcx, args));
            }
        }
        let mut cdef = J::Null;
        let mut val = J::Null;
        match c.const_ {
            Const::Unevaluated(u, _) => {
                cdef = J::s(path_of(self.tcx, u.def));
                if u.promoted.is_some() {
                    cdef = J::s(format!("{}::promoted", path_of(self.tcx, u.def)));
                }
            }
            Const::Ty(_, ct) => {
                if let ty::ConstKind::Unevaluated(u) = ct.kind() {
                    cdef = J::s(path_of(self.tcx, u.def));
                }
            }
            Const::Val(..) => {}
        }
        if fnpath_is_null(&fnpath) {
            val = J::s(const_str(&c.const_));
        }
        obj! {
            "c": val,
            "ty": if fnpath_is_null(&fnpath) { J::s(ty_str(cty)) } else { J::Null },
            "fn": fnpath,
            "ga": gargs,
            "cdef": cdef,
        }
    }

    pub fn operand(&self, o: &Operand<'tcx>) -> J {
        match o {
            Operand::Copy(p) => obj! {"cp": self.place(p)},
            Operand::Move(p) => obj! {"mv": self.place(p)},
            Operand::Constant(c) => self.konst(c),
            #[allow(unreachable_patterns)]
            _ => obj! {"other": J::s(format!("{:?}", o))},
        }
    }

    fn rvalue(&self, rv: &Rvalue<'tcx>) -> J {
        match rv {
            Rvalue::Use(o, ..) => obj! {"k": J::s("use"), "o": self.operand(o)},
            Rvalue::Repeat(o, _) => obj! {"k": J::s("repeat"), "o": self.operand(o)},
            Rvalue::Ref(_, bk, p) => obj! {
                "k": J::s("ref"),
                "mut": J::Bool(matches!(bk, BorrowKind::Mut { .. })),
                "fake": if matches!(bk, BorrowKind::Fake(_)) { J::Bool(true) } else { J::Null },
                "pl": self.place(p),
            },
            Rvalue::RawPtr(k, p) => obj! {
                "k": J::s("rawptr"),
                "mut": J::Bool(format!("{:?}", k).contains("Mut")),
                "pl": self.place(p),
            },
            Rvalue::ThreadLocalRef(d) => obj! {"k": J::s("tls"), "def": J::s(path_of(self.tcx, *d))},
            Rvalue::Cast(kind, o, t) => obj! {
                "k": J::s("cast"),
                "ck": J::s(format!("{:?}", kind)),
                "o": self.operand(o),
                "from": J::s(ty_str(o.ty(self.body, self.tcx))),
                "to": J::s(ty_str(*t)),
            },
            Rvalue::BinaryOp(op, ab) => obj! {
                "k": J::s("binop"),
                "op": J::s(format!("{:?}", op)),
                "a": self.operand(&ab.0),
                "b": self.operand(&ab.1),
                "ta": J::s(ty_str(ab.0.ty(self.body, self.tcx))),
                "tb": J::s(ty_str(ab.1.ty(self.body, self.tcx))),
            },
            Rvalue::UnaryOp(op, o) => obj! {
                "k": J::s("unop"),
                "op": J::s(format!("{:?}", op)),
                "o": self.operand(o),
                "ta": J::s(ty_str(o.ty(self.body, self.tcx))),
            },
            Rvalue::Discriminant(p) => obj! {
                "k": J::s("discr"),
                "pl": self.place(p),
                "ty": J::s(ty_str(p.ty(self.body, self.tcx).ty)),
            },
            Rvalue::Aggregate(kind, ops) => {
                let ops_j: Vec<J> = ops.iter().map(|o| self.operand(o)).collect();
                match &**kind {
                    AggregateKind::Array(t) => obj! {"k": J::s("agg"), "ak": J::s("array"), "ty": J::s(ty_str(*t)), "ops": J::Arr(ops_j)},
                    AggregateKind::Tuple => obj! {"k": J::s("agg"), "ak": J::s("tuple"), "ops": J::Arr(ops_j)},
                    AggregateKind::Adt(did, vi, _args, _, active) => {
                        let adt = self.tcx.adt_def(*did);
                        let v = adt.variant(*vi);
                        let fields: Vec<J> = match active {
                            Some(f) => vec![J::s(v.fields[*f].name.to_string())],
                            None => v.fields.iter().map(|f| J::s(f.name.to_string())).collect(),
                        };
                        obj! {
                            "k": J::s("agg"),
                            "ak": J::s("adt"),
                            "adt": J::s(path_of(self.tcx, *did)),
                            "variant": J::s(v.name.to_string()),
                            "fields": J::Arr(fields),
                            "ops": J::Arr(ops_j),
                        }
                    }
                    AggregateKind::Closure(did, _) => obj! {"k": J::s("agg"), "ak": J::s("closure"), "def": J::s(path_of(self.tcx, *did)), "ops": J::Arr(ops_j)},
                    AggregateKind::Coroutine(did, _) => obj! {"k": J::s("agg"), "ak": J::s("coroutine"), "def": J::s(path_of(self.tcx, *did)), "ops": J::Arr(ops_j)},
                    AggregateKind::CoroutineClosure(did, _) => obj! {"k": J::s("agg"), "ak": J::s("coroutine_closure"), "def": J::s(path_of(self.tcx, *did)), "ops": J::Arr(ops_j)},
                    AggregateKind::RawPtr(..) => obj! {"k": J::s("agg"), "ak": J::s("rawptr"), "ops": J::Arr(ops_j)},
                }
            }
            Rvalue::CopyForDeref(p) => obj! {"k": J::s("use"), "o": obj!{"cp": self.place(p)}},
            other => obj! {"k": J::s("other"), "dbg": J::s(format!("{:?}", other))},
        }
    }

    fn stmt(&self, s: &Statement<'tcx>) -> Option<J> {
        let (line, file, exp) = self.loc(s.source_info.span);
        match &s.kind {
            StatementKind::Assign(b) => {
                let (pl, rv) = &**b;
                Some(obj! {
                    "k": J::s("assign"),
                    "lhs": self.place(pl),
                    "rv": self.rvalue(rv),
                    "line": line, "file": file, "exp": exp,
                })
            }
            StatementKind::SetDiscriminant { place, variant_index } => Some(obj! {
                "k": J::s("setdiscr"),
                "lhs": self.place(place),
                "variant": J::n(variant_index.as_usize()),
                "line": line, "file": file, "exp": exp,
            }),
            StatementKind::StorageDead(l) => Some(obj! {"k": J::s("dead"), "l": J::n(l.as_usize())}),
            StatementKind::StorageLive(_) => None,
            StatementKind::FakeRead(..) => None,
            StatementKind::AscribeUserType(..) => None,
            StatementKind::PlaceMention(..) => None,
            StatementKind::Coverage(..) => None,
            StatementKind::ConstEvalCounter => None,
            StatementKind::Nop => None,
            other => Some(obj! {"k": J::s("other"), "dbg": J::s(format!("{:?}", other))}),
        }
    }

    fn callee(&self, func: &Operand<'tcx>) -> J {
        let fty = func.ty(self.body, self.tcx);
        match fty.kind() {
            ty::FnDef(did, args) => {
                let decl = path_of(self.tcx, *did);
                let (resolved, rargs) = resolve(self.tcx, self.def, *did, args, false);
                let self_ty = match self.tcx.opt_associated_item(*did) {
                    Some(ai) => {
                        let container = ai.container_id(self.tcx);
                        if matches!(self.tcx.def_kind(container), rustc_hir::def::DefKind::Trait)
                            && !args.is_empty()
                        {
                            J::s(ty_str(args.type_at(0)))
                        } else {
                            J::Null
                        }
                    }
                    None => J::Null,
                };
                obj! {
                    "decl": J::s(decl),
                    "def": match resolved { Some(r) => J::s(path_of(self.tcx, r)), None => J::Null },
                    "ga": if args.is_empty() { J::Null } else { J::s(ty_str_args(self.tcx, args)) },
                    "rga": match rargs { Some(a) if !a.is_empty() => J::s(ty_str_args(self.tcx, a)), _ => J::Null },
                    "self": self_ty,
                }
            }
            _ => obj! {"indirect": self.operand(func), "ty": J::s(ty_str(fty))},
        }
    }

    fn term(&self, t: &Terminator<'tcx>) -> J {
        let (line, file, exp) = self.loc(t.source_info.span);
        let bbn = |b: BasicBlock| J::n(b.as_usize());
        let unwind_j = |u: &UnwindAction| match u {
            UnwindAction::Cleanup(b) => J::n(b.as_usize()),
            _ => J::Null,
        };
        let mut o = match &t.kind {
            TerminatorKind::Goto { target } => obj! {"k": J::s("goto"), "to": bbn(*target)},
            TerminatorKind::SwitchInt { discr, targets } => {
                let ts: Vec<J> = targets
                    .iter()
                    .map(|(v, b)| J::Arr(vec![J::Num(v as i128), bbn(b)]))
                    .collect();
                obj! {
                    "k": J::s("switch"),
                    "d": self.operand(discr),
                    "dty": J::s(ty_str(discr.ty(self.body, self.tcx))),
                    "ts": J::Arr(ts),
                    "else": bbn(targets.otherwise()),
                }
            }
            TerminatorKind::Return => obj! {"k": J::s("return")},
            TerminatorKind::Unreachable => obj! {"k": J::s("unreachable")},
            TerminatorKind::UnwindResume => obj! {"k": J::s("resume")},
            TerminatorKind::UnwindTerminate(_) => obj! {"k": J::s("terminate")},
            TerminatorKind::Drop { place, target, unwind, .. } => obj! {
                "k": J::s("drop"),
                "pl": self.place(place),
                "ty": J::s(ty_str(place.ty(self.body, self.tcx).ty)),
                "to": bbn(*target),
                "unwind": unwind_j(unwind),
            },
            TerminatorKind::Call { func, args, destination, target, unwind, call_source, .. } => {
                let a: Vec<J> = args.iter().map(|a| self.operand(&a.node)).collect();
                let at: Vec<J> = args
                    .iter()
                    .map(|a| J::s(ty_str(a.node.ty(self.body, self.tcx))))
                    .collect();
                obj! {
                    "k": J::s("call"),
                    "f": self.callee(func),
                    "a": J::Arr(a),
                    "at": J::Arr(at),
                    "dest": self.place(destination),
                    "dty": J::s(ty_str(destination.ty(self.body, self.tcx).ty)),
                    "to": match target { Some(b) => bbn(*b), None => J::Null },
                    "unwind": unwind_j(unwind),
                    "src": J::s(format!("{:?}", call_source)),
                }
            }
            TerminatorKind::TailCall { func, args, .. } => {
                let a: Vec<J> = args.iter().map(|a| self.operand(&a.node)).collect();
                obj! {"k": J::s("tailcall"), "f": self.callee(func), "a": J::Arr(a)}
            }
            TerminatorKind::Assert { cond, expected, msg, target, unwind } => obj! {
                "k": J::s("assert"),
                "cond": self.operand(cond),
                "expected": J::Bool(*expected),
                "msg": J::s(assert_kind(msg)),
                "to": bbn(*target),
                "unwind": unwind_j(unwind),
            },
            TerminatorKind::Yield { value, resume, drop, .. } => obj! {
                "k": J::s("yield"),
                "v": self.operand(value),
                "to": bbn(*resume),
                "drop": match drop { Some(b) => bbn(*b), None => J::Null },
            },
            TerminatorKind::CoroutineDrop => obj! {"k": J::s("coroutine_drop")},
            TerminatorKind::FalseEdge { real_target, imaginary_target } => obj! {
                "k": J::s("falseedge"), "to": bbn(*real_target), "imag": bbn(*imaginary_target),
            },
            TerminatorKind::FalseUnwind { real_target, unwind } => obj! {
                "k": J::s("falseunwind"), "to": bbn(*real_target), "unwind": unwind_j(unwind),
            },
            TerminatorKind::InlineAsm { .. } => obj! {"k": J::s("asm")},
        };
        if let J::Obj(v) = &mut o {
            v.push(("line", line));
            v.push(("file", file));
            v.push(("exp", exp));
        }
        o
    }
}

fn fnpath_is_null(j: &J) -> bool {
    matches!(j, J::Null)
}

fn assert_kind<'tcx>(m: &AssertMessage<'tcx>) -> String {
    let s = format!("{:?}", m);
    // Keep only the kind name: BoundsCheck, Overflow(Add, ..), DivisionByZero, ...
    let head: String = s.chars().take_while(|c| c.is_alphanumeric() || *c == '_').collect();
    if head == "Overflow" {
        let rest: String = s
            .chars()
            .skip(head.len() + 1)
            .take_while(|c| c.is_alphanumeric())
            .collect();
        return format!("Overflow({})", rest);
    }
    head
}

pub fn const_str<'tcx>(c: &Const<'tcx>) -> String {
    use rustc_middle::ty::print::{with_no_trimmed_paths, with_no_visible_paths, with_resolve_crate_name};
    with_resolve_crate_name!(with_no_visible_paths!(with_no_trimmed_paths!(format!("{}", c))))
}

pub fn ty_str_args<'tcx>(_tcx: TyCtxt<'tcx>, args: ty::GenericArgsRef<'tcx>) -> String {
    use rustc_middle::ty::print::{with_no_trimmed_paths, with_no_visible_paths, with_resolve_crate_name};
    let parts: Vec<String> = args
        .iter()
        .filter_map(|a| {
            if let Some(t) = a.as_type() {
                Some(with_resolve_crate_name!(with_no_visible_paths!(with_no_trimmed_paths!(t.to_string()))))
            } else if let Some(c) = a.as_const() {
                Some(format!("{}", c))
            } else {
                None
            }
        })
        .collect();
    parts.join(", ")
}

/// Resolve a (possibly trait) callee to the concrete definition when the
/// generic arguments determine it.
pub fn resolve<'tcx>(
    tcx: TyCtxt<'tcx>,
    ctx: LocalDefId,
    did: DefId,
    args: ty::GenericArgsRef<'tcx>,
    post: bool,
) -> (Option<DefId>, Option<ty::GenericArgsRef<'tcx>>) {
    // Inside `mir_built` opaque types must not be revealed (query cycle), so the
    // MIR side resolves under non-body analysis; the HIR side (after analysis)
    // resolves under post-analysis.
    let typing_env = if post {
        TypingEnv::post_analysis(tcx, ctx.to_def_id())
    } else {
        TypingEnv::non_body_analysis(tcx, ctx.to_def_id())
    };
    let args = match tcx.try_normalize_erasing_regions(typing_env, ty::Unnormalized::new_wip(args)) {
        Ok(a) => a,
        Err(_) => return (None, None),
    };
    if args.has_infer() {
        return (None, None);
    }
    match Instance::try_resolve(tcx, typing_env, did, args) {
        Ok(Some(inst)) => (Some(inst.def_id()), Some(inst.args)),
        _ => (None, None),
    }
}

use rustc_middle::ty::TypeVisitableExt;

#[allow(dead_code)]
fn _unused<'tcx>(_: Ty<'tcx>) {}
