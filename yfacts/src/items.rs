//! Item facts: ADTs (variants in declaration order, fields, types), impls, fn
//! signatures, and type walks (reachable types from a root, with Freeze info).

use crate::json::J;
use crate::obj;
use crate::{path_of, span_loc, ty_str};
use rustc_hir::def::DefKind;
use rustc_middle::ty::{self, Ty, TyCtxt, TypingEnv};
use rustc_middle::ty::print::PrintTraitRefExt;
use std::collections::{BTreeMap, VecDeque};

pub fn dump_all<'tcx>(tcx: TyCtxt<'tcx>) -> J {
    let mut adts = vec![];
    let mut impls = vec![];
    let mut fns = vec![];
    let mut traits = vec![];
    for id in tcx.hir_crate_items(()).definitions() {
        let did = id.to_def_id();
        match tcx.def_kind(did) {
            DefKind::Struct | DefKind::Enum | DefKind::Union => {
                let adt = tcx.adt_def(did);
                let (file, line) = span_loc(tcx, tcx.def_span(did));
                let variants: Vec<J> = adt
                    .variants()
                    .iter()
                    .map(|v| {
                        let fields: Vec<J> = v
                            .fields
                            .iter()
                            .map(|f| {
                                obj! {
                                    "name": J::s(f.name.to_string()),
                                    "ty": J::s(ty_str(tcx.type_of(f.did).instantiate_identity().skip_norm_wip())),
                                    "vis": J::s(vis_str(tcx, f.vis)),
                                }
                            })
                            .collect();
                        obj! {
                            "name": J::s(v.name.to_string()),
                            "fields": J::Arr(fields),
                            "ctor": J::s(format!("{:?}", v.ctor_kind())),
                        }
                    })
                    .collect();
                adts.push(obj! {
                    "path": J::s(path_of(tcx, did)),
                    "kind": J::s(format!("{:?}", tcx.def_kind(did))),
                    "vis": J::s(vis_str(tcx, tcx.visibility(did))),
                    "file": J::s(file), "line": J::n(line),
                    "variants": J::Arr(variants),
                });
            }
            DefKind::Impl { of_trait } => {
                let self_ty = tcx.type_of(did).instantiate_identity().skip_norm_wip();
                let trait_path = if of_trait {
                    let tr = tcx.impl_trait_ref(did).instantiate_identity().skip_norm_wip();
                    J::s(ty_str_traitref(tcx, tr))
                } else {
                    J::Null
                };
                let trait_def = if of_trait {
                    let tr = tcx.impl_trait_ref(did).instantiate_identity().skip_norm_wip();
                    J::s(path_of(tcx, tr.def_id))
                } else {
                    J::Null
                };
                let self_adt = match peel(self_ty).kind() {
                    ty::Adt(d, _) => J::s(path_of(tcx, d.did())),
                    _ => J::Null,
                };
                let methods: Vec<J> = tcx
                    .associated_items(did)
                    .in_definition_order()
                    .map(|ai| {
                        obj! {
                            "name": J::s(ai.opt_name().map(|n| n.to_string()).unwrap_or_default()),
                            "kind": J::s(format!("{:?}", ai.tag())),
                            "def": J::s(path_of(tcx, ai.def_id)),
                        }
                    })
                    .collect();
                let (file, line) = span_loc(tcx, tcx.def_span(did));
                impls.push(obj! {
                    "self": J::s(ty_str(self_ty)),
                    "self_adt": self_adt,
                    "trait": trait_path,
                    "trait_def": trait_def,
                    "items": J::Arr(methods),
                    "file": J::s(file), "line": J::n(line),
                });
            }
            DefKind::Fn | DefKind::AssocFn => {
                let sig = tcx.fn_sig(did).instantiate_identity().skip_norm_wip().skip_binder();
                let (file, line) = span_loc(tcx, tcx.def_span(did));
                let container = match tcx.opt_associated_item(did) {
                    Some(ai) => {
                        let c = ai.container_id(tcx);
                        J::s(format!("{:?}:{}", tcx.def_kind(c), path_of(tcx, c)))
                    }
                    None => J::Null,
                };
                fns.push(obj! {
                    "path": J::s(path_of(tcx, did)),
                    "vis": J::s(vis_str(tcx, tcx.visibility(did))),
                    "inputs": J::Arr(sig.inputs().iter().map(|t| J::s(ty_str(*t))).collect()),
                    "output": J::s(ty_str(sig.output())),
                    "async": if tcx.asyncness(did).is_async() { J::Bool(true) } else { J::Null },
                    "container": container,
                    "file": J::s(file), "line": J::n(line),
                });
            }
            DefKind::Trait => {
                let methods: Vec<J> = tcx
                    .associated_items(did)
                    .in_definition_order()
                    .map(|ai| {
                        obj! {
                            "name": J::s(ai.opt_name().map(|n| n.to_string()).unwrap_or_default()),
                            "kind": J::s(format!("{:?}", ai.tag())),
                            "default": J::Bool(ai.defaultness(tcx).has_value()),
                        }
                    })
                    .collect();
                traits.push(obj! {"path": J::s(path_of(tcx, did)), "items": J::Arr(methods)});
            }
            _ => {}
        }
    }
    obj! {"adts": J::Arr(adts), "impls": J::Arr(impls), "fns": J::Arr(fns), "traits": J::Arr(traits)}
}

fn peel<'tcx>(mut t: Ty<'tcx>) -> Ty<'tcx> {
    while let ty::Ref(_, inner, _) = t.kind() {
        t = *inner;
    }
    t
}

fn ty_str_traitref<'tcx>(_tcx: TyCtxt<'tcx>, tr: ty::TraitRef<'tcx>) -> String {
    use rustc_middle::ty::print::{with_no_trimmed_paths, with_no_visible_paths, with_resolve_crate_name};
    with_resolve_crate_name!(with_no_visible_paths!(with_no_trimmed_paths!(format!("{}", tr.print_only_trait_path()))))
}

fn vis_str<'tcx, I: std::fmt::Debug>(_tcx: TyCtxt<'tcx>, v: ty::Visibility<I>) -> String {
    match v {
        ty::Visibility::Public => "pub".to_string(),
        ty::Visibility::Restricted(id) => format!("restricted({:?})", id),
    }
}

/// YFACTS_TYPEWALK="path::To::Type,other::Type": for each local ADT whose path is
/// listed, walk every type reachable through fields (identity substitution at the
/// root, concrete substitution below), reporting shared-pointer shapes and Freeze.
pub fn type_walks<'tcx>(tcx: TyCtxt<'tcx>) -> J {
    let want: Vec<String> = std::env::var("YFACTS_TYPEWALK")
        .unwrap_or_default()
        .split(',')
        .map(|s| s.trim().to_string())
        .filter(|s| !s.is_empty())
        .collect();
    let mut out = vec![];
    if want.is_empty() {
        return J::Arr(out);
    }
    for id in tcx.hir_crate_items(()).definitions() {
        let did = id.to_def_id();
        if !matches!(tcx.def_kind(did), DefKind::Struct | DefKind::Enum) {
            continue;
        }
        let p = path_of(tcx, did);
        if !want.contains(&p) {
            continue;
        }
        let root = tcx.type_of(did).instantiate_identity().skip_norm_wip();
        out.push(obj! {"root": J::s(p), "nodes": walk(tcx, did, root)});
    }
    J::Arr(out)
}

fn walk<'tcx>(tcx: TyCtxt<'tcx>, ctx: rustc_span::def_id::DefId, root: Ty<'tcx>) -> J {
    let typing_env = TypingEnv::post_analysis(tcx, ctx);
    let mut seen: BTreeMap<String, ()> = BTreeMap::new();
    let mut queue: VecDeque<(Ty<'tcx>, String)> = VecDeque::new();
    queue.push_back((root, String::new()));
    let mut nodes = vec![];
    while let Some((t, via)) = queue.pop_front() {
        let t = tcx.try_normalize_erasing_regions(typing_env, ty::Unnormalized::new_wip(t)).unwrap_or(t);
        let key = ty_str(t);
        if seen.contains_key(&key) {
            continue;
        }
        seen.insert(key.clone(), ());
        let freeze = t.is_freeze(tcx, typing_env);
        let mut children: Vec<(Ty<'tcx>, String)> = vec![];
        let mut shape = "other";
        let mut adt_path = J::Null;
        match t.kind() {
            ty::Adt(def, args) => {
                shape = "adt";
                adt_path = J::s(path_of(tcx, def.did()));
                let ap = path_of(tcx, def.did());
                let opaque_std = ap.starts_with("std::") || ap.starts_with("alloc::") || ap.starts_with("core::");
                if opaque_std {
                    // do not look inside std containers; follow their type arguments
                    shape = "std";
                    for a in args.iter() {
                        if let Some(at) = a.as_type() {
                            children.push((at, format!("{}<..>", ap)));
                        }
                    }
                } else {
                    for v in def.variants().iter() {
                        for f in v.fields.iter() {
                            let fty = f.ty(tcx, args);
                            children.push((fty, format!("{}::{}.{}", ap, v.name, f.name)));
                        }
                    }
                }
            }
            ty::Ref(_, inner, m) => {
                shape = if m.is_mut() { "refmut" } else { "ref" };
                children.push((*inner, format!("&{}", key)));
            }
            ty::RawPtr(inner, _) => {
                shape = "rawptr";
                children.push((*inner, "*".to_string()));
            }
            ty::Tuple(ts) => {
                shape = "tuple";
                for x in ts.iter() {
                    children.push((x, "tuple".to_string()));
                }
            }
            ty::Array(inner, _) | ty::Slice(inner) => {
                shape = "array";
                children.push((*inner, "[]".to_string()));
            }
            ty::Dynamic(..) => shape = "dyn",
            ty::FnPtr(..) => shape = "fnptr",
            ty::Param(_) => shape = "param",
            ty::Alias(..) => shape = "alias",
            ty::Closure(..) | ty::Coroutine(..) => shape = "closure",
            _ => {}
        }
        nodes.push(obj! {
            "ty": J::s(key.clone()),
            "shape": J::s(shape),
            "adt": adt_path,
            "freeze": J::Bool(freeze),
            "via": J::s(via),
            "children": J::Arr(children.iter().map(|(c, _)| J::s(ty_str(*c))).collect()),
        });
        for c in children {
            queue.push_back(c);
        }
    }
    J::Arr(nodes)
}
