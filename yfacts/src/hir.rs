//! HIR facts: for every non-closure body owner (fn, method, const, static) the
//! expression tree with resolved paths, resolved method callees, patterns with
//! resolved variants, literals, and the common desugarings (`?`, `.await`, `for`)
//! folded back into single nodes.

use crate::json::J;
use crate::obj;
use crate::{path_of, span_loc, ty_str};
use rustc_hir as h;
use rustc_hir::def::{DefKind, Res};
use rustc_middle::ty::{self, TyCtxt, TypeckResults};
use rustc_span::def_id::LocalDefId;

struct Cx<'tcx> {
    tcx: TyCtxt<'tcx>,
    tr: &'tcx TypeckResults<'tcx>,
    owner: LocalDefId,
    file: String,
}

pub fn dump_all<'tcx>(tcx: TyCtxt<'tcx>) -> J {
    let mut out = vec![];
    for def in tcx.hir_body_owners() {
        let did = def.to_def_id();
        if tcx.typeck_root_def_id(did) != did {
            continue; // closures are dumped inside their parent
        }
        let kind = tcx.def_kind(did);
        let body = match tcx.hir_maybe_body_owned_by(def) {
            Some(b) => b,
            None => continue,
        };
        let tr = tcx.typeck(def);
        let (file, line) = span_loc(tcx, tcx.def_span(did));
        let cx = Cx { tcx, tr, owner: def, file: file.clone() };
        let params: Vec<J> = body.params.iter().map(|p| cx.pat(p.pat)).collect();
        let value = cx.expr(body.value);
        let in_test = is_test_item(tcx, def);
        out.push(obj! {
            "fn": J::s(path_of(tcx, did)),
            "kind": J::s(format!("{:?}", kind)),
            "file": J::s(file),
            "line": J::n(line),
            "test": if in_test { J::Bool(true) } else { J::Null },
            "params": J::Arr(params),
            "body": value,
        });
    }
    J::Arr(out)
}

fn is_test_item<'tcx>(_tcx: TyCtxt<'tcx>, _def: LocalDefId) -> bool {
    false // cfg(test) code is not compiled under `cargo check` of lib targets
}

impl<'tcx> Cx<'tcx> {
    fn line(&self, sp: rustc_span::Span) -> J {
        let (f, l) = span_loc(self.tcx, sp);
        if f == self.file {
            J::n(l)
        } else {
            J::s(format!("{}:{}", f, l))
        }
    }

    fn res(&self, res: Res) -> J {
        match res {
            Res::Local(id) => {
                let name = self.tcx.hir_name(id).to_string();
                obj! {"k": J::s("local"), "name": J::s(name), "id": J::n(id.local_id.as_u32())}
            }
            Res::Def(kind, did) => {
                // A constructor resolves to its variant / struct.
                let (kind_s, did2) = match kind {
                    DefKind::Ctor(of, _) => {
                        let parent = self.tcx.parent(did);
                        (format!("Ctor{:?}", of), parent)
                    }
                    k => (format!("{:?}", k), did),
                };
                obj! {"k": J::s("path"), "dk": J::s(kind_s), "def": J::s(path_of(self.tcx, did2))}
            }
            Res::SelfCtor(did) | Res::SelfTyAlias { alias_to: did, .. } => {
                obj! {"k": J::s("path"), "dk": J::s("SelfCtor"), "def": J::s(path_of(self.tcx, did))}
            }
            Res::SelfTyParam { .. } => obj! {"k": J::s("path"), "dk": J::s("SelfTyParam")},
            Res::PrimTy(p) => obj! {"k": J::s("path"), "dk": J::s("PrimTy"), "def": J::s(format!("{:?}", p))},
            other => obj! {"k": J::s("path"), "dk": J::s(format!("{:?}", other))},
        }
    }

    fn qpath(&self, qp: &h::QPath<'tcx>, id: h::HirId) -> J {
        let res = self.tr.qpath_res(qp, id);
        self.res(res)
    }

    fn lit(&self, l: &h::Lit) -> J {
        use rustc_ast::LitKind;
        match &l.node {
            LitKind::Str(s, _) => obj! {"k": J::s("lit"), "t": J::s("str"), "v": J::s(s.to_string())},
            LitKind::ByteStr(b, _) | LitKind::CStr(b, _) => {
                obj! {"k": J::s("lit"), "t": J::s("bytes"), "v": J::s(String::from_utf8_lossy(b.as_byte_str()).to_string())}
            }
            LitKind::Byte(b) => obj! {"k": J::s("lit"), "t": J::s("byte"), "v": J::n(*b)},
            LitKind::Char(c) => obj! {"k": J::s("lit"), "t": J::s("char"), "v": J::s(c.to_string())},
            LitKind::Int(n, _) => obj! {"k": J::s("lit"), "t": J::s("int"), "v": J::Num(n.get() as i128)},
            LitKind::Float(s, _) => obj! {"k": J::s("lit"), "t": J::s("float"), "v": J::s(s.to_string())},
            LitKind::Bool(b) => obj! {"k": J::s("lit"), "t": J::s("bool"), "v": J::Bool(*b)},
            LitKind::Err(_) => obj! {"k": J::s("lit"), "t": J::s("err")},
        }
    }

    fn pat_expr(&self, e: &h::PatExpr<'tcx>) -> J {
        match &e.kind {
            h::PatExprKind::Lit { lit, negated } => {
                let mut j = self.lit(lit);
                if *negated {
                    if let J::Obj(v) = &mut j {
                        v.push(("neg", J::Bool(true)));
                    }
                }
                j
            }
            h::PatExprKind::Path(qp) => self.qpath(qp, e.hir_id),
            #[allow(unreachable_patterns)]
            _ => obj! {"k": J::s("patexpr_other")},
        }
    }

    fn pat(&self, p: &h::Pat<'tcx>) -> J {
        use h::PatKind as P;
        match &p.kind {
            P::Wild | P::Missing => obj! {"k": J::s("wild")},
            P::Never => obj! {"k": J::s("never")},
            P::Binding(mode, id, ident, sub) => obj! {
                "k": J::s("bind"),
                "name": J::s(ident.name.to_string()),
                "id": J::n(id.local_id.as_u32()),
                "mode": J::s(format!("{:?}", mode)),
                "sub": match sub { Some(s) => self.pat(s), None => J::Null },
            },
            P::Struct(qp, fields, _rest) => {
                let fs: Vec<J> = fields
                    .iter()
                    .map(|f| J::Arr(vec![J::s(f.ident.name.to_string()), self.pat(f.pat)]))
                    .collect();
                obj! {"k": J::s("pstruct"), "p": self.qpath(qp, p.hir_id), "fields": J::Arr(fs)}
            }
            P::TupleStruct(qp, pats, ddpos) => {
                let ps: Vec<J> = pats.iter().map(|x| self.pat(x)).collect();
                obj! {
                    "k": J::s("ptuplestruct"),
                    "p": self.qpath(qp, p.hir_id),
                    "sub": J::Arr(ps),
                    "dd": match ddpos.as_opt_usize() { Some(n) => J::n(n), None => J::Null },
                }
            }
            P::Or(pats) => obj! {"k": J::s("por"), "alts": J::Arr(pats.iter().map(|x| self.pat(x)).collect())},
            P::Tuple(pats, ddpos) => obj! {
                "k": J::s("ptuple"),
                "sub": J::Arr(pats.iter().map(|x| self.pat(x)).collect()),
                "dd": match ddpos.as_opt_usize() { Some(n) => J::n(n), None => J::Null },
            },
            P::Box(x) => obj! {"k": J::s("pbox"), "sub": self.pat(x)},
            P::Deref(x) => obj! {"k": J::s("pderef"), "sub": self.pat(x)},
            P::Ref(x, ..) => obj! {"k": J::s("pref"), "sub": self.pat(x)},
            P::Expr(e) => obj! {"k": J::s("pexpr"), "e": self.pat_expr(e)},
            P::Guard(x, g) => obj! {"k": J::s("pguard"), "sub": self.pat(x), "guard": self.expr(g)},
            P::Range(lo, hi, end) => obj! {
                "k": J::s("prange"),
                "lo": match lo { Some(e) => self.pat_expr(e), None => J::Null },
                "hi": match hi { Some(e) => self.pat_expr(e), None => J::Null },
                "incl": J::Bool(matches!(end, h::RangeEnd::Included)),
            },
            P::Slice(a, mid, b) => obj! {
                "k": J::s("pslice"),
                "before": J::Arr(a.iter().map(|x| self.pat(x)).collect()),
                "mid": match mid { Some(m) => self.pat(m), None => J::Null },
                "after": J::Arr(b.iter().map(|x| self.pat(x)).collect()),
            },
            P::Err(_) => obj! {"k": J::s("perr")},
        }
    }

    fn block(&self, b: &h::Block<'tcx>) -> J {
        let mut stmts = vec![];
        for s in b.stmts {
            match &s.kind {
                h::StmtKind::Let(l) => stmts.push(obj! {
                    "k": J::s("let"),
                    "pat": self.pat(l.pat),
                    "init": match l.init { Some(e) => self.expr(e), None => J::Null },
                    "els": match l.els { Some(b) => self.block(b), None => J::Null },
                    "ty": J::s(ty_str(self.tr.pat_ty(l.pat))),
                    "line": self.line(s.span),
                }),
                h::StmtKind::Item(_) => {}
                h::StmtKind::Expr(e) | h::StmtKind::Semi(e) => {
                    stmts.push(obj! {"k": J::s("stmt"), "e": self.expr(e), "semi": J::Bool(matches!(s.kind, h::StmtKind::Semi(_)))})
                }
            }
        }
        obj! {
            "k": J::s("block"),
            "stmts": J::Arr(stmts),
            "e": match b.expr { Some(e) => self.expr(e), None => J::Null },
        }
    }

    fn callee_of(&self, did: rustc_span::def_id::DefId, args: ty::GenericArgsRef<'tcx>) -> (J, J, J) {
        let decl = J::s(path_of(self.tcx, did));
        let (r, _) = crate::mir::resolve(self.tcx, self.owner, did, args, true);
        let def = match r {
            Some(r) => J::s(path_of(self.tcx, r)),
            None => J::Null,
        };
        let ga = if args.is_empty() { J::Null } else { J::s(crate::mir::ty_str_args(self.tcx, args)) };
        (decl, def, ga)
    }

    fn expr(&self, e: &h::Expr<'tcx>) -> J {
        use h::ExprKind as E;
        let line = self.line(e.span);
        let mut j = match &e.kind {
            E::Lit(l) => self.lit(l),
            E::Path(qp) => {
                let mut j = self.qpath(qp, e.hir_id);
                // generic args of fn items / consts referenced by path
                if let J::Obj(v) = &mut j {
                    let ty = self.tr.expr_ty(e);
                    if let ty::FnDef(did, args) = ty.kind() {
                        let (_, def, ga) = self.callee_of(*did, args);
                        v.push(("rdef", def));
                        v.push(("ga", ga));
                    }
                }
                j
            }
            E::Call(f, args) => {
                let fty = self.tr.expr_ty_adjusted(f);
                let (decl, def, ga) = match fty.kind() {
                    ty::FnDef(did, gargs) => self.callee_of(*did, gargs),
                    _ => (J::Null, J::Null, J::Null),
                };
                let is_path_callee = matches!(f.kind, E::Path(_)) && !matches!(decl, J::Null);
                obj! {
                    "k": J::s("call"),
                    "decl": decl, "def": def, "ga": ga,
                    "f": if is_path_callee { J::Null } else { self.expr(f) },
                    "ctor": if is_path_callee { self.ctor_of(f) } else { J::Null },
                    "a": J::Arr(args.iter().map(|a| self.expr(a)).collect()),
                    "ty": J::s(ty_str(self.tr.expr_ty(e))),
                }
            }
            E::MethodCall(seg, recv, args, _) => {
                let (decl, def, ga) = match self.tr.type_dependent_def_id(e.hir_id) {
                    Some(did) => self.callee_of(did, self.tr.node_args(e.hir_id)),
                    None => (J::Null, J::Null, J::Null),
                };
                obj! {
                    "k": J::s("mcall"),
                    "name": J::s(seg.ident.name.to_string()),
                    "decl": decl, "def": def, "ga": ga,
                    "recv": self.expr(recv),
                    "rty": J::s(ty_str(self.tr.expr_ty_adjusted(recv))),
                    "a": J::Arr(args.iter().map(|a| self.expr(a)).collect()),
                    "ty": J::s(ty_str(self.tr.expr_ty(e))),
                }
            }
            E::Array(xs) => obj! {"k": J::s("array"), "a": J::Arr(xs.iter().map(|x| self.expr(x)).collect())},
            E::Tup(xs) => obj! {"k": J::s("tup"), "a": J::Arr(xs.iter().map(|x| self.expr(x)).collect())},
            E::Binary(op, a, b) => {
                let (decl, def, _) = match self.tr.type_dependent_def_id(e.hir_id) {
                    Some(did) => self.callee_of(did, self.tr.node_args(e.hir_id)),
                    None => (J::Null, J::Null, J::Null),
                };
                obj! {
                    "k": J::s("binary"), "op": J::s(op.node.as_str()),
                    "a": self.expr(a), "b": self.expr(b),
                    "ta": J::s(ty_str(self.tr.expr_ty_adjusted(a))),
                    "decl": decl, "def": def,
                }
            }
            E::Unary(op, a) => obj! {
                "k": J::s("unary"), "op": J::s(op.as_str()), "a": self.expr(a),
                "ta": J::s(ty_str(self.tr.expr_ty_adjusted(a))),
            },
            E::Cast(a, _) => obj! {"k": J::s("cast"), "a": self.expr(a), "ty": J::s(ty_str(self.tr.expr_ty(e)))},
            E::Type(a, _) => self.expr(a),
            E::DropTemps(a) => self.expr(a),
            E::Use(a, _) => self.expr(a),
            E::Let(l) => obj! {
                "k": J::s("letexpr"), "pat": self.pat(l.pat), "init": self.expr(l.init),
                "ty": J::s(ty_str(self.tr.expr_ty_adjusted(l.init))),
            },
            E::If(c, t, f) => obj! {
                "k": J::s("if"), "c": self.expr(c), "t": self.expr(t),
                "f": match f { Some(x) => self.expr(x), None => J::Null },
            },
            E::Loop(b, label, src, _) => {
                if let h::LoopSource::ForLoop = src {
                    // handled at the enclosing Match (ForLoopDesugar); fallthrough raw
                }
                obj! {
                    "k": J::s("loop"),
                    "src": J::s(format!("{:?}", src)),
                    "label": match label { Some(l) => J::s(l.ident.name.to_string()), None => J::Null },
                    "body": self.block(b),
                }
            }
            E::Match(scrut, arms, src) => self.match_expr(e, scrut, arms, *src),
            E::Closure(c) => {
                let body = self.tcx.hir_body(c.body);
                let cdid = c.def_id;
                // closure bodies share the typeck results of their root
                obj! {
                    "k": J::s("closure"),
                    "def": J::s(path_of(self.tcx, cdid.to_def_id())),
                    "ckind": J::s(format!("{:?}", c.kind)),
                    "params": J::Arr(body.params.iter().map(|p| self.pat(p.pat)).collect()),
                    "body": self.expr(body.value),
                }
            }
            E::Block(b, label) => {
                let mut j = self.block(b);
                if let (J::Obj(v), Some(l)) = (&mut j, label) {
                    v.push(("label", J::s(l.ident.name.to_string())));
                }
                j
            }
            E::Assign(l, r, _) => obj! {"k": J::s("assign"), "l": self.expr(l), "r": self.expr(r)},
            E::AssignOp(op, l, r) => obj! {"k": J::s("assignop"), "op": J::s(op.node.as_str()), "l": self.expr(l), "r": self.expr(r), "ta": J::s(ty_str(self.tr.expr_ty_adjusted(l)))},
            E::Field(base, ident) => {
                let bty = self.tr.expr_ty_adjusted(base);
                let mut t = bty;
                while let ty::Ref(_, inner, _) = t.kind() {
                    t = *inner;
                }
                let adt = match t.kind() {
                    ty::Adt(d, _) => J::s(path_of(self.tcx, d.did())),
                    _ => J::Null,
                };
                obj! {
                    "k": J::s("field"), "name": J::s(ident.name.to_string()),
                    "adt": adt, "base": self.expr(base),
                    "ty": J::s(ty_str(self.tr.expr_ty(e))),
                }
            }
            E::Index(a, i, _) => obj! {
                "k": J::s("index"), "a": self.expr(a), "i": self.expr(i),
                "ta": J::s(ty_str(self.tr.expr_ty_adjusted(a))),
            },
            E::AddrOf(_, m, a) => obj! {"k": J::s("ref"), "mut": J::Bool(m.is_mut()), "a": self.expr(a)},
            E::Break(dest, v) => obj! {
                "k": J::s("break"),
                "label": match dest.label { Some(l) => J::s(l.ident.name.to_string()), None => J::Null },
                "e": match v { Some(x) => self.expr(x), None => J::Null },
            },
            E::Continue(dest) => obj! {
                "k": J::s("continue"),
                "label": match dest.label { Some(l) => J::s(l.ident.name.to_string()), None => J::Null },
            },
            E::Ret(v) => obj! {"k": J::s("ret"), "e": match v { Some(x) => self.expr(x), None => J::Null }},
            E::Become(v) => obj! {"k": J::s("become"), "e": self.expr(v)},
            E::Struct(qp, fields, base) => {
                let fs: Vec<J> = fields
                    .iter()
                    .map(|f| J::Arr(vec![J::s(f.ident.name.to_string()), self.expr(f.expr)]))
                    .collect();
                let base_j = match base {
                    h::StructTailExpr::Base(b) => self.expr(b),
                    h::StructTailExpr::DefaultFields(_) => J::s("default_fields"),
                    _ => J::Null,
                };
                obj! {
                    "k": J::s("struct"), "p": self.qpath(qp, e.hir_id),
                    "fields": J::Arr(fs), "base": base_j,
                    "ty": J::s(ty_str(self.tr.expr_ty(e))),
                }
            }
            E::Repeat(a, _) => obj! {"k": J::s("repeat"), "a": self.expr(a)},
            E::Yield(a, src) => obj! {"k": J::s("yield"), "a": self.expr(a), "src": J::s(format!("{:?}", src))},
            E::ConstBlock(c) => {
                let body = self.tcx.hir_body(c.body);
                obj! {"k": J::s("constblock"), "body": self.expr(body.value)}
            }
            E::InlineAsm(_) => obj! {"k": J::s("asm")},
            E::OffsetOf(..) => obj! {"k": J::s("offsetof")},
            E::UnsafeBinderCast(_, a, _) => self.expr(a),
            E::Err(_) => obj! {"k": J::s("err")},
        };
        if let J::Obj(v) = &mut j {
            if !v.iter().any(|(k, _)| *k == "line") {
                v.push(("line", line));
            }
            if e.span.from_expansion() {
                v.push(("exp", J::Bool(true)));
            }
        }
        j
    }

    fn ctor_of(&self, f: &h::Expr<'tcx>) -> J {
        if let h::ExprKind::Path(qp) = &f.kind {
            if let Res::Def(DefKind::Ctor(of, _), did) = self.tr.qpath_res(qp, f.hir_id) {
                let parent = self.tcx.parent(did);
                return obj! {"of": J::s(format!("{:?}", of)), "def": J::s(path_of(self.tcx, parent))};
            }
            if let Res::SelfCtor(did) = self.tr.qpath_res(qp, f.hir_id) {
                return obj! {"of": J::s("SelfCtor"), "def": J::s(path_of(self.tcx, did))};
            }
        }
        J::Null
    }

    fn arms(&self, arms: &[h::Arm<'tcx>]) -> J {
        J::Arr(
            arms.iter()
                .map(|a| {
                    obj! {
                        "pat": self.pat(a.pat),
                        "guard": match a.guard { Some(g) => self.expr(g), None => J::Null },
                        "body": self.expr(a.body),
                        "line": self.line(a.span),
                    }
                })
                .collect(),
        )
    }

    fn match_expr(
        &self,
        e: &h::Expr<'tcx>,
        scrut: &h::Expr<'tcx>,
        arms: &[h::Arm<'tcx>],
        src: h::MatchSource,
    ) -> J {
        use h::ExprKind as E;
        match src {
            h::MatchSource::TryDesugar(_) => {
                // match Try::branch(<inner>) { Continue(v) => v, Break(r) => return from_residual(r) }
                if let E::Call(_, args) = &scrut.kind {
                    if let Some(inner) = args.first() {
                        return obj! {
                            "k": J::s("try"),
                            "e": self.expr(inner),
                            "ety": J::s(ty_str(self.tr.expr_ty_adjusted(inner))),
                            "ty": J::s(ty_str(self.tr.expr_ty(e))),
                        };
                    }
                }
            }
            h::MatchSource::AwaitDesugar => {
                // match IntoFuture::into_future(<inner>) { mut __awaitee => loop { .. } }
                if let E::Call(_, args) = &scrut.kind {
                    if let Some(inner) = args.first() {
                        return obj! {
                            "k": J::s("await"),
                            "e": self.expr(inner),
                            "ty": J::s(ty_str(self.tr.expr_ty(e))),
                        };
                    }
                }
            }
            h::MatchSource::ForLoopDesugar => {
                // match IntoIterator::into_iter(<iter>) { mut iter => loop { match next(&mut iter) { None => break, Some(<pat>) => <body> } } }
                if let (E::Call(_, args), [arm]) = (&scrut.kind, arms) {
                    if let (Some(iter), E::Loop(lb, label, _, _)) = (args.first(), &arm.body.kind) {
                        let inner = lb.expr.or_else(|| {
                            lb.stmts.first().and_then(|s| match s.kind {
                                h::StmtKind::Expr(x) | h::StmtKind::Semi(x) => Some(x),
                                _ => None,
                            })
                        });
                        if let Some(h::Expr { kind: E::Match(_, inner_arms, _), .. }) = inner {
                            if let Some(some_arm) = inner_arms.get(1) {
                                let pat = match &some_arm.pat.kind {
                                    h::PatKind::TupleStruct(_, [p], _) => self.pat(p),
                                    h::PatKind::Struct(_, [f], _) => self.pat(f.pat),
                                    _ => self.pat(some_arm.pat),
                                };
                                return obj! {
                                    "k": J::s("for"),
                                    "pat": pat,
                                    "iter": self.expr(iter),
                                    "ity": J::s(ty_str(self.tr.expr_ty_adjusted(iter))),
                                    "label": match label { Some(l) => J::s(l.ident.name.to_string()), None => J::Null },
                                    "body": self.expr(some_arm.body),
                                };
                            }
                        }
                    }
                }
            }
            _ => {}
        }
        obj! {
            "k": J::s("match"),
            "src": J::s(format!("{:?}", src)),
            "scrut": self.expr(scrut),
            "sty": J::s(ty_str(self.tr.expr_ty_adjusted(scrut))),
            "arms": self.arms(arms),
        }
    }
}
