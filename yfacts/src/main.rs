//! yfacts: a rustc_private driver that emits, for every crate of the workspace it is
//! injected into (RUSTC_WORKSPACE_WRAPPER), one JSON fact file with
//!   * pre-coroutine-lowering MIR of every body (taken inside an overridden
//!     `mir_built` query, see DESIGN.md 2.1),
//!   * the HIR expression tree of every body owner with resolved paths/callees,
//!   * items: enums, structs, impls, fn signatures,
//!   * type walks requested through YFACTS_TYPEWALK.
//! Nothing is executed; the facts are what the rule engine (ycheck) decides on.
#![feature(rustc_private)]
#![allow(clippy::all)]

extern crate rustc_abi;
extern crate rustc_ast;
extern crate rustc_data_structures;
extern crate rustc_driver;
extern crate rustc_hir;
extern crate rustc_interface;
extern crate rustc_middle;
extern crate rustc_session;
extern crate rustc_span;

mod hir;
mod items;
mod json;
mod mir;

use json::J;
use rustc_data_structures::steal::Steal;
use rustc_driver::Compilation;
use rustc_middle::mir::Body;
use rustc_middle::ty::TyCtxt;
use rustc_span::def_id::LocalDefId;
use std::sync::{Mutex, OnceLock};

type MirBuiltFn = for<'tcx> fn(TyCtxt<'tcx>, LocalDefId) -> &'tcx Steal<Body<'tcx>>;
static ORIG_MIR_BUILT: OnceLock<MirBuiltFn> = OnceLock::new();
pub static MIR_FACTS: Mutex<Vec<String>> = Mutex::new(Vec::new());

fn my_mir_built<'tcx>(tcx: TyCtxt<'tcx>, def: LocalDefId) -> &'tcx Steal<Body<'tcx>> {
    let r = (ORIG_MIR_BUILT.get().expect("orig provider"))(tcx, def);
    {
        let body = r.borrow();
        let j = mir::dump_body(tcx, def, &body);
        let mut s = String::new();
        j.write(&mut s);
        MIR_FACTS.lock().unwrap().push(s);
    }
    r
}

struct Cb;

impl rustc_driver::Callbacks for Cb {
    fn config(&mut self, config: &mut rustc_interface::Config) {
        config.override_queries = Some(|_sess, providers| {
            let _ = ORIG_MIR_BUILT.set(providers.queries.mir_built);
            providers.queries.mir_built = my_mir_built;
        });
    }

    fn after_analysis<'tcx>(
        &mut self,
        _compiler: &rustc_interface::interface::Compiler,
        tcx: TyCtxt<'tcx>,
    ) -> Compilation {
        let out_dir = match std::env::var("YFACTS_OUT") {
            Ok(d) => d,
            Err(_) => return Compilation::Continue,
        };
        // Make sure every body has been built (cargo check does this through
        // borrowck, but be explicit so that no body is missed).
        for def in tcx.hir_body_owners() {
            let _ = tcx.ensure_ok().mir_borrowck(tcx.typeck_root_def_id(def.to_def_id()).expect_local());
        }
        let crate_name = tcx.crate_name(rustc_span::def_id::LOCAL_CRATE).to_string();
        let crate_types: Vec<String> =
            tcx.crate_types().iter().map(|t| format!("{:?}", t)).collect();
        let hir = hir::dump_all(tcx);
        let items = items::dump_all(tcx);
        let walks = items::type_walks(tcx);
        let mir = std::mem::take(&mut *MIR_FACTS.lock().unwrap());

        let mut s = String::with_capacity(64 << 20);
        s.push_str("{\"crate\":");
        J::s(crate_name.clone()).write(&mut s);
        s.push_str(",\"crate_types\":");
        J::Arr(crate_types.iter().map(|t| J::s(t.clone())).collect()).write(&mut s);
        s.push_str(",\"n_body_owners\":");
        J::n(tcx.hir_body_owners().count()).write(&mut s);
        s.push_str(",\"mir\":[\n");
        for (i, m) in mir.iter().enumerate() {
            if i > 0 {
                s.push_str(",\n");
            }
            s.push_str(m);
        }
        s.push_str("\n],\"hir\":");
        hir.write(&mut s);
        s.push_str(",\n\"items\":");
        items.write(&mut s);
        s.push_str(",\n\"typewalks\":");
        walks.write(&mut s);
        s.push_str("}\n");
        let kind = crate_types.first().cloned().unwrap_or_default().to_lowercase();
        let path = format!("{}/{}.{}.json", out_dir, crate_name, kind);
        let tmp = format!("{}.tmp.{}", path, std::process::id());
        std::fs::write(&tmp, s).expect("write facts");
        std::fs::rename(&tmp, &path).expect("rename facts");
        Compilation::Continue
    }
}

struct NoCb;
impl rustc_driver::Callbacks for NoCb {}

fn main() {
    let mut args: Vec<String> = std::env::args().collect();
    // RUSTC_WORKSPACE_WRAPPER: argv[1] is the path of the real rustc.
    if args.len() > 1 && (args[1].ends_with("rustc") || args[1].contains("/rustc")) {
        args.remove(1);
    }
    let crate_name = args
        .iter()
        .position(|a| a == "--crate-name")
        .and_then(|i| args.get(i + 1))
        .cloned();
    let is_target = match &crate_name {
        Some(n) => n != "build_script_build" && !n.starts_with("build_script"),
        None => false,
    };
    if is_target && std::env::var("YFACTS_OUT").is_ok() {
        rustc_driver::run_compiler(&args, &mut Cb);
    } else {
        rustc_driver::run_compiler(&args, &mut NoCb);
    }
}

/// Full path of a definition including the crate name, stable across crates.
pub fn path_of<'tcx>(tcx: TyCtxt<'tcx>, did: rustc_span::def_id::DefId) -> String {
    use rustc_middle::ty::print::{with_no_trimmed_paths, with_no_visible_paths, with_resolve_crate_name};
    with_resolve_crate_name!(with_no_visible_paths!(with_no_trimmed_paths!(tcx.def_path_str(did))))
}

pub fn ty_str<'tcx>(ty: rustc_middle::ty::Ty<'tcx>) -> String {
    use rustc_middle::ty::print::{with_no_trimmed_paths, with_no_visible_paths, with_resolve_crate_name};
    with_resolve_crate_name!(with_no_visible_paths!(with_no_trimmed_paths!(ty.to_string())))
}

pub fn span_loc<'tcx>(tcx: TyCtxt<'tcx>, sp: rustc_span::Span) -> (String, usize) {
    let sm = tcx.sess.source_map();
    // Use the call-site of macro expansions so that lines refer to user code.
    let sp = sp.source_callsite();
    let lo = sm.lookup_char_pos(sp.lo());
    let name = match &lo.file.name {
        rustc_span::FileName::Real(r) => match r.local_path() {
            Some(p) => p.display().to_string(),
            None => format!("{:?}", r),
        },
        other => format!("{:?}", other),
    };
    (name, lo.line)
}
