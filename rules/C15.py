"""C15 - the executor never loses a wake-up and never polls a finished task.

Structural clauses decided (DESIGN.md 4/C15): the wake queue is only ever pushed at the
back and popped at the front (FIFO, no starvation by self-wakers) and a task is pushed
by `wake` only on the edge where it is not already queued; `step` releases the
executor's RefCell borrow before polling and polls exactly the popped task; `Task::poll`
polls the future only under an exclusive borrow of a non-empty slot and empties the slot
on the ready edge; `run_until_stalled` returns only when `step` found the queue empty;
the waker vtable slots are the four functions in the right order and each has the
reference-count net its slot requires; the relay moves Pending/Polled -> Computed ->
Done and hands the value out only on Computed."""
import re
from engine import RuleSet
import mirq as Q
import hirq as H
import pp

RS = RuleSet(
    'C15',
    explanation=(
        'Writer, ordering, guard, effect and table rules over the MIR/HIR of yash-executor: every use of '
        'ExecutorState::wake_queue in the workspace is push_back (only in enqueue, enqueue_forwarding, Task::wake), '
        'pop_front (only in Executor::step) or a read (len/iter/is_empty) => FIFO service, a self-waking task goes '
        'behind every task already queued; the push in Task::wake is dominated by the false edge of '
        'iter().any(|t| Rc::ptr_eq(t, &self)) over that same queue => queued at most once; in step the RefMut of '
        'the executor state is dropped on every path before Task::poll and the polled task is the pop_front '
        'result => a wake issued during poll (by the task itself or another) re-queues instead of panicking or '
        'being lost; None is returned by step only from the `?` on pop_front; Task::poll calls Future::poll only on '
        'the Some edge of the slot borrowed by try_borrow_mut (no re-entrant poll, no poll of a finished task) and '
        'on the ready edge stores None in the slot on every path to return; run_until_stalled leaves its loop only '
        'through step() == None; the RawWakerVTable is new(clone, wake, wake_by_ref, drop) by function identity and '
        'the four functions have strong-count nets +1, -1, 0, -1 on every path with the Rc rebuilt by from_raw '
        'consumed by Task::wake, into_waker transfers exactly one count by into_raw; Sender::send stores Computed '
        'and wakes exactly on Polled, Receiver::poll / try_receive hand the value out only on Computed while '
        'storing Done, never on Done, and (poll) register the current waker on Pending/Polled; the forwarding task '
        'sends exactly once on every path to completion.'),
    not_decided='equivalence with a reference scheduler over all task systems; that futures written by users '
                'register their wakers; Sender is consumed by send / not Clone (compile-fail witnesses, elsewhere)',
    trusted=['alloc::collections::VecDeque push_back/pop_front are FIFO', 'Rc::{increment,decrement}_strong_count, '
             'from_raw, into_raw have their documented count effects (+1, -1, takes one, gives one)'],
    assumptions=['unwind paths are not considered', 'effect nets are counted per acyclic path of the four vtable functions'],
)

EX = 'yash_executor::'
STATE = 'yash_executor::ExecutorState'
VD = 'alloc::collections::vec_deque::VecDeque::<T, A>::'
WAKE = "yash_executor::task::<impl yash_executor::Task<'_>>::wake"
POLL = "yash_executor::task::<impl yash_executor::Task<'_>>::poll"
STEP = "yash_executor::executor::<impl yash_executor::Executor<'a>>::step"
RUN = "yash_executor::executor::<impl yash_executor::Executor<'a>>::run_until_stalled"
ENQ = "yash_executor::executor::<impl yash_executor::ExecutorState<'a>>::enqueue"
ENQF = "yash_executor::executor::<impl yash_executor::ExecutorState<'a>>::enqueue_forwarding"

READS = {VD + 'len', VD + 'iter', VD + 'is_empty'}
PUSHERS = {WAKE, ENQ, ENQF}
POPPERS = {STEP}


def _projects(place, adt, field):
    return any(isinstance(e, dict) and e.get('f') == field and e.get('adt') == adt for e in place.get('p') or [])


def _field_uses(body, adt, field):
    """Every way a body touches a field: [(kind, descriptor, node, block)], kind in
    'call' (a borrow of the field reaches this call: descriptor = callee), 'assign'
    (the field is overwritten), 'move' (the field is copied/moved out), 'escape'
    (a borrow that reaches no call)."""
    out = []
    for b, j, s in body.stmts():
        if s['k'] != 'assign':
            continue
        if _projects(s['lhs'], adt, field):
            out.append(('assign', 'assign', s, b))
        rv = s['rv']
        if rv['k'] in ('ref', 'rawptr') and _projects(rv['pl'], adt, field):
            taint = Q.forward_taint(body, {s['lhs']['l']}, through_calls=[])
            users = [(blk, t) for blk, t in body.calls()
                     if any(Q.operand_local(a) in taint for a in t['a'] if Q.operand_local(a) is not None)]
            if not users:
                out.append(('escape', 'borrow-not-passed-to-a-call', s, b))
            for blk, t in users:
                out.append(('call', pp.callee(t), t, blk))
        else:
            for p in Q.rvalue_places(rv):
                if _projects(p, adt, field):
                    out.append(('move', 'moved-or-copied-out', s, b))
    for b, t in body.calls():
        for a in t['a']:
            p = Q.operand_place(a)
            if p is not None and _projects(p, adt, field):
                out.append(('move', 'passed-by-value:' + pp.callee(t), t, b))
    return out


def _trace_place(du, operand, depth=16):
    """Follow an operand through single-definition copies / moves / (re)borrows to the
    place it denotes; a reference temporary is identified with its referent."""
    p = Q.operand_place(operand)
    for _ in range(depth):
        if p is None:
            return None
        proj = p.get('p') or []
        d = du.single_def(p['l'])
        if d is None or d[1] == 't' or d[2]['k'] != 'assign':
            return p
        rv = d[2]['rv']
        if rv['k'] == 'use' and Q.operand_place(rv['o']) is not None:
            q = Q.operand_place(rv['o'])
            p = {'l': q['l'], 'p': (q.get('p') or []) + proj}
        elif rv['k'] == 'ref':
            q = rv['pl']
            if proj and proj[0] == '*':
                p = {'l': q['l'], 'p': (q.get('p') or []) + proj[1:]}
            elif not proj:
                p = {'l': q['l'], 'p': list(q.get('p') or [])}
            else:
                return p
        else:
            return p
    return p


# ------------------------------------------------------------------ R1
def _retain_removes_only_self(F, body, t):
    """`wake_queue.retain(|task| !Rc::ptr_eq(task, self))`: the predicate drops exactly the entries that are the polled task."""
    du = Q.DefUse(body)
    clo = du.origin(t['a'][1]) if len(t['a']) > 1 else {'k': '?'}
    if clo['k'] != 'agg' or clo['rv'].get('def') not in F.bodies:
        return False
    cb = F.bodies[clo['rv']['def']]
    pe = Q.find_calls(cb, ['alloc::rc::Rc::<T, A>::ptr_eq'])
    nots = [1 for b, j, s in cb.stmts() if s['k'] == 'assign' and s['rv']['k'] == 'unop' and s['rv']['op'] == 'Not' and s['lhs']['l'] == 0]
    others = [tt for b, tt in cb.calls() if tt is not pe[0][1]] if pe else [1]
    return len(pe) == 1 and len(nots) == 1 and not [o for o in others if not Q.callee_is(o, [re.compile(r'Deref>::deref$')])]


def _private_helper_only_of(F, fn, reviewed):
    """fn is a non-public function of yash_executor::task whose every caller is the reviewed function: an operation of the
    reviewed function that was merely moved into a private helper (the review carries over; R1c / R1d analyse it in place)."""
    sig = F.fns.get(fn)
    if sig is None or sig.get('vis') == 'pub' or not fn.startswith(reviewed.rsplit('::', 1)[0] + '::'):
        return False
    callers = F.callers_of(lambda names, t: fn in names)
    return bool(callers) and all(b.root == reviewed for b, blk, t in callers)


@RS.rule('C15.R1c', 'K-GUARD', 'a task that has completed is never in the wake queue: Task::wake looks at the future slot before queuing, and the '
         'wake a task issued to itself during its final poll is withdrawn when the poll returns Ready')
def r1c(cx):
    F = cx.F
    wb = F.inlined(F.body(WAKE))          # a completion test moved into a private helper (`self.is_complete()`) is seen in place
    cx.fn(wb.fn)
    du = Q.DefUse(wb)
    uses = _field_uses(wb, STATE, 'wake_queue')
    pushes = [(blk, t) for kind, desc, t, blk in uses if kind == 'call' and desc == VD + 'push_back']
    cx.require(pushes, 'Task::wake no longer queues the task (C15.R1 reports that)')
    slot_tests = [(b, t) for b, t in Q.find_calls(wb, [re.compile(r'RefCell::<T>::(try_borrow|try_borrow_mut|borrow)$')])
                  if _projects(_trace_place(du, t['a'][0]) or {}, 'yash_executor::Task', 'future')]
    tested = bool(slot_tests) and all(any(wb.dominates(sb, pb) for sb, _ in slot_tests) for pb, _ in pushes)
    pb_ = F.inlined(F.body(POLL))         # the withdrawal moved into a private helper (`self.remove_from_wake_queue()`) is seen in place
    cx.fn(pb_.fn)
    purge = [t for kind, desc, t, blk in _field_uses(pb_, STATE, 'wake_queue') if kind == 'call' and desc == VD + 'retain'
             and _retain_removes_only_self(F, pb_, t)]
    cx.site('Task::wake tests the future slot (completed?) before push_back: %s; Task::poll withdraws its own wake on Ready: %s' % (tested, bool(purge)))
    if not tested:
        cx.violation(WAKE, 'completed-task-queued', 'Task::wake queues the task without looking whether it has completed (the future slot is '
                     'empty): a stale waker fired after completion puts the finished task back on the queue - wake_count() is 1, step() returns '
                     'Some(true) and run_until_stalled() counts a completed task although nothing unfinished exists', loc=wb.loc(pushes[0][1]))
    if not purge:
        cx.violation(POLL, 'final-self-wake-kept', 'a task that wakes itself during the poll that completes it stays in the queue: '
                     '`spawn(poll_fn(|cx| { cx.waker().wake_by_ref(); Poll::Ready(()) }))` makes run_until_stalled() return 2 for one task',
                     loc=pb_.loc(pb_.d))


@RS.rule('C15.R1d', 'K-ORDER', 'the finished future is destroyed BEFORE the completed task withdraws its own wake: a destructor may wake '
         'the task (a drop guard, a channel end signalling on drop), and a wake issued after the withdrawal - while the slot is still '
         'borrowed - queues the completed task again')
def r1d(cx):
    F = cx.F
    body = F.inlined(F.body(POLL))        # the withdrawal may live in a private helper of Task: analysed in place
    cx.fn(body.fn)
    purge = [(blk, t) for kind, desc, t, blk in _field_uses(body, STATE, 'wake_queue') if kind == 'call' and desc == VD + 'retain']
    if not purge:
        cx.site('Task::poll does not withdraw a wake (C15.R1c reports that)')
        return
    SLOT = re.compile(r'^core::option::Option<core::pin::Pin<alloc::boxed::Box<dyn core::future::future::Future')
    moved_into = set()
    for blk, j, st in body.stmts():
        # `*slot = None`: the temporary holding the new value is moved into the slot (its own drop is a no-op)
        if st['k'] == 'assign' and st['lhs'].get('p') and st['rv']['k'] == 'use' and 'mv' in st['rv']['o'] and not st['rv']['o']['mv'].get('p'):
            moved_into.add(st['rv']['o']['mv']['l'])
    drops = [(b, body.term(b)) for b in range(len(body.blocks)) if body.term(b)['k'] == 'drop' and SLOT.search(str(body.term(b).get('ty') or ''))
             and not (not body.term(b)['pl'].get('p') and body.term(b)['pl']['l'] in moved_into)]
    takes = [(b, t) for b, t in body.calls() if SLOT.search(str(body.locals[t['dest']['l']].get('ty') or ''))]
    cx.require(drops or takes, 'Task::poll never destroys the finished future (anchor moved)')
    after = set()
    for pb, pt in purge:
        after |= body.reachable(pb)
    late = [(b, t) for b, t in drops if b in after]
    cx.site('Task::poll: %d drop(s) of the future slot value, %d after the wake withdrawal' % (len(drops), len(late)))
    for b, t in late:
        cx.violation(POLL, 'finished-future-dropped-after-withdrawal', 'the finished future is kept alive past the withdrawal of the task\'s own '
                     'wake and destroyed afterwards, while the slot is still borrowed: if its destructor wakes the task (drop guard, channel '
                     'end that signals on drop), Task::wake sees the borrow, takes the task for "being polled" and queues it - the completed '
                     'task is run and counted again', loc=body.loc(t))


@RS.rule('C15.R1', 'K-WRITERS+K-GUARD', 'wake queue: push_back / pop_front / reads only, by the reviewed functions; wake pushes only if not already queued')
def r1(cx):
    F = cx.F
    n = {'push': 0, 'pop': 0, 'read': 0}
    for body in F.bodies.values():
        for kind, desc, node, blk in _field_uses(body, STATE, 'wake_queue'):
            cx.fn(body.fn)
            cx.site('%s: wake_queue <- %s at %s' % (body.fn, desc, body.loc(node)))
            if kind != 'call':
                cx.violation(body.root, 'queue:%s' % desc.split(':')[0], 'the wake queue is %s: the FIFO of woken tasks '
                             'can be replaced, reordered or emptied behind the scheduler' % desc, loc=body.loc(node))
            elif desc == VD + 'push_back':
                n['push'] += 1
                if body.root not in PUSHERS:
                    cx.violation(body.root, 'queue:push_back', 'a task is queued outside enqueue / enqueue_forwarding / '
                                 'Task::wake (no duplicate suppression, no task ownership protocol)', loc=body.loc(node))
            elif desc == VD + 'pop_front':
                n['pop'] += 1
                if body.root not in POPPERS:
                    cx.violation(body.root, 'queue:pop_front', 'a task is taken from the wake queue outside '
                                 'Executor::step: the woken task is never polled', loc=body.loc(node))
            elif desc in READS:
                n['read'] += 1
            elif desc == VD + 'retain' and (body.root == POLL or _private_helper_only_of(F, body.root, POLL)) and \
                    _retain_removes_only_self(F, body, node):
                cx.site('%s: the completed task removes ITSELF from the queue (order of the others preserved), decided by C15.R1c' % body.fn)
            else:
                cx.violation(body.root, 'queue:%s' % desc.split('::')[-1],
                             'wake queue operation %s breaks FIFO service (only push_back, pop_front, len, iter, '
                             'is_empty are order-preserving): a woken task can be starved, dropped or polled out of '
                             'turn' % desc, loc=body.loc(node))
    # required sites: missing = violation
    for root, what in ((WAKE, 'push'), (ENQ, 'push'), (ENQF, 'push'), (STEP, 'pop')):
        bodies = F.logical(root)
        want = VD + ('push_back' if what == 'push' else 'pop_front')
        if not any(kind == 'call' and desc == want for b in bodies for kind, desc, _, _ in _field_uses(b, STATE, 'wake_queue')):
            cx.violation(root, 'queue-op-missing:%s' % want.split('::')[-1], '%s no longer applies %s to the wake queue'
                         % (root, want), loc=bodies[0].loc(bodies[0].d))
    cx.sample({'wake_queue_uses': n})

    # duplicate suppression in Task::wake
    body = F.body(WAKE)
    du = Q.DefUse(body)
    uses = _field_uses(body, STATE, 'wake_queue')
    pushes = [(blk, t) for kind, desc, t, blk in uses if kind == 'call' and desc == VD + 'push_back']
    iters = [(blk, t) for kind, desc, t, blk in uses if kind == 'call' and desc == VD + 'iter']
    for pb, pt in pushes:
        cx.site('%s: push_back at %s' % (body.fn, body.loc(pt)))
        ok = False
        for org, lab, e in Q.dominating_conditions(F, body, du, pb):
            if not (Q.cond_is_call(org, [re.compile(r'Iterator::any$')]) and lab == ('bool', False)):
                continue
            at = org['t']
            src = Q.value_source(body, du, at['a'][0])
            if src is None or not any(src is t for _, t in iters):
                continue
            clo = du.origin(at['a'][1])
            if clo['k'] != 'agg' or clo['rv'].get('ak') != 'closure' or clo['rv'].get('def') not in F.bodies:
                continue
            cb = F.bodies[clo['rv']['def']]
            pe = Q.find_calls(cb, ['alloc::rc::Rc::<T, A>::ptr_eq'])
            # the closure returns Rc::ptr_eq(task, &self): its result is the return place, one argument
            # is the element, the other the captured `self` of wake
            if len(pe) == 1 and pe[0][1]['dest']['l'] == 0 and not pe[0][1]['dest'].get('p'):
                cdu = Q.DefUse(cb)
                args = [_trace_place(cdu, a) for a in pe[0][1]['a']]
                bases = sorted(a['l'] for a in args if a is not None)
                cap = [_trace_place(du, o) for o in clo['rv']['ops']]
                if bases == [1, 2] and len(cap) == 1 and cap[0] is not None and cap[0]['l'] == 1:
                    ok = True
                    cx.fn(cb.fn)
        if not ok:
            # the same scan written as an explicit loop: `for t in queue.iter() { if Rc::ptr_eq(t, &self) { return } } push_back(self)`
            pe = Q.find_calls(body, ['alloc::rc::Rc::<T, A>::ptr_eq'])
            nexts = [(nb, nt) for nb, nt in Q.find_calls(body, [re.compile(r'Iterator>::next$')])
                     if 'vec_deque' in (nt['f'].get('self') or nt['f'].get('def') or '') or 'VecDeque' in ' '.join(nt.get('at') or [])]
            if pe and nexts:
                loop_ok = True
                for eb, et in pe:
                    # one argument is the scanned element, the other is self
                    args = [_trace_place(du, a) for a in et['a']]
                    if not any(a is not None and a['l'] == 1 for a in args):
                        loop_ok = False
                    ec = Q.edge_condition(F, body, du, eb if body.term(eb)['k'] == 'switch' else (body.succ(eb) or [eb])[0])
                    # from the ptr_eq == true edge the push must be unreachable
                    true_targets = []
                    for sb in body.live_blocks():
                        c2 = Q.edge_condition(F, body, du, sb)
                        if c2 and c2[0]['k'] == 'call' and c2[0]['t'] is et:
                            true_targets += [tgt for tgt, labs in c2[1].items() if ('bool', True) in labs]
                    if not true_targets or any(pb in body.reachable(tgt) for tgt in true_targets):
                        loop_ok = False
                # the push happens only once the scan is exhausted
                exhausted = False
                for org, lab, e in Q.dominating_conditions(F, body, du, pb):
                    if org['k'] == 'discr' and lab == ('variant', 'None'):
                        src = Q.value_source(body, du, {'cp': {'l': org['pl']['l']}})
                        if src is not None and any(src is nt for _, nt in nexts):
                            exhausted = True
                # the iterator scans the wake queue itself
                scans_queue = any(Q.value_source(body, du, nt['a'][0]) is not None and
                                  any(Q.value_source(body, du, nt['a'][0]) is it or True for _, it in iters) for _, nt in nexts) and bool(iters)
                if loop_ok and exhausted and scans_queue:
                    ok = True
                    cx.site('%s: duplicate scan written as an explicit loop' % body.fn)
        pushed = _trace_place(du, pt['a'][1])
        if pushed is None or pushed['l'] != 1 or pushed.get('p'):
            cx.violation(body.root, 'push-not-self', 'Task::wake queues something else than the woken task', loc=body.loc(pt))
        if not ok:
            cx.violation(body.root, 'push-without-dedup', 'Task::wake pushes the task without being on the false edge of '
                         '`wake_queue.iter().any(|t| Rc::ptr_eq(t, &self))`: a task woken twice before it runs is '
                         'queued (and polled) twice', loc=body.loc(pt))


# ------------------------------------------------------------------ R2
@RS.rule('C15.R2', 'K-ORDER', 'step: the state borrow is released before Task::poll; the polled task is the pop_front result; None only from the empty queue')
def r2(cx):
    F = cx.F
    body = F.body(STEP)
    cx.fn(body.fn)
    du = Q.DefUse(body)
    polls = Q.find_calls(body, [POLL])
    if len(polls) != 1:
        cx.violation(body.root, 'poll-count', 'Executor::step must poll exactly one task per step (found %d Task::poll '
                     'calls)' % len(polls), loc=body.loc(body.d))
        cx.site('%s: %d Task::poll calls' % (body.fn, len(polls)))
        return
    pb, pt = polls[0]
    borrows = Q.find_calls(body, ['core::cell::RefCell::<T>::borrow_mut', 'core::cell::RefCell::<T>::try_borrow_mut',
                                  'core::cell::RefCell::<T>::borrow'])
    cx.require(borrows, 'no RefCell borrow of the executor state in step')
    for bb, bt in borrows:
        guard = bt['dest']['l']
        # everything that keeps the guard alive: the guard itself and values it was moved / unwrapped into
        holders = Q.forward_taint(body, {guard}, through_calls=['core::result::Result::<T, E>::unwrap',
                                                                 'core::result::Result::<T, E>::expect'])
        holders = {l for l in holders if 'Ref' in body.locals[l].get('ty', '') and
                   not body.locals[l].get('ty', '').startswith('&')}
        drops = {b for b in body.live_blocks() if body.term(b)['k'] == 'drop' and body.term(b)['pl']['l'] in holders
                 and not body.term(b)['pl'].get('p')}
        cx.site('%s: %s at %s; guard dropped in %d blocks; Task::poll at %s'
                % (body.fn, pp.callee(bt).split('::')[-1], body.loc(bt), len(drops), body.loc(pt)))
        if bb == pb or not body.reachable(bb).__contains__(pb):
            continue
        p = Q.must_pass(body, body.succ(bb), drops, goal_blocks={pb})
        if p:
            cx.violation(body.root, 'poll-under-borrow', 'the executor state is still borrowed while the task is polled: a '
                         'wake-up issued during the poll (self-wake or waking another task) panics in '
                         'RefCell::borrow_mut instead of queueing the task', loc=body.loc(pt),
                         path=Q.render_path(body, [bb] + p))
    src = Q.value_source(body, du, pt['a'][0])
    cx.site('%s: polled task comes from %s' % (body.fn, pp.callee(src) if src else '?'))
    if src is None or not Q.callee_is(src, [VD + 'pop_front']):
        cx.violation(body.root, 'polled-not-popped', 'the task polled by step is not the one taken from the front of the '
                     'wake queue', loc=body.loc(pt))
    # exits: Some(poll result) or the `?` on pop_front
    for w in Q.return_writers(body):
        lab, what = Q.exit_label(body, du, w)
        cx.site('%s: exit %s' % (body.fn, lab))
        none_of_pop = False
        if lab.startswith('None'):
            # `let Some(task) = popped else { return None }` is the `?` written out: None only on the None edge of pop_front
            for org, l2, e in Q.dominating_conditions(F, body, du, w):
                if org['k'] == 'discr' and l2 == ('variant', 'None'):
                    s2 = Q.value_source(body, du, {'cp': {'l': org['pl']['l']}})
                    if s2 is not None and Q.callee_is(s2, [VD + 'pop_front']):
                        none_of_pop = True
        if not (lab == '?pop_front' or lab.startswith('Some(') or none_of_pop):
            cx.violation(body.root, 'exit:%s' % lab, 'step returns through %s: it may report "no task" while tasks are '
                         'queued, so run_until_stalled stops with runnable tasks' % what, loc=body.loc(body.term(w)))
        if lab.startswith('Some(') and not body.dominates(pb, w):
            cx.violation(body.root, 'some-without-poll', 'step reports progress without polling', loc=body.loc(body.term(w)))


# ------------------------------------------------------------------ R3
@RS.rule('C15.R3', 'K-GUARD+K-PASS', 'Task::poll: the future is polled only from a non-empty, exclusively borrowed slot; the slot is emptied on the ready edge')
def r3(cx):
    F = cx.F
    body = F.body(POLL)
    cx.fn(body.fn)
    du = Q.DefUse(body)
    fp = Q.find_calls(body, ['core::future::future::Future::poll', '*::Future::poll'])
    if len(fp) != 1:
        cx.site('%s: %d Future::poll calls' % (body.fn, len(fp)))
        cx.violation(body.root, 'future-poll-count', 'Task::poll must poll its future exactly once (found %d calls)' % len(fp),
                     loc=body.loc(body.d))
        return
    fb, ft = fp[0]
    tb = [(b, t) for b, t in Q.find_calls(body, ['core::cell::RefCell::<T>::try_borrow_mut', 'core::cell::RefCell::<T>::borrow_mut'])
          if _projects(_trace_place(du, t['a'][0]) or {}, 'yash_executor::Task', 'future')]
    cx.site('%s: Future::poll at %s; %d exclusive borrows of Task::future' % (body.fn, body.loc(ft), len(tb)))
    if len(tb) != 1:
        cx.violation(body.root, 'slot-borrow', 'the future slot is not borrowed exactly once by (try_)borrow_mut before '
                     'polling: a re-entrant poll is not excluded', loc=body.loc(ft))
        return
    bb, bt = tb[0]
    slot = Q.forward_taint(body, {bt['dest']['l']})     # through every call: expect, deref_mut, as_mut, Pin::as_mut
    recv = Q.operand_local(ft['a'][0])
    if recv not in slot or not body.dominates(bb, fb):
        cx.violation(body.root, 'poll-not-from-slot', 'the polled future is not the content of the borrowed slot',
                     loc=body.loc(ft))
    # guard: Some edge of a discriminant test on a value derived from the slot
    some = False
    for org, lab, e in Q.dominating_conditions(F, body, du, fb):
        if org['k'] == 'discr' and org['pl']['l'] in slot and lab == ('variant', 'Some'):
            some = True
        if Q.cond_is_call(org, ['core::option::Option::<T>::is_some']) and lab == ('bool', True) and \
                Q.operand_local(org['t']['a'][0]) in slot:
            some = True
    if not some:
        cx.violation(body.root, 'poll-without-some', 'Future::poll is not dominated by the slot being Some: a completed '
                     'task would be polled again', loc=body.loc(ft))
    # the RefMut of the slot lives across the poll (no drop of it between borrow and poll)
    holders = {l for l in slot if 'RefMut<' in body.locals[l].get('ty', '') and not body.locals[l]['ty'].startswith('&')}
    early = [b for b in body.live_blocks() if body.term(b)['k'] == 'drop' and body.term(b)['pl']['l'] in holders
             and not body.term(b)['pl'].get('p') and body.dominates(b, fb)]
    if early:
        cx.violation(body.root, 'slot-released-before-poll', 'the exclusive borrow of the slot is released before the '
                     'future is polled (re-entrant polls are no longer detected)', loc=body.loc(body.term(early[0])))
    # ready edges
    ready_edges = []
    for b in sorted(body.live_blocks()):
        ec = Q.edge_condition(F, body, du, b)
        if not ec:
            continue
        org, labels = ec
        for tgt, labs in labels.items():
            if Q.cond_is_call(org, ['core::task::poll::Poll::<T>::is_ready']) and ('bool', True) in labs:
                s2 = _trace_place(du, org['t']['a'][0])
                if s2 is not None and s2['l'] == ft['dest']['l']:
                    ready_edges.append((b, tgt))
            if Q.cond_is_call(org, ['core::task::poll::Poll::<T>::is_pending']) and ('bool', False) in labs:
                s2 = _trace_place(du, org['t']['a'][0])
                if s2 is not None and s2['l'] == ft['dest']['l']:
                    ready_edges.append((b, tgt))
            if org['k'] == 'discr' and org['pl']['l'] == ft['dest']['l'] and ('variant', 'Ready') in labs:
                ready_edges.append((b, tgt))
    # assignments of None into the slot
    clears = set()
    for b, j, s in body.stmts():
        if s['k'] != 'assign' or (s['lhs'].get('p') or [None])[-1] != '*' or s['lhs']['l'] not in slot:
            continue
        org = du.origin(s['rv']['o']) if s['rv']['k'] == 'use' else {'k': s['rv']['k'], 'rv': s['rv']}
        if org['k'] == 'agg' and org['rv'].get('adt') == 'core::option::Option' and org['rv'].get('variant') == 'None':
            clears.add(b)
            cx.site('%s: slot = None at %s' % (body.fn, body.loc(s)))
    for b, t in Q.find_calls(body, ['core::option::Option::<T>::take']):
        if Q.operand_local(t['a'][0]) in slot:
            clears.add(b)
            cx.site('%s: slot.take() at %s' % (body.fn, body.loc(t)))
    if not ready_edges:
        cx.violation(body.root, 'no-ready-test', 'the result of Future::poll is not tested for readiness', loc=body.loc(ft))
    for u, v in ready_edges:
        cx.site('%s: ready edge bb%d->bb%d (%s)' % (body.fn, u, v, body.loc(body.term(u))))
        p = None if v in clears else Q.must_pass(body, [v], clears)
        if p:
            cx.violation(body.root, 'ready-without-clear', 'after the future returned Ready the slot is not emptied on '
                         'some path to return: the finished future would be polled again by a later wake',
                         loc=body.loc(body.term(u)), path=Q.render_path(body, p))
    # the slot is not emptied while pending
    for c in clears:
        if not any(c in body.reachable(v) for u, v in ready_edges):
            cx.violation(body.root, 'clear-while-pending', 'the slot is emptied on a path where the future is still '
                         'pending: the task is lost', loc=body.loc(body.term(c)))


# ------------------------------------------------------------------ R4
@RS.rule('C15.R4', 'K-PASS', 'run_until_stalled leaves its loop only when step() returned None')
def r4(cx):
    F = cx.F
    body = F.body(RUN)
    cx.fn(body.fn)
    du = Q.DefUse(body)
    steps = Q.find_calls(body, [STEP])
    cx.require(steps, 'run_until_stalled does not call step')
    none_edges = set()
    for b in body.live_blocks():
        ec = Q.edge_condition(F, body, du, b)
        if not ec:
            continue
        org, labels = ec
        src = None
        if org['k'] == 'discr':
            src = Q.value_source(body, du, {'cp': {'l': org['pl']['l']}})
            want = ('variant', 'None')
        elif Q.cond_is_call(org, ['core::option::Option::<T>::is_none', 'core::option::Option::<T>::is_some']):
            src = Q.value_source(body, du, org['t']['a'][0])
            want = ('bool', Q.cond_is_call(org, ['core::option::Option::<T>::is_none']))
        if src is None or not any(src is t for _, t in steps):
            continue
        for tgt, labs in labels.items():
            if labs and all(l == want for l in labs):
                none_edges.add((b, tgt))
    for sb, st in steps:
        cx.site('%s: step() at %s (in loop: %s)' % (body.fn, body.loc(st), sb in body.reachable(body.succ(sb)[0])))
    cx.site('%s: %d edges leave on step() == None' % (body.fn, len(none_edges)))
    reach = body.reachable(0, removed_edges=none_edges)
    bad = [r for r in body.return_blocks() if r in reach]
    if bad or not none_edges:
        p = body.shortest_path(0, set(bad), removed_edges=none_edges) if bad else None
        cx.violation(body.root, 'return-without-empty-queue', 'run_until_stalled can return although step() did not '
                     'report an empty wake queue: runnable tasks are left unpolled', loc=body.loc(body.term(bad[0])) if bad else body.loc(body.d),
                     path=Q.render_path(body, p) if p else None)
    if not any(sb in body.reachable(body.succ(sb)[0]) for sb, _ in steps):
        cx.violation(body.root, 'step-not-in-loop', 'step() is not called repeatedly', loc=body.loc(steps[0][1]))


# ------------------------------------------------------------------ R5
W = 'yash_executor::waker::'
SLOTS = ['clone', 'wake', 'wake_by_ref', 'drop']
EFFECT = {'alloc::rc::Rc::<T>::increment_strong_count': +1, 'alloc::rc::Rc::<T>::decrement_strong_count': -1,
          'alloc::rc::Rc::<T>::from_raw': -1, 'alloc::rc::Rc::<T, A>::from_raw_in': -1,
          'alloc::rc::Rc::<T, A>::into_raw': +1, 'alloc::rc::Rc::<T>::into_raw': +1}
NET = {'clone': +1, 'wake': -1, 'wake_by_ref': 0, 'drop': -1}
SLOT_MEANING = {'clone': 'a cloned waker owns no count of its own: the task is freed while a waker still points to it',
                'wake': 'Waker::wake consumes the waker; the count it owned must be given to the queue or released',
                'wake_by_ref': 'Waker::wake_by_ref must leave the count of the waker untouched',
                'drop': 'dropping a waker must release its count (else every poll leaks the task)'}


def _paths(body, limit=64):
    """All acyclic entry->return block paths (the vtable functions are straight-line)."""
    out = []
    stack = [(0, [0])]
    while stack and len(out) < limit:
        b, path = stack.pop()
        if body.term(b)['k'] == 'return':
            out.append(path)
            continue
        for s in body.succ(b):
            if s not in path:
                stack.append((s, path + [s]))
    return out


@RS.rule('C15.R5', 'K-EFFECT', 'waker vtable: slot order by function identity and strong-count net of each slot')
def r5(cx):
    F = cx.F
    vt = F.body(W + 'VTABLE')
    cx.fn(vt.fn)
    du = Q.DefUse(vt)
    news = Q.find_calls(vt, ['core::task::wake::RawWakerVTable::new'])
    cx.require(len(news) == 1, 'VTABLE is not built by one RawWakerVTable::new')
    got = []
    for a in news[0][1]['a']:
        org = du.origin(a)
        if org['k'] == 'cast':
            org = org['from']
        got.append(org['o'].get('fn') if org['k'] == 'const' else None)
    cx.site('VTABLE = RawWakerVTable::new(%s)' % ', '.join(str(g).split('::')[-1] for g in got))
    for i, name in enumerate(SLOTS):
        cx.cellcount(1)
        if i >= len(got) or got[i] != W + name:
            cx.violation(W + 'VTABLE', 'slot:%s' % name, 'vtable slot %d (%s) holds %s: %s' % (i, name, got[i] if i < len(got) else None,
                         SLOT_MEANING[name]), loc=vt.loc(news[0][1]))
    for name in SLOTS:
        body = F.body(W + name)
        cx.fn(body.fn)
        du2 = Q.DefUse(body)
        data = Q.forward_taint(body, {1}, through_calls=[re.compile(r'^core::ptr::const_ptr::<impl \*const T>::cast$')])
        paths = _paths(body)
        cx.require(paths, '%s has no path to return' % body.fn)
        nets = set()
        for path in paths:
            net = 0
            for b in path:
                t = body.term(b)
                if t['k'] != 'call':
                    continue
                for n in Q.callee_names(t):
                    if n in EFFECT:
                        net += EFFECT[n]
                        if 'yash_executor::Task' not in (t['f'].get('ga') or ''):
                            cx.violation(body.fn, 'count-type:%s' % n.split('::')[-1], '%s is applied at type %s, not Rc<Task>'
                                         % (n, t['f'].get('ga')), loc=body.loc(t))
                        if Q.operand_local(t['a'][0]) not in data:
                            cx.violation(body.fn, 'count-pointer:%s' % n.split('::')[-1], '%s is not applied to the '
                                         "waker's data pointer" % n, loc=body.loc(t))
                        break
            nets.add(net)
        cx.site('%s: strong-count net %s over %d paths (expected %+d)' % (body.fn, sorted(nets), len(paths), NET[name]))
        if nets != {NET[name]}:
            cx.violation(body.fn, 'net:%s' % name, 'strong-count net of %s is %s, must be %+d: %s'
                         % (name, sorted(nets), NET[name], SLOT_MEANING[name]), loc=body.loc(body.d))
        # an Rc rebuilt from the pointer is handed to Task::wake (which queues or releases it)
        for b, t in Q.find_calls(body, ['alloc::rc::Rc::<T>::from_raw']):
            rc = t['dest']['l']
            # the rebuilt Rc may be bound to a named local first (`let task = Rc::from_raw(..); task.wake()`): follow moves
            moved = Q.forward_taint(body, {rc}, through_calls=[])
            users = [u for ub, u in body.calls() if any(Q.operand_local(a) in moved and 'mv' in a for a in u['a'])
                     and not Q.callee_is(u, ['alloc::rc::Rc::<T>::from_raw'])]
            if not (len(users) == 1 and Q.callee_is(users[0], [WAKE])):
                cx.violation(body.fn, 'from_raw-not-woken', 'the Rc<Task> rebuilt by from_raw is not moved into Task::wake '
                             '(forgetting it leaks a count, dropping it loses the wake-up)', loc=body.loc(t))
        wakes = Q.find_calls(body, [WAKE])
        want_wake = name in ('wake', 'wake_by_ref')
        if bool(wakes) != want_wake:
            cx.violation(body.fn, 'wake-call:%s' % name, '%s %s Task::wake' % (name, 'does not call' if want_wake else 'calls'),
                         loc=body.loc(body.d))
        if name == 'clone':
            rn = Q.find_calls(body, ['core::task::wake::RawWaker::new'])
            ok = len(rn) == 1 and rn[0][1]['dest']['l'] == 0 and Q.operand_local(rn[0][1]['a'][0]) in data and \
                rn[0][1]['a'][1].get('cdef') == W + 'VTABLE'
            if not ok:
                cx.violation(body.fn, 'clone-result', 'clone does not return RawWaker::new(data, VTABLE)', loc=body.loc(body.d))
    # into_waker: one count moves into the waker
    iw = F.body(W + 'into_waker')
    cx.fn(iw.fn)
    ir = Q.find_calls(iw, ['alloc::rc::Rc::<T, A>::into_raw', 'alloc::rc::Rc::<T>::into_raw'])
    rn = Q.find_calls(iw, ['core::task::wake::RawWaker::new'])
    fr = Q.find_calls(iw, ['core::task::wake::Waker::from_raw'])
    cx.site('%s: %d into_raw, %d RawWaker::new, %d Waker::from_raw' % (iw.fn, len(ir), len(rn), len(fr)))
    ok = len(ir) == 1 and len(rn) == 1 and len(fr) == 1
    if ok:
        ptr = Q.forward_taint(iw, {ir[0][1]['dest']['l']}, through_calls=[re.compile(r'::cast$')])
        ok = Q.operand_local(rn[0][1]['a'][0]) in ptr and rn[0][1]['a'][1].get('cdef') == W + 'VTABLE' and \
            Q.operand_local(ir[0][1]['a'][0]) is not None and \
            (_trace_place(Q.DefUse(iw), ir[0][1]['a'][0]) or {}).get('l') == 1
        extra = [n for b, t in iw.calls() for n in Q.callee_names(t) if n in EFFECT and 'into_raw' not in n]
        ok = ok and not extra
    if not ok:
        cx.violation(iw.fn, 'into_waker-shape', 'into_waker must turn the Rc<Task> into exactly one raw count carried by '
                     'RawWaker::new(ptr, VTABLE)', loc=iw.loc(iw.d))
    # who builds wakers for tasks
    callers = F.callers_of(lambda names, t: W + 'into_waker' in names)
    for b, i, t in callers:
        cx.site('%s calls into_waker at %s' % (b.root, b.loc(t)))
        if b.root != POLL:
            cx.violation(b.root, 'caller:into_waker', 'into_waker called outside Task::poll', loc=b.loc(t))


# ------------------------------------------------------------------ R6
RELAY = 'yash_executor::forwarder::Relay'
SEND = 'yash_executor::forwarder::Sender::<T>::send'
TRYRECV = 'yash_executor::forwarder::Receiver::<T>::try_receive'
RPOLL = '<yash_executor::forwarder::Receiver<T> as core::future::future::Future>::poll'


def _relay_table(cx, fn):
    F = cx.F
    h = F.hir_of(fn)
    ms = [m for m in H.matches_in(h['body']) if RELAY + '<' in (m.get('sty') or '')]
    cx.require(len(ms) == 1, '%s: expected one match over Relay, found %d' % (fn, len(ms)))
    m = ms[0]
    table = {}
    for v in ('Pending', 'Polled', 'Computed', 'Done'):
        val = ('variant', '%s::%s' % (RELAY, v), None)
        i, arm = H.first_matching_arm(m, val)
        cx.require(i is not None, '%s: arm for Relay::%s not decidable (%s)' % (fn, v, arm))
        table[v] = (i, arm['body'])
        cx.cellcount(1)
    return h, m, table


def _names(node):
    return [c.get('def') or c.get('decl') or '' for c in H.calls(node)]


def _ctors(node):
    """Paths of enum constructors / unit variants mentioned in a HIR subtree."""
    out = []
    for x in H.walk(node):
        if x.get('k') == 'path' and x.get('def'):
            out.append(x['def'])
        if x.get('k') == 'call' and x.get('ctor'):
            out.append(x['ctor'].get('def'))
    return out


_HIR_FACTS = {}


def _replaces(node, with_variant, _depth=0):
    """mem::replace(relay, Relay::<with_variant>..) calls in a subtree (following, one level, a private method of
    Relay that the arm calls: extracting the replace into a helper is a behaviour-preserving refactoring)."""
    out = []
    if _depth == 0 and _HIR_FACTS.get('F') is not None:
        F = _HIR_FACTS['F']
        for c in H.calls(node):
            d = c.get('def') or ''
            if d.startswith(RELAY + '::') and d in F.hir and (F.fns.get(d) or {}).get('vis') != 'pub':
                out.extend(_replaces(F.hir[d]['body'], with_variant, 1))
    for c in H.calls(node, ['core::mem::replace']):
        a = c['a'][1] if len(c['a']) == 2 else None
        d = H.path_def(a) if a is not None else None
        if d is None and isinstance(a, dict) and a.get('ctor'):
            d = a['ctor'].get('def')
        if d == '%s::%s' % (RELAY, with_variant):
            out.append(c)
    return out


def _diverges(node):
    n = H.peel(node)
    return any(x.startswith('core::panicking::') for x in _names(node)) and not any(
        c in ('core::result::Result::Ok', 'core::task::poll::Poll::Ready') for c in _ctors(node))


@RS.rule('C15.R6', 'K-TABLE', 'relay: send stores Computed and wakes exactly on Polled; receive hands the value out only on Computed (-> Done), never on Done')
def r6(cx):
    F = cx.F
    _HIR_FACTS['F'] = F
    # --- send
    h, m, t = _relay_table(cx, SEND)
    cx.fn(SEND)
    loc = '%s:%s' % (h['file'], m.get('line', h['line']))
    scrut = H.peel(m['scrut'])
    stored = bool(_replaces(scrut, 'Computed')) and scrut.get('k') == 'call'
    cx.site('send: match mem::replace(relay, Computed(value)) = %s' % stored)
    if not stored:
        cx.violation(SEND, 'send-store', 'send does not store Relay::Computed(value) by mem::replace before dispatching on '
                     'the previous state', loc=loc)
    else:
        val = H.peel(scrut['a'][1]['a'][0]) if scrut['a'][1].get('a') else {}
        if val.get('k') != 'local' or val.get('name') != 'value':
            cx.violation(SEND, 'send-value', 'the value stored in the relay is not the argument of send', loc=loc)
    wake_p = 'core::task::wake::Waker::wake' in _names(t['Pending'][1]) or 'core::task::wake::Waker::wake_by_ref' in _names(t['Pending'][1])
    wake_q = [n for n in _names(t['Polled'][1]) if n in ('core::task::wake::Waker::wake', 'core::task::wake::Waker::wake_by_ref')]
    if len(wake_q) != 1:
        cx.violation(SEND, 'cell:Polled', 'send on a relay in state Polled(waker) must wake that waker exactly once (found '
                     '%d wake calls): the task awaiting the result is never polled again' % len(wake_q), loc=loc)
    else:
        wk = [c for c in H.calls(t['Polled'][1]) if (c.get('def') or '') in ('core::task::wake::Waker::wake', 'core::task::wake::Waker::wake_by_ref')][0]
        if H.peel(wk['recv']).get('name') != 'waker':
            cx.violation(SEND, 'cell:Polled:waker', 'the waker woken is not the one stored in Polled', loc=loc)
    if wake_p:
        cx.violation(SEND, 'cell:Pending', 'send on a Pending relay has no waker to wake', loc=loc)
    for v in ('Pending', 'Polled'):
        if 'core::result::Result::Ok' not in _ctors(t[v][1]):
            cx.violation(SEND, 'cell:%s:result' % v, 'send must report Ok(()) from state %s' % v, loc=loc)
    for v in ('Computed', 'Done'):
        if not _diverges(t[v][1]):
            cx.violation(SEND, 'cell:%s' % v, 'send from state %s (a second send) must be impossible/diverge' % v, loc=loc)
    # --- receive side
    for fn, ready in ((RPOLL, 'core::task::poll::Poll::Ready'), (TRYRECV, 'core::result::Result::Ok')):
        h, m, t = _relay_table(cx, fn)
        cx.fn(fn)
        loc = '%s:%s' % (h['file'], m.get('line', h['line']))
        short = fn.split('::')[-1]
        # Computed: replace by Done, give the value
        i, body = t['Computed']
        rep = _replaces(body, 'Done')
        cx.site('%s: Computed arm: %d mem::replace(relay, Done), result ctor present: %s' % (short, len(rep), ready in _ctors(body)))
        if len(rep) != 1:
            cx.violation(fn, 'cell:Computed:state', '%s on Computed must move the relay to Done exactly once (the value could '
                         'be delivered twice or never)' % short, loc=loc)
        if ready not in _ctors(body):
            cx.violation(fn, 'cell:Computed:value', '%s on Computed does not return the value' % short, loc=loc)
        # value only on Computed
        for v in ('Pending', 'Polled', 'Done'):
            if t[v][0] == i:
                cx.violation(fn, 'cell:%s:shares-computed-arm' % v, 'state %s is handled by the Computed arm' % v, loc=loc)
                continue
            if ready in _ctors(t[v][1]):
                cx.violation(fn, 'cell:%s:value' % v, '%s returns a value from state %s (no value is available there; from Done '
                             'it would be a second delivery)' % (short, v), loc=loc)
            if v != 'Done' and (_replaces(t[v][1], 'Done') or _replaces(t[v][1], 'Computed')):
                cx.violation(fn, 'cell:%s:state' % v, '%s moves the relay out of %s without a value' % (short, v), loc=loc)
        if fn == RPOLL:
            for v in ('Pending', 'Polled'):
                b = t[v][1]
                assigns = [x for x in H.walk(b) if x.get('k') == 'assign']
                reg = False
                for a in assigns:
                    r = H.peel(a['r'])
                    if r.get('k') == 'call' and (r.get('ctor') or {}).get('def') == RELAY + '::Polled':
                        inner = _names(r)
                        if 'core::task::wake::Context::<\'a>::waker' in inner:
                            reg = True
                cx.site('poll: %s arm registers the current waker: %s' % (v, reg))
                if not reg:
                    cx.violation(fn, 'cell:%s:register' % v, 'Receiver::poll from %s must store Polled(context.waker().clone()): '
                                 'otherwise send has nobody to wake (or wakes a stale waker) and the receiver sleeps forever'
                                 % v, loc=loc)
                if 'core::task::poll::Poll::Pending' not in _ctors(b):
                    cx.violation(fn, 'cell:%s:pending' % v, 'Receiver::poll from %s must return Pending' % v, loc=loc)
        else:
            for v in ('Pending', 'Polled', 'Done'):
                if [x for x in H.walk(t[v][1]) if x.get('k') == 'assign']:
                    cx.violation(fn, 'cell:%s:mutates' % v, 'try_receive changes the relay in state %s' % v, loc=loc)
    # --- the forwarding task sends exactly once
    fb = F.body(ENQF + '::{closure#0}')
    cx.fn(fb.fn)
    sends = Q.find_calls(fb, [SEND])
    cx.site('%s: %d Sender::send' % (fb.fn, len(sends)))
    if len(sends) != 1:
        cx.violation(ENQF, 'send-count', 'the forwarding task must send its result exactly once (found %d sends)' % len(sends),
                     loc=fb.loc(fb.d))
    else:
        sb, st = sends[0]
        p = Q.must_pass(fb, [0], {sb})
        if p:
            cx.violation(ENQF, 'complete-without-send', 'the forwarding task can complete without sending the result: the '
                         'receiver waits forever', loc=fb.loc(st), path=Q.render_path(fb, p))
        if sb in fb.reachable(fb.succ(sb)[0]):
            cx.violation(ENQF, 'send-in-loop', 'the result can be sent more than once', loc=fb.loc(st))
    eb = F.body(ENQF)
    cx.fn(eb.fn)
    fw = Q.find_calls(eb, ['yash_executor::forwarder::forwarder'])
    cx.site('%s: %d forwarder() calls' % (eb.fn, len(fw)))
    if len(fw) != 1:
        cx.violation(ENQF, 'forwarder-count', 'enqueue_forwarding must create exactly one sender/receiver pair', loc=eb.loc(eb.d))


@RS.rule('C15.R6b', 'K-TYPESTATE', 'Receiver::poll returns Pending only with the relay left in Polled(waker): the wake-up for a later send is registered on every such path')
def r6b(cx):
    F = cx.F
    RELAY = 'yash_executor::forwarder::Relay'
    variants = [v['name'] for v in F.adt(RELAY)['variants']]
    fns = [fn for fn in F.bodies if fn.endswith('core::future::future::Future>::poll') and 'forwarder::Receiver' in fn]
    cx.require(len(fns) == 1, 'Receiver::poll not found: %s' % fns)
    body = F.inlined(F.bodies[fns[0]], lambda callee: callee.startswith(RELAY + '::'))
    cx.fn(body.fn)
    refs = [i for i, l in enumerate(body.locals) if l['ty'].startswith('&mut ' + RELAY)]
    named = [i for i in refs if body.locals[i].get('name') and i < len(F.bodies[fns[0]].locals)]   # not the inlined helper's `self`
    cx.require(len(named) == 1, 'expected one named &mut Relay local in Receiver::poll, found %s' % named)
    st_in, st_out = Q.variant_state_at_exits(F, body, named[0], RELAY, variants)
    exits = [(b, j, s) for b, j, s in Q.find_aggregates(body, 'core::task::poll::Poll', None) if s['lhs']['l'] == 0]
    cx.require(exits, 'no Poll::* return value constructed in Receiver::poll')
    for b, j, s in exits:
        v = s['rv']['variant']
        # state after the block's own writes
        state = st_out.get(b)
        cx.site('%s: return Poll::%s with relay in %s at %s' % (body.fn, v, sorted(state or []), body.loc(s)))
        if v == 'Pending' and not (state and state <= {'Polled'}):
            cx.violation(body.root, 'pending-without-registered-waker', 'Receiver::poll can return Poll::Pending leaving the relay in %s '
                         'instead of Polled(waker): a later Sender::send then wakes nobody, the waiting task is never polled again and its '
                         'result is lost' % sorted(state or ['?']), loc=body.loc(s))
        if v == 'Ready' and not (state and state <= {'Done'}):
            cx.violation(body.root, 'ready-without-done', 'Receiver::poll can return Poll::Ready leaving the relay in %s instead of Done: '
                         'the value could be handed out again' % sorted(state or ['?']), loc=body.loc(s))

import witness
witness.add(RS, 'C15.R6w', ['c15_sender_send_twice', 'c15_sender_not_clone'],
            'compile-fail witness: Sender::send consumes the sender (E0382) and Sender is not Clone (E0599), so a result is sent at most once')
