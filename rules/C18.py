"""C18 - input is consumed line by line, no further than the running command needs.

Structural clauses decided: the descriptor reader transfers one byte per read and
stops at the newline; the lexer asks for a line only when its buffer is exhausted
and the input is still alive; decorators hand through exactly the lines they
obtain; the read-eval loop refreshes the parser mode and parses one command line
per iteration before running it; buffered text is never discarded while pending."""
import re
from engine import RuleSet
import mirq as Q
import pp

RS = RuleSet(
    'C18',
    explanation=(
        'Dominance / cycle rules on the pre-lowering MIR: FdReader2::next_line passes Read::read a buffer made by '
        'slice::from_mut of a u8 (static length 1, so nothing behind the newline is taken from the descriptor), '
        'every byte obtained is appended, and the read is repeated only on the byte != newline edge and never after '
        'a zero-length read; LexerCore::peek_char is the only consumer of InputObject::next_line and calls it only on '
        'the `index < source.len()` false edge with state Alive; every input decorator obtains lines only from its '
        'inner input, returns exactly that value and re-reads only after an empty (EOF) line; in '
        'read_eval_loop_impl no cycle through Parser::command_line avoids Lexer::set_mode(Mode::from(options)), '
        'command_line dominates run_command, every Lexer::flush is guarded by pending() == false (or by the '
        'interactive error-recovery test); command_line is the only parse entry of the loop and has no other '
        'production caller; eval/source obtain the loop through RunReadEvalLoop.'),
    not_decided='independence of the executed commands from how the input is chunked; what remains readable on a '
                'shared descriptor after a command (depends on the simulated/real read semantics); here-document '
                'bodies spanning lines',
    assumptions=['dominance is computed on normal control flow (unwind edges dropped)',
                 'an await is the poll/yield loop of the pre-lowering MIR; such loops contain no user call'],
)

FDR = '<yash_env::input::fd_reader_2::FdReader2<S> as yash_env::input::Input>::next_line'
READ = ['*::Read::read']
INPUT_NEXT = ['yash_env::input::Input::next_line']
OBJ_NEXT = ['yash_env::input::InputObject::next_line']
PEEK = "yash_syntax::parser::lex::core::LexerCore::<'a>::peek_char"
LOOP = 'yash_semantics::runner::read_eval_loop_impl'


def _in_cycle_avoiding(body, block, removed):
    """Is `block` reachable from its own successors without entering `removed` blocks?"""
    removed = set(removed) - {block}
    for s in body.succ(block):
        if s in removed:
            continue
        if block in body.reachable(s, removed=removed):
            return True
    return False


def _switch_edges(F, body, du, pred):
    """[(block, target, label, origin)] for all switch edges whose (origin, label) satisfies pred."""
    out = []
    for b in sorted(body.live_blocks()):
        ec = Q.edge_condition(F, body, du, b)
        if ec is None:
            continue
        org, labels = ec
        for tgt, labs in labels.items():
            for lab in labs:
                if pred(org, lab):
                    out.append((b, tgt, lab, org))
    return out


# ---------------------------------------------------------------------------------------
# The one-byte read extracted into a private helper of the reader (`async fn read_byte(&mut self) -> Result<Option<u8>>`):
# the helper's coroutine body holds the Read::read, the reader's loop tests the helper's result. The helper is summarised
# (one read, not repeated, one-byte buffer, Ok(None) exactly on the zero-count edge, Ok(Some(that byte)) exactly on the
# non-zero edge); in the reader the call of the helper then stands for the read, the `None` edge for the zero-count edge
# and the local bound to the `Some` payload for the byte.
def _private_read_helpers(F, body):
    """Roots of non-public functions of the source file of `body` that `body` calls and that call Read::read themselves."""
    out = []
    for blk, t in body.calls():
        c = t['f'].get('def')
        sig = F.fns.get(c) if c else None
        if sig is None or sig.get('vis') == 'pub' or c in out or c == body.root or c not in F.by_root:
            continue
        hb = F.bodies.get(c)
        if hb is None or hb.file != body.file:
            continue
        if any(Q.find_calls(x, READ) for x in F.logical(c)):
            out.append(c)
    return out


def _byte_helper_summary(F, root):
    """{'root', 'body', 'rb', 'rt', 'byte_local' (None: the buffer is not slice::from_mut(&mut u8)), 'problem' (None: the helper
    returns Ok(None) exactly when the read count is 0 and Ok(Some(byte read)) exactly when it is not)}"""
    H = F.main_body(root)
    du = Q.DefUse(H)
    out = {'root': root, 'body': H, 'rb': None, 'rt': None, 'byte_local': None, 'problem': None}
    reads = Q.find_calls(H, READ)
    if len(reads) != 1 or any(Q.find_calls(x, READ) for x in F.logical(root) if x.fn != H.fn):
        out['problem'] = 'helper %s does not contain exactly one Read::read call' % root
        if reads:
            out['rb'], out['rt'] = reads[0]
        return out
    rb, rt = reads[0]
    out['rb'], out['rt'] = rb, rt
    out['byte_local'] = byte_local = _read_byte_local(H, du, rt)
    if byte_local is None:
        return out
    if any(rb in H.reachable(s) for s in H.succ(rb)):
        out['problem'] = 'helper %s repeats its read' % root
        return out
    zero = _zero_count_edges(F, H, du)
    if not zero:
        out['problem'] = 'helper %s does not test the read count against 0' % root
        return out
    after_zero = set()
    for u, v in zero:
        after_zero |= H.reachable(v)
    not_zero = set()
    for s in H.succ(rb):
        not_zero |= H.reachable(s, removed_edges=zero)
    kinds = set()
    for blk, j, st in Q.find_aggregates(H, 'core::result::Result', 'Ok'):
        if st['lhs']['l'] != 0 or st['lhs'].get('p'):
            continue
        org = du.origin(st['rv']['ops'][0])
        kind = None
        if org['k'] == 'agg' and org['rv'].get('adt') == 'core::option::Option':
            if org['rv'].get('variant') == 'None':
                kind = 'none'
            elif org['rv'].get('variant') == 'Some':
                l = Q.operand_local(org['rv']['ops'][0])
                if l is not None and _copy_of(du, l, byte_local):
                    kind = 'some'
        if kind == 'none' and blk not in not_zero:
            kinds.add(kind)
        elif kind == 'some' and blk not in after_zero:
            kinds.add(kind)
        else:
            out['problem'] = ('helper %s: the Ok(..) value returned at %s is not Ok(None) on the zero-count edge / Ok(Some(byte read)) '
                              'on the non-zero edge' % (root, H.loc(st)))
            return out
    if kinds != {'none', 'some'}:
        out['problem'] = 'helper %s does not return both Ok(None) (end of input) and Ok(Some(byte))' % root
    return out


def _helper_call_model(F, body, du, cb, ct):
    """In the reader: (byte local bound to the Some payload of the helper's result or None, None edges, Some edges)."""
    def from_call(pl):
        src = Q.value_source(body, du, {'cp': {'l': pl['l']}})
        return src is ct
    byte_locals = set()
    for blk, j, st in body.stmts():
        if st['k'] != 'assign' or st['rv']['k'] != 'use' or st['lhs'].get('p'):
            continue
        pl = Q.operand_place(st['rv']['o'])
        proj = (pl or {}).get('p') or []
        if len(proj) >= 2 and isinstance(proj[-2], dict) and proj[-2].get('v') == 'Some' and isinstance(proj[-1], dict) \
                and proj[-1].get('adt') == 'core::option::Option' and proj[-1].get('ty') == 'u8' and from_call(pl):
            byte_locals.add(st['lhs']['l'])

    def opt(org):
        return org['k'] == 'discr' and str(org['ty']).replace(' ', '') == 'core::option::Option<u8>' and from_call(org['pl'])
    none = [(b, tgt) for b, tgt, lab, org in _switch_edges(F, body, du, lambda org, lab: opt(org) and lab == ('variant', 'None'))]
    some = [(b, tgt) for b, tgt, lab, org in _switch_edges(F, body, du, lambda org, lab: opt(org) and lab == ('variant', 'Some'))]
    return (next(iter(byte_locals)) if len(byte_locals) == 1 else None), none, some



@RS.rule('C18.R1', 'K-EFFECT', 'FdReader2::next_line reads one byte at a time, keeps every byte, and stops at newline / EOF / error')
def r1(cx):
    F = cx.F
    body = F.main_body(FDR)
    cx.fn(body.fn)
    du = Q.DefUse(body)
    reads = Q.find_calls(body, READ)
    # the read moved into a private helper of the reader (`read_byte`): the call of the helper stands for the read
    models = [(rb, rt, None) for rb, rt in reads]
    for h in _private_read_helpers(F, body):
        sm = _byte_helper_summary(F, h)
        cx.fn(sm['body'].fn)
        for cb, ct in Q.find_calls(body, [h]):
            models.append((cb, ct, sm))
    cx.require(len(models) >= 1, 'no Read::read call in FdReader2::next_line')
    for rb, rt, sm in models:
        helper_zero = helper_nonzero = None
        if sm is not None:
            H = sm['body']
            cx.require(sm['rt'] is not None, sm['problem'] or 'helper without read')
            cx.site('%s: Read::read at %s in the private helper %s, called at %s' % (body.fn, H.loc(sm['rt']), sm['root'], body.loc(rt)))
            if sm['byte_local'] is None and len(Q.find_calls(H, READ)) == 1:
                cx.violation(FDR, 'buffer-not-one-byte',
                             'the buffer given to read is not slice::from_mut(&mut u8): a read may take bytes that follow '
                             'the newline from the descriptor, so they are lost to commands (e.g. `read`) sharing the input',
                             loc=H.loc(sm['rt']))
                continue
            cx.require(sm['problem'] is None, '%s (shape not understood: review)' % sm['problem'])
            byte_local, helper_zero, helper_nonzero = _helper_call_model(F, body, du, rb, rt)
            cx.require(byte_local is not None, 'the byte returned by helper %s is not bound from the Some payload of its result in '
                       'FdReader2::next_line (shape not understood: review)' % sm['root'])
            one = True
        else:
            cx.site('%s: Read::read at %s' % (body.fn, body.loc(rt)))
        # the buffer: slice::from_mut(&mut <u8 local>)  (static length 1)
        src = Q.value_source(body, du, rt['a'][-1]) if sm is None else None
        if sm is None:
            one = False
            byte_local = None
        if src is not None and Q.callee_is(src, ['core::slice::raw::from_mut']):
            org = du.origin(src['a'][0])
            if org['k'] == 'ref':
                pl = du.deref_origin(org['pl'])
                if Q.is_plain(pl) and body.locals[pl['l']].get('ty') == 'u8':
                    one = True
                    byte_local = pl['l']
        if not one:
            # an explicit one-element array is the same static bound
            org = du.origin(rt['a'][-1])
            if org['k'] == 'cast' and re.search(r'\[u8; 1\]', str(org['rv'].get('from', ''))):
                one = True
        if not one:
            cx.violation(FDR, 'buffer-not-one-byte',
                         'the buffer given to read is not slice::from_mut(&mut u8): a read may take bytes that follow '
                         'the newline from the descriptor, so they are lost to commands (e.g. `read`) sharing the input',
                         loc=body.loc(rt))
            continue
        # outcome switch on the Ok payload of the read
        def cmp_zero(org, lab):
            """`count == 0` / `count != 0` on the value returned by the read (also after `?`): True = zero edge, False = non-zero edge"""
            if org['k'] != 'binop' or org['rv']['op'] not in ('Eq', 'Ne') or lab[0] != 'bool':
                return None
            ops = [org['rv']['a'], org['rv']['b']]
            consts = [o for o in ops if 'c' in o and str(o['c']).split('_')[0] == '0']
            others = [o for o in ops if 'cp' in o or 'mv' in o]
            if len(consts) != 1 or len(others) != 1:
                return None
            src = Q.value_source(body, du, others[0])
            if src is None or not Q.callee_is(src, READ):
                return None
            return lab[1] if org['rv']['op'] == 'Eq' else (not lab[1])

        def is_count_zero(org, lab):
            if cmp_zero(org, lab) is True:
                return True
            return lab == ('int', 0) and org['k'] == 'place' and \
                any(isinstance(e, dict) and e.get('v') == 'Ok' for e in (org['pl'].get('p') or [])) and \
                _from_read(body, du, org['pl'])
        zero = _switch_edges(F, body, du, is_count_zero) if sm is None else [(b, tgt, None, None) for b, tgt in helper_zero]
        if not zero:
            cx.violation(FDR, 'no-eof-test', 'the read count is not tested against 0: end of input is not recognised', loc=body.loc(rt))
        for b, tgt, lab, org in zero:
            cx.site('%s: Ok(0) edge bb%d->bb%d' % (body.fn, b, tgt))
            if rb in body.reachable(tgt):
                cx.violation(FDR, 'read-after-eof', 'after a zero-length read (end of input) the descriptor is read again',
                             loc=body.loc(body.term(b)))
        # newline test on the byte just read
        def is_nl(org, lab):
            if org['k'] != 'binop' or org['rv']['op'] not in ('Eq', 'Ne'):
                return False
            ops = [org['rv']['a'], org['rv']['b']]
            consts = [o for o in ops if 'c' in o]
            locs = [Q.operand_local(o) for o in ops if 'c' not in o]
            if len(consts) != 1 or not str(consts[0]['c']).startswith('10_u8'):
                return False
            if not locs or _base_local(du, locs[0]) != byte_local:
                return False
            return lab[0] == 'bool'
        nl = _switch_edges(F, body, du, is_nl)
        if not nl:
            cx.violation(FDR, 'no-newline-test', 'the byte read is not compared with the newline: reading continues past the '
                         'end of the line, so the next lines are consumed before the current command runs', loc=body.loc(rt))
        stop_edges = set()
        for b, tgt, lab, org in nl:
            is_newline = (lab[1] is True) if org['rv']['op'] == 'Eq' else (lab[1] is False)
            cx.site('%s: byte %s 10 edge %s bb%d->bb%d' % (body.fn, org['rv']['op'], lab[1], b, tgt))
            if is_newline:
                stop_edges.add((b, tgt))
                if rb in body.reachable(tgt):
                    cx.violation(FDR, 'read-after-newline', 'after the newline byte the descriptor is read again '
                                 '(the next line is consumed before the current command has run)', loc=body.loc(body.term(b)))
        # the only way back to the read is the byte != newline edge
        cont = {(b, tgt) for b, tgt, lab, org in nl} - stop_edges
        for s in body.succ(rb):
            if rb in body.reachable(s, removed_edges=cont):
                cx.violation(FDR, 'reread-without-newline-test', 'the read can be repeated on a path that does not test '
                             'the byte against newline', loc=body.loc(rt))
                break
        # every byte read is kept
        pushes = [(b, t) for b, t in Q.find_calls(body, ['alloc::vec::Vec::<T, A>::push'])
                  if Q.operand_local(t['a'][1]) is not None and _base_local(du, Q.operand_local(t['a'][1])) == byte_local]
        nonzero = [(b, tgt) for b, tgt, lab, org in _switch_edges(
            F, body, du, lambda org, lab: cmp_zero(org, lab) is False or (lab == ('else',) and org['k'] == 'place' and
            any(isinstance(e, dict) and e.get('v') == 'Ok' for e in (org['pl'].get('p') or [])) and _from_read(body, du, org['pl'])))] \
            if sm is None else helper_nonzero
        cx.require(nonzero, 'non-zero count edge not found')
        for b, tgt in nonzero:
            goals = set(body.return_blocks()) | {rb} | {x[0] for x in nl}
            p = Q.must_pass(body, [tgt], {pb for pb, _ in pushes}, goal_blocks=goals)
            cx.site('%s: byte kept (Vec::push) on the count != 0 edge bb%d->bb%d' % (body.fn, b, tgt))
            if p:
                cx.violation(FDR, 'byte-dropped', 'a byte obtained from the descriptor is not appended to the line',
                             loc=body.loc(rt), path=Q.render_path(body, p))
    cx.sample({'function': body.fn, 'reads': [body.loc(t) for _, t, _ in models]})


def _base_local(du, l):
    """The user-named local a temporary is a plain copy of (stops at named locals:
    a named mutable local is not replaced by its initialiser)."""
    body = du.body
    for _ in range(8):
        if body.locals[l].get('name'):
            return l
        d = du.single_def(l)
        if d is None or d[1] == 't' or d[2]['k'] != 'assign' or d[2]['rv']['k'] != 'use':
            return l
        p = Q.operand_place(d[2]['rv']['o'])
        if p is None or not Q.is_plain(p):
            return l
        l = p['l']
    return l


def _reach_bool(body, start, removed_edges=()):
    """Blocks reachable from `start`, path-sensitive in bool locals that were assigned the constants
    true/false on the path: a switch on (a copy of) such a local follows only the matching edge.
    (`let stop = a || b; if stop {..}` assigns the constant on the short-circuit edges.)"""
    removed_edges = set(removed_edges)
    seen = set()
    out = set()
    stack = [(start, frozenset())]
    while stack:
        b, env = stack.pop()
        if (b, env) in seen:
            continue
        seen.add((b, env))
        out.add(b)
        e = dict(env)
        for s in body.blocks[b]['s']:
            if s['k'] != 'assign' or s['lhs'].get('p'):
                continue
            l = s['lhs']['l']
            rv = s['rv']
            val = None
            if rv['k'] == 'use':
                o = rv['o']
                if o.get('ty') == 'bool' and o.get('c') in ('true', 'false'):
                    val = (o['c'] == 'true')
                else:
                    pl = Q.operand_place(o)
                    if pl is not None and Q.is_plain(pl) and pl['l'] in e:
                        val = e[pl['l']]
            if val is None:
                e.pop(l, None)
            else:
                e[l] = val
        t = body.blocks[b]['t']
        if t['k'] == 'call':
            e.pop(t['dest']['l'], None)
        succ = body.succ(b)
        if t['k'] == 'switch' and t.get('dty') == 'bool':
            l = Q.operand_local(t['d'])
            if l is not None and l in e:
                want = 1 if e[l] else 0
                tgt = None
                for v, x in t['ts']:
                    if v == want:
                        tgt = x
                succ = [tgt if tgt is not None else t['else']]
        # values of locals whose address may have been taken are not tracked precisely; bool temporaries of
        # short-circuit expressions are never borrowed
        fe = frozenset(e.items())
        for x in succ:
            if (b, x) in removed_edges:
                continue
            stack.append((x, fe))
    return out


def _is_bool_param(body, org):
    """A bool parameter of the function: an argument local, or (in a coroutine body) a bool capture of the state."""
    if org['k'] == 'arg':
        return body.locals[org['l']].get('ty') == 'bool'
    if org['k'] == 'place' and org['pl']['l'] == 1:
        proj = org['pl'].get('p') or []
        return len(proj) == 1 and isinstance(proj[0], dict) and proj[0].get('ty') == 'bool' and 'f' in proj[0]
    return False


def _from_read(body, du, pl):
    src = Q.value_source(body, du, {'cp': {'l': pl['l']}})
    return src is not None and Q.callee_is(src, READ)


DECORATOR_SELF = re.compile(r'^<(yash_env::input::(echo::Echo|reporter::Reporter|eof_guard::EofGuard|ignore_eof::IgnoreEof)'
                            r'|yash_prompt::prompter::Prompter)<')
BLANKET = {'<T as yash_env::input::Input>::next_line', '<T as yash_env::input::InputObject>::next_line'}


@RS.rule('C18.R2', 'K-CALLERS+K-GUARD', 'a line is requested only by the lexer when its buffer is exhausted; decorators pass lines through unchanged in number')
def r2(cx):
    F = cx.F
    callers = F.callers_of(lambda names, t: any(n in INPUT_NEXT + OBJ_NEXT for n in names))
    cx.floor(len(callers), 7, 'call sites of Input::next_line / InputObject::next_line')
    decorators = {}
    for b, i, t in callers:
        cx.site('%s calls %s at %s' % (b.root, pp.callee(t), b.loc(t)))
        if b.root in BLANKET:
            continue
        if b.root == PEEK:
            continue
        if DECORATOR_SELF.search(b.root) and b.root.endswith(' as yash_env::input::Input>::next_line'):
            decorators.setdefault(b.root, []).append((b, i, t))
            continue
        cx.violation(b.root, 'caller:next_line', 'input lines are requested outside the lexer and the input decorators: '
                     'a line taken here is consumed before the running command could read it', loc=b.loc(t))
    # the lexer
    body = F.main_body(PEEK)
    cx.fn(body.fn)
    du = Q.DefUse(body)
    nl = Q.find_calls(body, OBJ_NEXT + INPUT_NEXT)
    if not nl:
        cx.violation(PEEK, 'no-next-line', 'LexerCore::peek_char no longer obtains lines from its input', loc=body.loc(body.d))
    for b, t in nl:
        conds = Q.dominating_conditions(F, body, du, b)
        exhausted = False
        alive = False
        for org, lab, e in conds:
            if org['k'] == 'binop' and org['rv']['op'] in ('Lt', 'Ge') and lab[0] == 'bool':
                a, bb_ = du.origin(org['rv']['a']), du.origin(org['rv']['b'])
                a_is_index = a['k'] == 'place' and any(isinstance(x, dict) and x.get('f') == 'index' for x in (a['pl'].get('p') or []))
                b_is_len = bb_['k'] == 'call' and Q.callee_is(bb_['t'], [re.compile(r'^alloc::vec::Vec::<T, A>::len$')]) and \
                    (Q.operand_name(body, du, bb_['t']['a'][0]) or '').endswith('source')
                if a_is_index and b_is_len and lab[1] == (org['rv']['op'] == 'Ge'):
                    exhausted = True
            if org['k'] == 'discr' and 'InputState' in org['ty'] and lab == ('variant', 'Alive'):
                alive = True
        cx.site('%s: next_line at %s: buffer exhausted=%s, state alive=%s' % (body.fn, body.loc(t), exhausted, alive))
        if not exhausted:
            cx.violation(PEEK, 'read-with-buffered-text', 'the next line is requested although characters are still buffered '
                         '(index < source.len() is not known to be false): input is consumed ahead of the command being parsed',
                         loc=body.loc(t))
        if not alive:
            cx.violation(PEEK, 'read-after-end', 'the next line is requested although the input state is not Alive '
                         '(the input is read again after end of input or an error)', loc=body.loc(t))
    # the decorators
    want = {'Echo', 'Reporter', 'EofGuard', 'IgnoreEof', 'Prompter'}
    seen = set()
    for root, lst in sorted(decorators.items()):
        name = DECORATOR_SELF.search(root).group(1).split('::')[-1]
        seen.add(name)
        body = lst[0][0]
        cx.fn(body.fn)
        du = Q.DefUse(body)
        for b_, i, t in lst:
            recv = Q.operand_name(body, du, t['a'][0]) or ''
            if not recv.endswith('inner'):
                cx.violation(root, 'not-inner', '%s reads a line from something other than its inner input' % name, loc=body.loc(t))
            # repeated only after an empty line
            def is_empty_true(org, lab):
                return org['k'] == 'call' and Q.callee_is(org['t'], ['alloc::string::String::is_empty', 'core::str::<impl str>::is_empty']) \
                    and lab == ('bool', True)
            empties = {(x, y) for x, y, lab, org in _switch_edges(F, body, du, is_empty_true)}
            again = any(i in _reach_bool(body, s, removed_edges=empties) for s in body.succ(i))
            cx.site('%s: inner.next_line at %s, %d is_empty()==true edges' % (root, body.loc(t), len(empties)))
            if again:
                cx.violation(root, 'rereads-after-nonempty-line', '%s can ask its inner input for another line after a '
                             'non-empty one: that line is swallowed' % name, loc=body.loc(t))
        # every Ok value returned is the inner line
        calls = {id(t) for _, _, t in lst}
        for b2, j, s in Q.find_aggregates(body, 'core::result::Result', 'Ok'):
            if s['lhs']['l'] != 0:
                continue
            src = Q.value_source(body, du, s['rv']['ops'][0])
            cx.site('%s: returns Ok(..) at %s' % (root, body.loc(s)))
            if src is None or id(src) not in calls:
                cx.violation(root, 'returns-other-line', '%s returns a line that is not the one obtained from its inner input' % name,
                             loc=body.loc(s))
    for n in sorted(want - seen):
        cx.violation('yash_env::input::' + n, 'decorator-without-inner-read', 'input decorator %s does not call its inner input' % n,
                     loc=None)


@RS.rule('C18.R3', 'K-ORDER', 'read-eval loop: mode refreshed and one command line parsed per iteration, then run; buffered text never flushed while pending')
def r3(cx):
    F = cx.F
    body = F.inlined(F.main_body(LOOP))       # private helpers of the runner module are inlined (extracted loop preamble)
    cx.fn(body.fn)
    du = Q.DefUse(body)
    parse = Q.find_calls(body, ['*::command_line'])
    if len(parse) != 1:
        cx.site('%s: %d command_line calls' % (body.fn, len(parse)))
        cx.violation(LOOP, 'parse-entry-count', 'the loop must parse exactly one command line per iteration with '
                     'Parser::command_line (found %d calls)' % len(parse), loc=body.loc(body.d))
        return
    pb, pt = parse[0]
    setm = Q.find_calls(body, ["yash_syntax::parser::lex::core::Lexer::<'a>::set_mode"])
    run = Q.find_calls(body, ['yash_semantics::runner::run_command'])
    cx.require(run, 'run_command is not called in read_eval_loop_impl')
    for b, t in parse + setm + run:
        cx.site('%s: %s at %s' % (body.fn, pp.callee(t).split('::')[-1], body.loc(t)))
    if not _in_cycle_avoiding(body, pb, ()):
        cx.violation(LOOP, 'parse-not-in-loop', 'command_line is not inside the loop: only one command is ever read', loc=body.loc(pt))
    # mode: set from the current options inside every cycle through command_line
    good_set = []
    for b, t in setm:
        src = Q.value_source(body, du, t['a'][1])
        ok = src is not None and Q.callee_is(src, [re.compile(r'^<yash_env::parser::Mode as core::convert::From<&yash_env::option::OptionSet>>::from$')])
        if ok:
            nm = Q.operand_name(body, du, src['a'][0]) or ''
            ok = nm.endswith('options')
            if ok:
                # the options are read through a borrow taken in the same iteration
                borrow = Q.find_calls(body, ['core::cell::RefCell::<T>::borrow'])
                ok = any(body.dominates(bb, b) and _in_cycle_avoiding(body, bb, ()) for bb, _ in borrow)
        if ok:
            good_set.append(b)
        else:
            cx.violation(LOOP, 'set-mode-source', 'the lexer mode is not computed by Mode::from(&env.options) read in this iteration',
                         loc=body.loc(t))
    if _in_cycle_avoiding(body, pb, good_set):
        cx.violation(LOOP, 'mode-not-refreshed', 'a loop iteration can reach command_line without lexer.set_mode(Mode::from(options)): '
                     'an option changed by the previous command (set -o posix...) does not affect the next line',
                     loc=body.loc(pt))
    if good_set and not any(body.dominates(b, pb) for b in good_set):
        cx.violation(LOOP, 'mode-after-parse', 'set_mode does not precede command_line', loc=body.loc(pt))
    # one command parsed, then run, before the next parse
    for b, t in run:
        if not body.dominates(pb, b):
            cx.violation(LOOP, 'run-before-parse', 'run_command is not dominated by command_line', loc=body.loc(t))
    # the parsed Ok(Some(command)) is executed before parsing again: from the Some edge every path to command_line passes run_command
    def some_edge(org, lab):
        return org['k'] == 'discr' and lab == ('variant', 'Some') and 'List' in org['ty']
    some = _switch_edges(F, body, du, some_edge)
    cx.require(some, 'no Ok(Some(command)) edge found in read_eval_loop_impl')
    for b, tgt, lab, org in some:
        cx.site('%s: Ok(Some(command)) edge bb%d->bb%d' % (body.fn, b, tgt))
        p = Q.must_pass(body, [tgt], {rb for rb, _ in run}, goal_blocks={pb} | set(body.return_blocks()))
        if p:
            cx.violation(LOOP, 'parsed-command-not-run', 'a parsed command can be skipped (next line parsed or loop left without '
                         'running it)', loc=body.loc(body.term(b)), path=Q.render_path(body, p))
    # flush only when nothing is pending (or in interactive error recovery)
    flushes = Q.find_calls(body, ["yash_syntax::parser::lex::core::Lexer::<'a>::flush", "yash_syntax::parser::lex::core::Lexer::<'a>::reset"])
    for b, t in flushes:
        conds = Q.dominating_conditions(F, body, du, b)
        not_pending = any(Q.cond_is_call(org, ["yash_syntax::parser::lex::core::Lexer::<'a>::pending"]) and lab == ('bool', False)
                          for org, lab, e in conds)
        interactive = any(_is_bool_param(body, org) and lab == ('bool', True) for org, lab, e in conds)
        recovering = any(org['k'] == 'discr' and lab == ('variant', 'Break') for org, lab, e in conds)
        cx.site('%s: %s at %s (pending()==false: %s, interactive recovery: %s)' % (body.fn, pp.callee(t).split('::')[-1], body.loc(t),
                                                                                 not_pending, interactive and recovering))
        if not (not_pending or (interactive and recovering)):
            cx.violation(LOOP, 'flush-while-pending', 'the lexer buffer is discarded without testing pending(): the rest of the '
                         'current line (`a; b` on one line) is lost', loc=body.loc(t))


@RS.rule('C18.R4', 'K-CALLERS', 'command_line is the only parse entry of the loop; eval/source reach it through RunReadEvalLoop')
def r4(cx):
    F = cx.F
    body = F.main_body(LOOP)
    cx.fn(body.fn)
    allowed = {'config', 'aliases', 'declaration_utilities', 'input', 'command_line'}
    n = 0
    for b, t in body.calls():
        for nm in Q.callee_names(t):
            if nm.startswith('yash_syntax::parser::') and ('Parser<' in nm or 'Parser::<' in nm or 'Config::<' in nm):
                n += 1
                cx.site('%s: %s at %s' % (body.fn, nm, body.loc(t)))
                if nm.split('::')[-1] not in allowed:
                    cx.violation(LOOP, 'parse-entry:%s' % nm.split('::')[-1], 'the loop parses with %s: more (or less) than one '
                                 'complete command line is consumed per iteration' % nm, loc=body.loc(t))
                break
    cx.floor(n, 4, 'parser calls in read_eval_loop_impl')
    callers = F.callers_of(lambda names, t: any(n.startswith('yash_syntax::parser::') and n.endswith('::command_line') for n in names))
    for b, i, t in callers:
        cx.site('%s calls command_line at %s' % (b.root, b.loc(t)))
        if b.root != LOOP:
            cx.violation(b.root, 'caller:command_line', 'command_line is called outside the read-eval loop', loc=b.loc(t))
    # whole-input parse entries must not be used to execute scripts
    whole = F.callers_of(lambda names, t: any(
        n in ('yash_syntax::parser::from_str::<impl core::str::traits::FromStr for yash_syntax::syntax::List>::from_str',)
        or (n.startswith('yash_syntax::parser::') and n.endswith('::program')) for n in names))
    for b, i, t in whole:
        cx.site('%s parses a whole input at %s' % (b.root, b.loc(t)))
        if not b.root.startswith('yash_syntax::'):
            cx.violation(b.root, 'whole-input-parse', 'a complete input is parsed before anything runs: a later syntax error '
                         'suppresses earlier commands', loc=b.loc(t))
    # eval / source
    for root in ('yash_builtin::eval::main', 'yash_builtin::source::semantics::<impl yash_builtin::source::Command>::execute'):
        bodies = F.logical(root)
        cx.fn(root)
        hit = False
        for b in bodies:
            for i, t in b.calls():
                if 'RunReadEvalLoop' in (t['f'].get('ga') or ''):
                    hit = True
        cx.site('%s obtains RunReadEvalLoop: %s' % (root, hit))
        if not hit:
            cx.violation(root, 'no-read-eval-loop', '%s does not run its input through the read-eval loop (RunReadEvalLoop)' % root,
                         loc=bodies[0].loc(bodies[0].d))


# ---------------------------------------------------------------------------------------
# C18.R1b - every read on a descriptor that other commands also read is one byte long
READ_SITES = {
    # function (root) -> class
    'yash_builtin::read::input::read_char': 'one-byte',
    # fix (audit C18h2 #1): after an encoding error the read built-in drains the rest of ITS line, byte by byte
    'yash_builtin::read::input::skip_rest_of_line': 'one-byte',
    '<yash_env::input::fd_reader_2::FdReader2<S> as yash_env::input::Input>::next_line': 'one-byte',
    'yash_env::system::concurrency::<impl yash_env::system::io::Read for alloc::rc::Rc<yash_env::system::concurrency::Concurrent<S>>>::read': 'delegate',
    '<alloc::rc::Rc<S> as yash_env::system::io::Read>::read': 'delegate',
    '<yash_env::system::concurrency::Concurrent<S> as yash_env::system::concurrency::rw_all::ReadAll>::read_all_to': 'bulk-private',
}


def _inherited_reader_class(F, b):
    sig = F.fns.get(b.root)
    if sig is None or sig.get('vis') == 'pub' or ' as ' in b.root:
        return None
    callers = F.callers_of(lambda names, t: b.root in names)
    owners = {c.root for c, _, _ in callers}
    if len(owners) != 1:
        return None
    owner = next(iter(owners))
    if READ_SITES.get(owner) != 'one-byte' or any(c.file != b.file for c, _, _ in callers):
        return None
    return 'one-byte'


@RS.rule('C18.R1b', 'K-EFFECT', 'every reader of a shared descriptor (script input, the read built-in) asks the system for exactly one byte at a time')
def r1b(cx):
    F = cx.F
    sites = F.callers_of(lambda names, t: Q.callee_is(t, ['*::Read::read']))
    cx.floor(len(sites), 4, 'Read::read call sites')
    for b, blk, t in sites:
        cls = READ_SITES.get(b.root)
        if cls is None:
            # a private helper of a reviewed one-byte reader, called only by that reader, is part of it: it inherits the
            # review, and the buffer it passes is checked like the reader's own
            cls = _inherited_reader_class(F, b)
        cx.site('%s: read at %s -> %s' % (b.root, b.loc(t), cls))
        cx.fn(b.root)
        if cls is None:
            cx.violation(b.root, 'unclassified-reader', 'a new reader of a file descriptor: if the descriptor is shared with the commands the '
                         'shell runs (standard input, a script file) it must read one byte at a time so that nothing beyond the current '
                         'line/character is consumed', loc=b.loc(t))
            continue
        if cls != 'one-byte':
            continue
        du = Q.DefUse(b)
        src = Q.value_source(b, du, t['a'][2])
        ok = src is not None and Q.callee_is(src, [Q.re.compile(r'^core::slice::(raw::)?from_mut$')])
        if ok:
            # the argument of from_mut is a single u8 place (a local or one array element), not a sub-slice
            at = src.get('at', [''])[0]
            ok = at.replace(' ', '') in ('&mutu8',)
        if not ok:
            cx.violation(b.root, 'multi-byte-read', 'the buffer handed to read() is not a one-byte slice (slice::from_mut of a u8): more than the '
                         'current character/line can be consumed from a descriptor that the next command or `read` also reads',
                         loc=b.loc(t))


@RS.rule('C18.R5', 'K-ORDER', 'here-document body: once the newline ending the delimiter line is consumed, nothing more is read from the input before the command runs')
def r5(cx):
    F = cx.F
    fns = [f for f in F.bodies if Q.re.search(r'lex::heredoc::.*::here_doc_content::\{closure#0\}$', f)]
    cx.require(len(fns) == 1, 'Lexer::here_doc_content not found')
    b = F.bodies[fns[0]]
    cx.fn(b.fn)

    def reads_input(t):
        for n in Q.callee_names(t):
            if n.startswith('yash_syntax::parser::lex::') and (F.fns.get(n) or {}).get('async'):
                return True
        return False
    readers = [(blk, t) for blk, t in b.calls() if reads_input(t)]
    skips = [(blk, t) for blk, t in readers if Q.callee_is(t, [Q.re.compile(r'::skip_if$')])]
    cx.require(len(skips) == 1, 'the skip_if(newline) call was not found in here_doc_content')
    sblk = skips[0][0]
    goals = [blk for blk, t in Q.find_calls(b, [Q.re.compile(r'OnceCell::<T>::set$')])]
    cx.require(len(goals) == 1, 'the store of the finished here-document content was not found')
    gblk = goals[0]
    cx.site('%s: %d input-reading calls; newline consumed at %s; content stored at %s'
            % (b.fn, len(readers), b.loc(skips[0][1]), b.loc(b.term(gblk))))
    after = b.reachable(sblk, removed=set())
    for blk, t in readers:
        if blk == sblk:
            continue
        # reachable from the newline consumption without passing it again, and leads to the normal exit without passing it again
        fwd = set()
        for s in b.succ(sblk):
            fwd |= b.reachable(s, removed={sblk})
        if blk in fwd and gblk in b.reachable(blk, removed={sblk}):
            cx.violation(b.root, 'read-after-delimiter-newline:%s' % pp.callee(t).split('::')[-1],
                         'after consuming the newline that ends a here-document line the lexer calls %s, which peeks at the next '
                         'character and so pulls the line FOLLOWING the delimiter into the lexer before the command runs: a command that '
                         'reads the same input (`cat <<END; read x`) loses that line' % pp.callee(t), loc=b.loc(t))


# ---------------------------------------------------------------------------------------
# added after the audit C18h2 #1 (fix: `read` left the rest of its data line on the shared descriptor after an invalid byte)
@RS.rule('C18.R6', 'K-PASS', 'the read built-in consumes the line it was asked to read on EVERY exit, also when the line cannot be decoded: its '
         'entry point has, after the decoding step, an error edge that runs a drain routine (a unit-valued loop of one-byte reads up to the '
         'delimiter) - otherwise the rest of a data line is executed as the next command of a script read from the same descriptor')
def r6(cx):
    F = cx.F
    fn = 'yash_builtin::read::input::read'
    body = F.main_body(fn)
    cx.fn(body.fn)
    drains = []
    for k, b in F.bodies.items():
        if not k.startswith('yash_builtin::read::input::') or '::tests' in k or b.root == fn:
            continue
        reads = Q.find_calls(b, ['*::Read::read'])
        if not reads:
            continue
        sig = F.fns.get(b.root) or {}
        out = str(sig.get('output') or '').strip()
        unit = out in ('()', '') or out.endswith('Output = ()>')
        looping = any(blk in b.reachable(s_) for blk, t in reads for s_ in b.succ(blk))
        if unit and looping:
            drains.append(b.root)
    drains = sorted(set(drains))
    called = [(blk, t) for blk, t in body.calls() if any(pp.callee(t) == d or pp.callee(t).startswith(d) for d in drains)]
    cx.site('read::input::read: drain routines %s; called on an exit path of the entry point: %s' % ([d.split('::')[-1] for d in drains], bool(called)))
    if not called:
        cx.violation(fn, 'line-not-drained-on-decoding-error', 'when the data line contains a byte that is not valid UTF-8 the read built-in returns '
                     'at once, having consumed the line only up to that byte; with the script on the same descriptor the shell then executes the '
                     'REST OF THE DATA LINE as a command: `read name` + `Jos\\351; echo INJECTED` prints INJECTED (bash runs the next script line; '
                     'the manual promises that nothing of the remaining input is lost or misplaced)', loc=body.loc(body.d))
        return
    # the drain is conditional on the failure of the decoding step: it must be reachable from that step
    steps = [(blk, t) for blk, t in body.calls() if pp.callee(t).startswith('yash_builtin::read::input::') and not any(pp.callee(t).startswith(d) for d in drains)]
    cx.require(steps, 'read no longer delegates the decoding to a helper of its module (shape changed: review)')
    if not any(cb in body.reachable(sb) for sb, st in steps for cb, ct in called):
        cx.violation(fn, 'drain-not-after-decoding', 'the drain routine is not reachable from the decoding step', loc=body.loc(called[0][1]))


RS.explanation += ' The read built-in drains its line after a decoding error (R6).'


# ---------------------------------------------------------------------------------------
# C18.R7 - a descriptor line reader ends a line only at the newline / at end of input, and decodes the line once
# (seed C18-a: a 4096-byte cap in FdReader2::next_line handed a long line to the lexer in separately decoded pieces)
NEXT_LINE_IMPL = re.compile(r' as yash_env::input::Input>::next_line$')
UTF8_DECODE = re.compile(r'(^|::)(from_utf8(_lossy|_lossy_owned|_unchecked|_mut|_unchecked_mut)?|utf8_chunks)$')
FROM_MUT = re.compile(r'^core::slice::(raw::)?from_mut$')


def _read_byte_local(body, du, rt):
    """The u8 local behind the slice::from_mut(&mut byte) buffer of a Read::read call (None: not that shape)."""
    src = Q.value_source(body, du, rt['a'][-1])
    if src is None or not Q.callee_is(src, [FROM_MUT]):
        return None
    org = du.origin(src['a'][0])
    if org['k'] != 'ref':
        return None
    pl = du.deref_origin(org['pl'])
    if Q.is_plain(pl) and body.locals[pl['l']].get('ty') == 'u8':
        return pl['l']
    return None


def _copy_of(du, l, target):
    """Is local `l` a plain copy (through single-definition temporaries and single-definition bindings, e.g. the
    parameter of an inlined helper) of local `target`?"""
    body = du.body
    for _ in range(12):
        if l == target:
            return True
        d = du.single_def(l)
        if d is None or d[1] == 't' or d[2]['k'] != 'assign' or d[2]['rv']['k'] != 'use':
            return False
        p = Q.operand_place(d[2]['rv']['o'])
        if p is None or not Q.is_plain(p):
            return False
        l = p['l']
    return False


def _zero_count_edges(F, body, du):
    """Switch edges taken exactly when the count returned by Read::read is 0 (`Ok(0)` pattern, `count == 0`, `count != 0` false)."""
    def pred(org, lab):
        if org['k'] == 'binop' and org['rv']['op'] in ('Eq', 'Ne') and lab[0] == 'bool':
            ops = [org['rv']['a'], org['rv']['b']]
            consts = [o for o in ops if 'c' in o and str(o['c']).split('_')[0] == '0']
            others = [o for o in ops if 'cp' in o or 'mv' in o]
            if len(consts) != 1 or len(others) != 1:
                return False
            src = Q.value_source(body, du, others[0])
            if src is None or not Q.callee_is(src, READ):
                return False
            return lab[1] is (org['rv']['op'] == 'Eq')
        # `Ok(0) =>` on the result of the read, `0 =>` on the value of `read(..).await?`
        return lab == ('int', 0) and org['k'] == 'place' and \
            any(isinstance(e, dict) and e.get('v') in ('Ok', 'Continue') for e in (org['pl'].get('p') or [])) and _from_read(body, du, org['pl'])
    return {(b, tgt) for b, tgt, lab, org in _switch_edges(F, body, du, pred)}


def _newline_edges(F, body, du, byte_local):
    """Switch edges taken exactly when the byte just read is the newline: `byte == 10` true, `byte != 10` false, `match byte { 10 => .. }`."""
    out = set()

    def pred(org, lab):
        if org['k'] != 'binop' or org['rv']['op'] not in ('Eq', 'Ne') or lab[0] != 'bool':
            return False
        ops = [org['rv']['a'], org['rv']['b']]
        consts = [o for o in ops if 'c' in o]
        locs = [Q.operand_local(o) for o in ops if 'c' not in o]
        if len(consts) != 1 or not str(consts[0]['c']).startswith('10_u8'):
            return False
        if not locs or locs[0] is None or not _copy_of(du, locs[0], byte_local):
            return False
        return lab[1] is (org['rv']['op'] == 'Eq')
    for b, tgt, lab, org in _switch_edges(F, body, du, pred):
        out.add((b, tgt))
    for b in sorted(body.live_blocks()):
        t = body.term(b)
        if t['k'] != 'switch' or t.get('dty') != 'u8':
            continue
        l = Q.operand_local(t['d'])
        if l is None or not _copy_of(du, l, byte_local):
            continue
        others = {x for v, x in t['ts'] if v != 10} | {t['else']}
        for v, tgt in t['ts']:
            if v == 10 and tgt not in others:
                out.add((b, tgt))
    return out


def _same_file_private(F, body):
    """accept-predicate for F.inlined: non-public synchronous functions defined in the source file of `body`
    (same_module_private does not see the module of a trait-impl method path `<Type as Trait>::method`)."""
    def accept(callee):
        sig = F.fns.get(callee)
        cb = F.bodies.get(callee)
        return sig is not None and sig.get('vis') != 'pub' and cb is not None and cb.file == body.file
    return accept


def _describe_edge(F, body, du, u, v):
    ec = Q.edge_condition(F, body, du, u)
    if ec is None:
        return 'bb%d->bb%d' % (u, v)
    org, labels = ec
    what = org['k']
    if org['k'] == 'binop':
        what = '%s(%s, %s)' % (org['rv']['op'], Q.operand_name(body, du, org['rv']['a']) or pp.operand(body, org['rv']['a']),
                               Q.operand_name(body, du, org['rv']['b']) or pp.operand(body, org['rv']['b']))
    elif org['k'] == 'call':
        what = pp.callee(org['t'])
    return '%s is %s' % (what, '/'.join(str(x[-1]) for x in labels.get(v, [])))


@RS.rule('C18.R7', 'K-PASS', 'a descriptor line reader ends a line only at the newline byte or at end of input (never at a length, capacity or '
         'count limit), and decodes UTF-8 after the last read: every path from Read::read to the UTF-8 conversion / to the Ok(line) result '
         'takes the `byte == newline` edge or the zero-count edge, and no read follows a conversion')
def r7(cx):
    F = cx.F
    roots = sorted(r for r in F.by_root if NEXT_LINE_IMPL.search(r))
    cx.require(roots, 'no implementation of yash_env::input::Input::next_line found')
    # a reader whose one-byte read lives in a private helper of its source file (`read_byte`) is a reader too
    readers = [r for r in roots if any(Q.find_calls(b, READ) for b in F.logical(r)) or _private_read_helpers(F, F.main_body(r))]
    cx.require(FDR in readers, 'FdReader2::next_line is not among the Input::next_line implementations that call Read::read')
    cx.floor(len(readers), 1, 'Input::next_line implementations that read a descriptor')
    for root in readers:
        # a decoding / byte-testing step extracted into a private helper of the same source file is seen in place
        body = F.inlined(F.main_body(root), accept=_same_file_private(F, F.main_body(root)))
        cx.fn(body.fn)
        du = Q.DefUse(body)
        reads = [(rb, rt, None) for rb, rt in Q.find_calls(body, READ)]
        for h in _private_read_helpers(F, body):
            sm = _byte_helper_summary(F, h)
            cx.fn(sm['body'].fn)
            for cb, ct in Q.find_calls(body, [h]):
                reads.append((cb, ct, sm))
        cx.require(reads, '%s: Read::read is not called from the body of the reader itself (shape changed: review)' % root)
        # where the line is produced: UTF-8 conversions (also inside closures built here) and Ok(..) results
        decode = [(b, t, pp.callee(t)) for b, t in body.calls() if Q.callee_is(t, [UTF8_DECODE])]
        inner = {x.fn: [pp.callee(t) for _, t in x.calls() if Q.callee_is(t, [UTF8_DECODE])]
                 for r in [root] + [F.bodies[f].root for f in getattr(body, 'inlined_from', [])]
                 for x in F.logical(r) if x.fn not in (body.fn, root)}
        for b, j, s in body.stmts():
            if s['k'] == 'assign' and s['rv']['k'] == 'agg' and s['rv'].get('ak') == 'closure' and inner.get(s['rv'].get('def')):
                decode.append((b, s, 'closure calling ' + inner[s['rv']['def']][0]))
        # Ok(line): the Ok value written to the return place, or any Ok(..) whose payload is a String
        oks = [(b, s) for b, j, s in Q.find_aggregates(body, 'core::result::Result', 'Ok')
               if s['lhs']['l'] == 0 or any('alloc::string::String' in str(body.locals[Q.operand_local(o)].get('ty'))
                                            for o in s['rv']['ops'] if Q.operand_local(o) is not None)]
        cx.require(decode, '%s: no UTF-8 conversion (String::from_utf8 / from_utf8_lossy / str::from_utf8 ...) is visible in the reader: '
                   'how the bytes of a line become text can not be decided (review)' % root)
        goals = {b for b, _, _ in decode} | {b for b, _ in oks}
        for rb, rt, sm in reads:
            if sm is not None:
                # the call of the helper stands for the read, its `None` edge for the zero-count edge, the Some payload for the byte
                if sm['rt'] is not None and sm['byte_local'] is None and len(Q.find_calls(sm['body'], READ)) == 1:
                    cx.site('%s: Read::read at %s (helper %s): the buffer is not slice::from_mut(&mut u8) (reported by R1/R1b); line ends '
                            'not examined' % (root, sm['body'].loc(sm['rt']), sm['root']))
                    continue
                cx.require(sm['problem'] is None, '%s (shape not understood: review)' % sm['problem'])
                byte_local, none_edges, _some = _helper_call_model(F, body, du, rb, rt)
                cx.require(byte_local is not None, '%s: the byte returned by helper %s is not bound from the Some payload of its result '
                           '(shape not understood: review)' % (root, sm['root']))
                ends = _newline_edges(F, body, du, byte_local) | set(none_edges)
            else:
                byte_local = _read_byte_local(body, du, rt)
                if byte_local is None:
                    cx.site('%s: Read::read at %s: the buffer is not slice::from_mut(&mut u8) (reported by R1/R1b); line ends not examined' % (root, body.loc(rt)))
                    continue
                ends = _newline_edges(F, body, du, byte_local) | _zero_count_edges(F, body, du)
            cx.site('%s: Read::read at %s; line-end edges (newline byte / zero count): %s; line produced at %s'
                    % (root, body.loc(rt), sorted('bb%d->bb%d' % e for e in ends), sorted({body.loc(x) for _, x, _ in decode} | {body.loc(s) for _, s in oks})))
            reach = set()
            for s in body.succ(rb):
                reach |= _reach_bool(body, s, removed_edges=ends)
            hit = sorted(reach & goals)
            if hit:
                p = None
                for s in body.succ(rb):
                    p = p or body.shortest_path(s, set(hit), removed_edges=ends)
                loop = {x for x in reach if rb in body.reachable(x)}
                exit_edge = None
                for u, v in zip(p or [], (p or [])[1:]):
                    if u in loop and v not in loop:
                        exit_edge = (u, v)
                        break
                how = _describe_edge(F, body, du, *exit_edge) if exit_edge else 'the text is produced inside the read loop'
                cx.violation(root, 'line-ended-without-newline',
                             'the reader can hand over a line although the byte just read is not the newline and the input has not ended (%s): '
                             'a physical line is then passed to the lexer in pieces, each converted from UTF-8 on its own, so a multi-byte '
                             'character that straddles the cut becomes two U+FFFD and the command executed depends on where the cut falls '
                             '(the same script given with -c runs a different command)' % how,
                             loc=body.loc(body.term(exit_edge[0])) if exit_edge else body.loc(rt),
                             path=Q.render_path(body, [rb] + p) if p else None)
            # decoded once, after the last read
            for b, x, name in decode:
                if rb in body.reachable(b):
                    cx.violation(root, 'decoded-before-last-read',
                                 'bytes are converted from UTF-8 (%s) and the descriptor is read again afterwards: the line is decoded in '
                                 'pieces, so a multi-byte character cut by a piece boundary is replaced by U+FFFD' % name, loc=body.loc(x))
    cx.sample({'readers': readers, 'other Input::next_line implementations (no descriptor read)': [r for r in roots if r not in readers]})


RS.explanation += (' A descriptor line reader (Input::next_line implementation calling Read::read) produces its line only through the '
                   'newline-byte edge or the zero-count edge and never reads after a UTF-8 conversion, so a line is decoded whole (R7).')



# ---------------------------------------------------------------------------------------
# added after the audit C18h4 (a line continuation before / inside the delimiter line hid the here-document delimiter)
@RS.rule('C18.R8', 'K-TAINT+K-SIBLING', 'a here-document ends at its delimiter, so the lexer does not read the commands after it as document text: the line that '
         'is compared with the delimiter of an unquoted here-document is the line as the content sees it - with line continuations '
         'removed (XCU 2.7.4: the removal "shall be performed during the search for the trailing delimiter"): the compared text comes from a '
         'source-text extractor that skips the characters marked is_line_continuation, never from the raw source text')
def r8(cx):
    F = cx.F
    root = [r for r in F.by_root if r.endswith('::here_doc_content') and r.startswith('yash_syntax::parser::lex::heredoc::')]
    cx.require(len(root) == 1, 'Lexer::here_doc_content not found')
    body = F.inlined(F.main_body(root[0]))
    cx.fn(body.fn)
    du = Q.DefUse(body)
    # the delimiter text: the local(s) derived from HereDoc::delimiter
    delim = set()
    for blk, j, st in body.stmts():
        if st['k'] == 'assign' and any(isinstance(e, dict) and e.get('f') == 'delimiter' for p_ in Q.rvalue_places(st['rv']) for e in (p_.get('p') or [])):
            delim.add(st['lhs']['l'])
    cx.require(delim, 'here_doc_content no longer reads HereDoc::delimiter')
    through = Q.PROPAGATING_CALLS + Q.AWAIT_CALLS + Q.TRY_BRANCH + [re.compile(r'(skip_quotes|strip|collect|unquote|to_string|as_str|deref|trim_start_matches|clone)\b'),
                                                                   re.compile(r'::Iterator::\w+$'), re.compile(r'::IntoIterator::into_iter$')]
    delim = Q.forward_taint(body, delim, through_calls=through)
    # readers of the lexer's source text: functions of lex::core that return a String from a range of the source
    def skips_continuations(fn, depth=3):
        for lb in F.logical(fn) if fn in F.by_root else []:
            for blk, j, st in lb.stmts():
                if st['k'] == 'assign' and any(isinstance(e, dict) and e.get('f') == 'is_line_continuation'
                                               for p_ in Q.rvalue_places(st['rv']) for e in (p_.get('p') or [])):
                    return True
            if depth:
                for blk, t in lb.calls():
                    c = (t['f'].get('def') or '').split('::{closure')[0]
                    if c.startswith('yash_syntax::parser::lex::core::') and c != fn and skips_continuations(c, depth - 1):
                        return True
        return False
    cmps = [(blk, t) for blk, t in body.calls() if Q.callee_is(t, [re.compile(r'PartialEq(<.*>)?( for \w+)?>?::(eq|ne)$')])
            and any((Q.operand_place(a) or {}).get('l') in delim for a in t['a'])]
    cx.require(cmps, 'no comparison with the delimiter text was found in here_doc_content (shape not understood)')
    n = 0
    for blk, t in cmps:
        other = [a for a in t['a'] if (Q.operand_place(a) or {}).get('l') not in delim]
        for a in other:
            # producers of the compared line text
            want, seen, prods = {(Q.operand_place(a) or {}).get('l')} - {None}, set(), []
            while want:
                l = want.pop()
                if l in seen:
                    continue
                seen.add(l)
                for db, dj, dn in du.defs.get(l, []):
                    if dj == 't':
                        c = (dn['f'].get('def') or dn['f'].get('decl') or '')
                        if c.startswith('yash_syntax::parser::lex::') and 'String' in (body.locals[dn['dest']['l']].get('ty') or ''):
                            prods.append((db, dn, c.split('::{closure')[0]))
                        else:
                            want |= {(Q.operand_place(x) or {}).get('l') for x in dn['a']} - {None}
                    elif dn.get('k') == 'assign':
                        want |= {p_['l'] for p_ in Q.rvalue_places(dn['rv'])}
            for db, dn, c in prods:
                n += 1
                # the quoted-delimiter branch reads the line with line continuation disabled: nothing is marked, nothing to remove
                raw_mode = any(Q.find_calls(lb, [re.compile(r'lex::core::Lexer::<\'a>::disable_line_continuation$'), re.compile(r'::disable_line_continuation$')])
                               for lb in (F.logical(c) if c in F.by_root else []))
                ok = skips_continuations(c) or raw_mode
                cx.site('here_doc_content: the line compared with the delimiter at %s is produced by %s; it skips line continuations: %s'
                        % (body.loc(t), c.split('::')[-1], ok))
                if not ok:
                    cx.violation(root[0], 'delimiter-compared-with-raw-source', 'the line compared with the here-document delimiter is the raw source text '
                                 '(%s): a backslash-newline before or inside the delimiter line hides the delimiter, and the commands after the '
                                 'here-document (`cat <<END` / `foo` / `\\` / `END` / `echo next`) are read as document text' % c.split('::')[-1],
                                 loc=body.loc(dn))
    cx.require(n >= 1, 'the producer of the line compared with the delimiter was not identified (shape not understood)')


RS.explanation += ' The line compared with a here-document delimiter has its line continuations removed (R8).'


# ---------------------------------------------------------------------------------------
# added after seed C18-s9 (Parser::list skipped newlines after a `;` separator, so `cmd;` at the end of a line was no longer a
# complete command and the NEXT line was read - and taken from a shared stdin - before `cmd` ran)
_PL = 'yash_syntax::parser::list::'
_PCORE = 'yash_syntax::parser::core::Parser::<'
_OPERATOR = 'yash_syntax::parser::lex::op::Operator'
_LIST_SEPARATORS = {'Semicolon', 'And'}


def _parser_fn(F, module, name):
    hits = sorted(r for r in F.by_root if r.startswith(module) and r.endswith('>::' + name))
    return hits[0] if len(hits) == 1 else None


def _parser_callees(F, root):
    """{callee root: (body, term)} of the calls `root` (with its closures / coroutine) makes into yash_syntax::parser."""
    out = {}
    for b in F.by_root.get(root, []):
        for _, t in b.calls():
            for n in Q.callee_names(t):
                # the lexer (yash_syntax::parser::lex) is below the token primitives of the parser: not part of the grammar's call graph
                if n.startswith('yash_syntax::parser::') and not n.startswith('yash_syntax::parser::lex::'):
                    out.setdefault(n.split('::{closure')[0], (b, t))
    return out


def _own_closure(F, start, cut, leaves):
    """Functions of the parser reachable from `start` over the workspace call graph without entering the sub-production `cut`;
    `leaves` (token primitives) are recorded but not expanded. -> {fn: chain of fns from start}"""
    seen, todo = {start: [start]}, [start]
    while todo:
        f = todo.pop()
        if f in leaves or f == cut:
            continue
        for c in sorted(_parser_callees(F, f)):
            if c not in seen:
                seen[c] = seen[f] + [c]
                todo.append(c)
    return seen


def _in_own_cycle(body, block):
    return any(block in body.reachable(s) for s in body.succ(block))


@RS.rule('C18.R9', 'K-CALLERS+K-PASS+K-SIBLING', 'a complete command ends at the FIRST newline after it: Parser::list (the `;`/`&` sequence that command_line '
         'parses) never consumes a newline token or here-document lines itself nor through a helper (the only way down is the sub-production '
         'and_or_list), it treats only `;` and `&` as separators, and command_line consumes exactly one newline (one call of '
         'newline_and_here_doc_contents, after list, on every path to Ok, not in a cycle); maybe_compound_list is the sibling that does loop '
         'over list and newlines; here_doc_contents is reached only from newline_and_here_doc_contents')
def r9(cx):
    F = cx.F
    LIST, CL, MCL, NL = (_parser_fn(F, _PL, n) for n in ('list', 'command_line', 'maybe_compound_list', 'newline_and_here_doc_contents'))
    AND = _parser_fn(F, 'yash_syntax::parser::and_or::', 'and_or_list')
    for nm, v in (('list', LIST), ('command_line', CL), ('maybe_compound_list', MCL), ('newline_and_here_doc_contents', NL), ('and_or_list', AND)):
        cx.require(v is not None, 'Parser::%s not found (or not unique) in yash_syntax::parser' % nm)
    prim = {n: _PCORE + "'a, 'b>::" + n for n in ('peek_token', 'take_token_raw', 'take_token_manual', 'take_token_auto', 'here_doc_contents')}
    for n, p in prim.items():
        cx.require(p in F.by_root, 'Parser::%s not found in yash_syntax::parser::core' % n)
    HDC = prim['here_doc_contents']
    TAKE = {prim[n] for n in ('take_token_raw', 'take_token_manual', 'take_token_auto')}
    # the anchor of the whole clause: newline_and_here_doc_contents is a newline consumer (it takes a token and reads here-document lines)
    nlc = _parser_callees(F, NL)
    cx.require(TAKE & set(nlc) and HDC in nlc, 'newline_and_here_doc_contents no longer takes a token and reads here-document contents (review)')
    consumers = {NL: 'newline_and_here_doc_contents', HDC: 'here_doc_contents'}

    # (a) K-CALLERS: list's own part of the call graph (everything it reaches without descending into and_or_list) has no newline consumer
    cx.fn(LIST)
    lc = _parser_callees(F, LIST)
    cx.require(AND in lc, 'Parser::list no longer calls and_or_list: the sub-production at which its own part of the call graph ends is gone (review)')
    own = _own_closure(F, LIST, AND, TAKE | {prim['peek_token']} | set(consumers))
    members = [f for f in sorted(own) if f != AND and f not in TAKE and f != prim['peek_token'] and f not in consumers]
    cx.site('Parser::list reaches, without descending into and_or_list: %s' % sorted(x.split('::')[-1] for x in own))
    for f in sorted(own):
        if f in consumers:
            chain = own[f]
            b, t = _parser_callees(F, chain[-2])[f]
            cx.violation(LIST, 'list-consumes-newline:%s' % consumers[f],
                         'Parser::list reaches %s (%s): the list that command_line parses then swallows the newline that ends the command line, '
                         'so a line ending in a separator (`read x;`) is not a complete command any more - the shell reads the next line, and takes '
                         'it from a shared standard input, before running this one' % (consumers[f], ' -> '.join(x.split('::')[-1] for x in chain)),
                         loc=b.loc(t))
    n_sw = 0
    for f in members:
        for b in F.by_root.get(f, []):
            # a direct use of the lexer is a token/line consumption that bypasses the parser's token primitives
            for blk, t in b.calls():
                nm = (t['f'].get('def') or t['f'].get('decl') or '')
                if nm.startswith('yash_syntax::parser::lex::') and '::Lexer::<' in nm:
                    cx.violation(LIST, 'list-uses-lexer:%s' % nm.split('::')[-1], 'Parser::list (%s) calls the lexer directly (%s): what it consumes '
                                 'beyond the separators of one line is not bounded' % (f.split('::')[-1], nm), loc=b.loc(t))
            # operator tokens named by value (`token.id == Operator(And)`): the same table as the switch below
            for blk, j, s in Q.find_aggregates(b, _OPERATOR):
                n_sw += 1
                v = s['rv']['variant']
                cx.site('%s: operator token built for a comparison at %s: %s' % (f.split('::')[-1], b.loc(s), v))
                if v not in _LIST_SEPARATORS:
                    cx.violation(LIST, 'list-separator:%s' % v, 'Parser::list compares the current token with the operator %s: only `;` and `&` '
                                 'separate the and-or lists of one command line; list must stop in front of anything else (in front of the newline '
                                 'that delimits the command line in particular)' % v, loc=b.loc(s))
            du = Q.DefUse(b)
            for blk in sorted(b.live_blocks()):
                ec = Q.edge_condition(F, b, du, blk)
                if ec is None or ec[0]['k'] != 'discr' or not str(ec[0].get('ty', '')).endswith(_OPERATOR):
                    continue
                n_sw += 1
                names = Q.variant_names(F, ec[0]['ty']) or []
                tm = b.term(blk)
                explicit = sorted({names[v] if 0 <= v < len(names) else str(v) for v, tgt in tm['ts'] if tgt != tm['else']})
                cx.site('%s: operator tokens told apart at %s: %s' % (f.split('::')[-1], b.loc(tm), explicit))
                for v in explicit:
                    if v not in _LIST_SEPARATORS:
                        cx.violation(LIST, 'list-separator:%s' % v, 'Parser::list gives the operator token %s a treatment of its own: only `;` and `&` '
                                     'separate the and-or lists of one command line; a list that goes on after %s reads past the end of the '
                                     'complete command' % (v, v), loc=b.loc(tm))
    cx.require(n_sw >= 1, 'Parser::list neither switches on the Operator of the peeked token nor compares it with an Operator value (how it recognises separators is not understood: review)')

    # (b) K-PASS: command_line consumes exactly one newline, after the list
    body = F.inlined(F.main_body(CL))
    cx.fn(body.fn)
    nls = Q.find_calls(body, [NL])
    lists = Q.find_calls(body, [LIST])
    cx.require(lists, 'command_line no longer calls Parser::list (review)')
    cx.site('command_line: list at %s, newline_and_here_doc_contents at %s' % (sorted(body.loc(t) for _, t in lists), sorted(body.loc(t) for _, t in nls)))
    oks = {blk for blk, j, s in Q.find_aggregates(body, 'core::result::Result', 'Ok') if s['lhs']['l'] == 0 and not s['lhs'].get('p')}
    cx.require(oks, 'command_line: no Ok(..) result found (shape not understood)')
    if not nls:
        cx.violation(CL, 'newline-not-consumed', 'command_line does not call newline_and_here_doc_contents: the newline that ends the command line '
                     'is left in the input and pending here-document bodies are never read', loc=body.loc(lists[0][1]))
    else:
        nb = {blk for blk, _ in nls}
        p = Q.must_pass(body, [s for blk, _ in lists for s in body.succ(blk)], nb, oks)
        if p is not None:
            cx.violation(CL, 'newline-not-consumed', 'command_line can return a parsed command without having called newline_and_here_doc_contents: '
                         'the here-document bodies of the command are not read before it runs', loc=body.loc(body.term(p[-1])), path=Q.render_path(body, p))
        for blk, t in nls:
            if not any(l != blk and body.dominates(l, blk) for l, _ in lists):
                cx.violation(CL, 'newline-before-list', 'command_line consumes a newline that is not preceded by the list of the command line: an empty '
                             'line is merged with the command line that follows it', loc=body.loc(t))
            again = sorted(x for s in body.succ(blk) for x in body.reachable(s) if x in nb)
            if again:
                cx.violation(CL, 'more-than-one-newline', 'command_line can consume a second newline (newline_and_here_doc_contents is %s): the complete '
                             'command then extends over the next line, which is read - from a shared standard input: taken away from the command - '
                             'before the command runs' % ('called in a cycle' if blk in again else 'called again at %s' % body.loc(body.term(again[0]))),
                             loc=body.loc(t))

    # (c) K-SIBLING: maybe_compound_list differs exactly in that: it loops over list and newlines
    mb = F.inlined(F.main_body(MCL))
    cx.fn(mb.fn)
    mn, ml = Q.find_calls(mb, [NL]), Q.find_calls(mb, [LIST])
    cx.require(ml, 'maybe_compound_list no longer calls Parser::list (review)')
    looping = [blk for blk, _ in mn if any(lb in mb.reachable(s) and blk in mb.reachable(lb) for s in mb.succ(blk) for lb, _ in ml)]
    cx.site('maybe_compound_list: newline_and_here_doc_contents in a cycle with list: %s' % bool(looping))
    if not looping:
        cx.violation(MCL, 'compound-list-stops-at-newline', 'maybe_compound_list does not alternate list and newline_and_here_doc_contents in a loop: a '
                     'compound command whose body spans several lines is cut at the first newline', loc=mb.loc(ml[0][1]))

    # (d) K-CALLERS: who parses a list, who reads here-document lines
    for b, i, t in F.callers_of(lambda names, t: LIST in names):
        cx.site('%s calls Parser::list at %s' % (b.root.split('::')[-1], b.loc(t)))
        if b.root not in (CL, MCL):
            cx.violation(b.root, 'caller:list', 'Parser::list is called from %s: whether the newlines around that list are left to command_line is not '
                         'examined by this rule (only command_line and maybe_compound_list are)' % b.root, loc=b.loc(t))
    for b, i, t in F.callers_of(lambda names, t: HDC in names):
        cx.site('%s calls here_doc_contents at %s' % (b.root.split('::')[-1], b.loc(t)))
        if b.root != NL:
            cx.violation(b.root, 'caller:here_doc_contents', 'here-document lines are read outside newline_and_here_doc_contents (%s): lines are taken from '
                         'the input at a point that is not the newline ending the line of the redirection' % b.root, loc=b.loc(t))


RS.explanation += (' Parser::list reaches no newline consumer except through and_or_list and knows only `;`/`&`; command_line consumes exactly one '
                   'newline after the list; maybe_compound_list is the looping sibling; here_doc_contents has one caller (R9).')


# --- wave 5 (seed C18-s10, the same change as C09-s1 seen from this property): a command that redirects its standard input more than
# once must give the shell its own standard input back, or the next "script lines" are read from the file of the first redirection
from rules.C09 import r4 as _c09_undo_in_reverse_order
from engine import Rule
RS.rules.append(Rule('C18.R10', 'K-TYPE+K-CALLERS', 'after a command with several redirections of the same descriptor (`read x </a </b`) the '
                     'descriptor the shell reads its script from is the original one again: the saved copies are restored in reverse '
                     'order of the redirections (C09.R4)', _c09_undo_in_reverse_order))
RS.explanation += ' Redirections are undone in reverse order, so the script descriptor is the original one after every command (R10 = C09.R4).'
