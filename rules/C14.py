"""C14 - data through pipes and command substitutions arrives complete and in order.

Structural clauses decided: close-writer < read-to-EOF < wait in command
substitution; the child closes/dups every pipe end before running the command;
write_all / read_all_to report success only on empty remainder / EOF; exactly
'\\n' is trimmed; here-document write precedes the rewind to offset 0."""
from engine import RuleSet
import mirq as Q
import pp

RS = RuleSet(
    'C14',
    explanation=(
        'Dominance rules on the pre-lowering MIR CFG (valid for every schedule and payload size): in command '
        'substitution the parent closes its copy of the write end before reading to EOF and reads to EOF before '
        'waiting for the child (otherwise a payload above the pipe capacity deadlocks, which the fixed FIFO test '
        'scheduler with small payloads never shows); the child closes the read end and moves the write end to '
        'stdout before running the command; write_all returns Ok only when the remaining slice is empty and '
        'advances by exactly the count the kernel reported; read_all_to returns Ok only on a zero-length read; '
        'EAGAIN re-enters the loop after yielding; command substitution trims exactly the constant newline '
        'character; a here-document is written completely before the descriptor is rewound to offset 0.'),
    not_decided='pipe buffer capacity/atomicity in the simulator, partial-transfer arithmetic, behaviour under '
                'all interleavings (schedules are not explored; the orderings that every schedule needs are decided)',
    assumptions=['dominance is computed on normal control flow (unwind edges dropped)'],
)

CS = 'yash_semantics::expansion::initial::command_subst::'
CLOSE = ['*::Close::close']


def _report_undominated(cx, body, first, then, key, msg):
    for b, t in Q.check_dominated(body, first, then):
        cx.violation(body.root, key, msg, loc=body.loc(t))


@RS.rule('C14.R1', 'K-ORDER', 'command substitution: close(writer) < read_all_to(reader) < wait_for_subshell_to_halt')
def r1(cx):
    F = cx.F
    body = F.main_body(CS + 'expand_common')
    cx.fn(body.fn)
    du = Q.DefUse(body)
    close_w = Q.calls_with_arg_named(body, CLOSE, 'writer', du)
    close_r = Q.calls_with_arg_named(body, CLOSE, 'reader', du)
    read = Q.find_calls(body, ['*::ReadAll::read_all_to', '*::ReadAll::read_all'])
    wait = Q.find_calls(body, ['*::wait_for_subshell_to_halt', '*::wait_for_subshell'])
    cx.require(len(read) == 1, 'expected one read_all_to in expand_common, found %d' % len(read))
    cx.require(len(wait) >= 1, 'no wait_for_subshell_to_halt in expand_common')
    for b, t in close_w + close_r + read + wait:
        cx.site('%s: %s(%s) at %s' % (body.fn, pp.callee(t).split('::')[-1], ', '.join(str(x) for x in Q.arg_names(body, du, t)[1:]), body.loc(t)))
    cx.require('reader' in Q.arg_names(body, du, read[0][1]), 'read_all_to does not read from `reader`')
    _report_undominated(cx, body, close_w, read, 'read-before-close-writer',
                        'read-to-EOF is not dominated by the parent closing its copy of the write end: with the '
                        'write end still open the read never sees EOF')
    _report_undominated(cx, body, read, wait, 'wait-before-read',
                        'the wait for the child is not dominated by the read-to-EOF: a child writing more than the '
                        'pipe capacity blocks forever while the parent waits')
    # the reader is closed after the read on the normal path, and both ends on the start-failure path
    # a close-on-drop guard holding the reader (fix 0aaa289) closes it at the end of its scope, also when the future is dropped
    guard_r = [(b, t) for b, t, l, cons in Q.close_guard_drops(F, body) if Q.guard_holds(body, du, l, name='reader')]
    if not any(body.dominates(read[0][0], b) for b, _ in close_r + guard_r):
        cx.violation(body.root, 'reader-not-closed', 'the read end is not closed after read-to-EOF', loc=body.loc(read[0][1]))
    early = [b for b, _ in close_r if not body.dominates(read[0][0], b)]
    earlyw = [b for b, _ in close_w if not any(body.dominates(b, r) for r, _ in read)]
    if not early or not earlyw:
        cx.violation(body.root, 'start-failure-leak', 'on the subshell start failure edge both pipe ends must be closed',
                     loc=body.loc(body.d))
    cx.sample({'function': body.fn, 'order': ['close(writer)@L%s' % [t['line'] for _, t in close_w], 'read_all_to@L%s' % read[0][1]['line'],
                                              'wait@L%s' % wait[0][1]['line']]})


@RS.rule('C14.R1b', 'K-ORDER', 'command substitution child: close(reader), dup2(writer, STDOUT), close(writer) precede the command')
def r1b(cx):
    F = cx.F
    body = F.main_body(CS + 'subshell_body')
    cx.fn(body.fn)
    du = Q.DefUse(body)
    close_r = Q.calls_with_arg_named(body, CLOSE, 'reader', du)
    close_w = Q.calls_with_arg_named(body, CLOSE, 'writer', du)
    dup2 = Q.calls_with_arg_named(body, ['*::Dup::dup2'], 'writer', du)
    run = Q.find_calls(body, ['*::read_eval_loop'])
    cx.require(run, 'read_eval_loop not called in subshell_body')
    cx.require(dup2, 'pipe arrangement calls not found in subshell_body')
    # the dup2 is here, so the arrangement is made in this body: a close that is gone is a violation, not a moved anchor
    if not close_r:
        cx.violation(body.root, 'reader-never-closed', 'the child never closes the read end of its own output pipe', loc=body.loc(dup2[0][1]))
    if not close_w:
        cx.violation(body.root, 'writer-never-closed', 'after dup2(writer, STDOUT) the original write end is never closed: the command '
                     '(and whatever it starts) inherits a second descriptor for the pipe', loc=body.loc(dup2[0][1]))
    if not close_r or not close_w:
        return
    for b, t in close_r + dup2 + close_w + run:
        cx.site('%s: %s at %s' % (body.fn, pp.callee(t).split('::')[-1], body.loc(t)))
    _report_undominated(cx, body, close_r, run, 'run-before-close-reader',
                        'the child runs the command while still holding the read end of its own output pipe')
    # dup2(writer, STDOUT): second argument must be the STDOUT constant
    for b, t in dup2:
        names = Q.arg_names(body, du, t)
        if not any(n and 'STDOUT' in n for n in names):
            cx.violation(body.root, 'dup2-target', 'the write end is not moved to standard output', loc=body.loc(t))
    _report_undominated(cx, body, dup2, close_w, 'close-writer-before-dup2', 'writer closed before being duplicated to stdout')
    # on the writer != STDOUT edge the command is preceded by dup2
    conds_ok = False
    for b, t in dup2:
        for org, lab, e in Q.dominating_conditions(F, body, du, b):
            if org['k'] == 'call' and Q.callee_is(org['t'], ['*::PartialEq::ne', '*::PartialEq<*>::ne', Q.re.compile(r'PartialEq.*::ne$')]) and lab == ('bool', True):
                conds_ok = True
    if not conds_ok:
        cx.violation(body.root, 'dup2-guard', 'dup2(writer, STDOUT) is expected under the writer != STDOUT test only',
                     loc=body.loc(dup2[0][1]))
    # every path to the command passes close(reader) and, unless writer == STDOUT, dup2
    p = Q.must_pass(body, [0], {b for b, _ in close_r}, goal_blocks={b for b, _ in run})
    if p:
        cx.violation(body.root, 'path-skips-close-reader', 'a path reaches the command without closing the read end',
                     loc=body.loc(run[0][1]), path=Q.render_path(body, p))


@RS.rule('C14.R2', 'K-PASS', 'pipeline child: every pipe end is closed or dup2-ed then closed before the command runs')
def r2(cx):
    F = cx.F
    body = F.inlined(F.body('yash_semantics::command::pipeline::PipeSet::move_to_stdin_stdout'))
    cx.fn(body.fn)
    du = Q.DefUse(body)
    closes = Q.find_calls(body, CLOSE)
    dup2s = Q.find_calls(body, ['*::Dup::dup2'])
    cx.floor(len(closes), 3, 'close calls in move_to_stdin_stdout')
    cx.floor(len(dup2s), 2, 'dup2 calls in move_to_stdin_stdout')
    for b, t in closes + dup2s:
        cx.site('%s: %s(%s) at %s' % (body.fn, pp.callee(t).split('::')[-1], ', '.join(str(x) for x in Q.arg_names(body, du, t)[1:]), body.loc(t)))
    # each dup2(x, STD*) is followed on its success path by close(x)
    for b, t in dup2s:
        src = Q.arg_names(body, du, t)[1]
        after = [c for c, ct in closes if Q.arg_names(body, du, ct)[1] == src and body.dominates(b, c)]
        if not after:
            cx.violation(body.root, 'dup2-without-close:%s' % src, 'descriptor %s is duplicated onto a standard '
                         'descriptor but its original is not closed afterwards' % src, loc=body.loc(t))
    # the read end of the next pipe is closed before anything else
    rd = [(b, t) for b, t in closes if Q.arg_names(body, du, t)[1] == 'reader']
    if not any(all(body.dominates(b, d) for d, _ in dup2s if Q.arg_names(body, du, _)[1] == 'writer') for b, t in rd):
        cx.violation(body.root, 'next-reader-open', "the read end of this command's output pipe is not closed first",
                     loc=body.loc(body.d))
    # ... and on EVERY path on which the command is run: from the edge where the next pipe is found (self.next is Some) no path
    # reaches the Ok return without close(reader) - whatever number the writer happens to have (with stdin and stdout closed
    # in the shell pipe() returns (0, 1): the writer is in place, the reader must be closed all the same or the command keeps
    # the read end of its own output pipe as its standard input and never sees EOF / EPIPE)
    oks = [b for b, j, st in Q.find_aggregates(body, 'core::result::Result', 'Ok') if st['lhs']['l'] == 0 and not st['lhs'].get('p')]
    if not oks:
        # the function ends in a tail call whose Result is returned as it is: every return counts (close(reader) is the first fallible step)
        oks = list(body.return_blocks())
    cx.require(oks, 'no return found in move_to_stdin_stdout')
    starts = set()
    for b, t in rd:
        for org, lab, (u, v) in Q.dominating_conditions(F, body, du, b):
            if lab == ('variant', 'Some') and org['k'] == 'discr' and any(isinstance(e, dict) and e.get('f') == 'next' for e in org['pl'].get('p') or []):
                starts.add(v)
    if rd:
        cx.require(starts, 'the test of self.next that guards close(reader) was not recognised')
        pth = Q.must_pass(body, sorted(starts), {b for b, t in rd}, goal_blocks=set(oks))
        if pth:
            cx.violation(body.root, 'path-keeps-next-reader', "a path on which the next pipe exists returns Ok without closing the read end of "
                         "this command's output pipe (a test other than `self.next is Some` decides whether it is closed)",
                         loc=body.loc(body.d), path=Q.render_path(body, pth))


@RS.rule('C14.R3', 'K-GUARD', 'write_all returns Ok only on an empty remainder and advances by the reported count; read_all_to returns Ok only on a zero-length read')
def r3(cx):
    F = cx.F
    wa = [fn for fn in F.bodies if fn.endswith('WriteAll>::write_all::{closure#0}') and 'Concurrent' in fn]
    cx.require(len(wa) == 1, 'write_all for Concurrent<S> not found (%s)' % wa)
    body = F.bodies[wa[0]]
    cx.fn(body.fn)
    du = Q.DefUse(body)
    oks = Q.find_aggregates(body, 'core::result::Result', 'Ok')
    oks = [(b, j, s) for b, j, s in oks if s['lhs']['l'] == 0]
    cx.floor(len(oks), 2, 'Ok(()) returns in write_all')
    for b, j, s in oks:
        cx.site('%s: return Ok(()) at %s' % (body.fn, body.loc(s)))
        conds = Q.dominating_conditions(F, body, du, b)
        if not any(Q.cond_is_call(org, [Q.re.compile(r'::is_empty$')]) and lab == ('bool', True) for org, lab, e in conds):
            cx.violation(body.root, 'ok-without-empty-check', 'write_all can report success while data remains unwritten',
                         loc=body.loc(s))
    # data = &data[n..] with n the Ok payload of write
    idx = Q.find_calls(body, [Q.re.compile(r'Index<.*>>::index$'), '*::Index::index'])
    cx.require(idx, 'no slice advance in write_all')
    good = 0
    for b, t in idx:
        org = du.origin(t['a'][1])
        if org['k'] == 'agg' and 'RangeFrom' in org['rv'].get('adt', ''):
            nm = Q.operand_name(body, du, org['rv']['ops'][0])
            nl = Q.operand_local(org['rv']['ops'][0])
            cx.site('%s: data = &data[%s..] at %s' % (body.fn, nm, body.loc(t)))
            src = du.origin(org['rv']['ops'][0])
            # n must come from the Ok payload of the awaited write
            pl = src.get('pl') if src['k'] == 'place' else None
            is_ok_payload = pl is not None and any(isinstance(e, dict) and e.get('v') == 'Ok' for e in (pl.get('p') or []))
            if is_ok_payload:
                call = Q.value_source(body, du, {'cp': {'l': pl['l']}})
                if call is not None and Q.callee_is(call, ['*::Write::write']):
                    good += 1
                    continue
            cx.violation(body.root, 'advance-not-by-count', 'the remaining slice does not advance by the count '
                         'returned by write', loc=body.loc(t))
    cx.require(good >= 1 or cx.violations, 'slice advance by the write count not recognised')
    # read_all_to
    ra = [fn for fn in F.bodies if fn.endswith('ReadAll>::read_all_to::{closure#0}') and 'Concurrent' in fn]
    cx.require(len(ra) == 1, 'read_all_to for Concurrent<S> not found')
    rb = F.bodies[ra[0]]
    cx.fn(rb.fn)
    du2 = Q.DefUse(rb)
    oks = [(b, j, s) for b, j, s in Q.find_aggregates(rb, 'core::result::Result', 'Ok') if s['lhs']['l'] == 0]
    cx.floor(len(oks), 1, 'Ok(()) returns in read_all_to')
    for b, j, s in oks:
        cx.site('%s: return Ok(()) at %s' % (rb.fn, rb.loc(s)))
        conds = Q.dominating_conditions(F, rb, du2, b)
        zero = False

        def from_read(operand):
            call = Q.value_source(rb, du2, operand)
            return call is not None and Q.callee_is(call, ['*::Read::read'])
        for org, lab, e in conds:
            # pattern form: match read(..).await { Ok(0) => .. }
            if lab == ('int', 0) and org['k'] == 'place' and any(isinstance(x, dict) and x.get('v') == 'Ok' for x in (org['pl'].get('p') or [])):
                if from_read({'cp': {'l': org['pl']['l']}}):
                    zero = True
            # comparison form: if count == 0 { .. } with count the Ok payload of read
            if org['k'] == 'binop' and org['rv']['op'] in ('Eq', 'Ne'):
                a_, b_ = org['rv']['a'], org['rv']['b']
                const0 = [o for o in (a_, b_) if str(o.get('c', '')).split('_')[0] == '0']
                other = [o for o in (a_, b_) if 'cp' in o or 'mv' in o]
                want = ('bool', True) if org['rv']['op'] == 'Eq' else ('bool', False)
                if const0 and other and lab == want and from_read(other[0]):
                    zero = True
        if not zero:
            cx.violation(rb.root, 'ok-without-eof', 'read_all_to can report success before a zero-length read (EOF)',
                         loc=rb.loc(s))
    # every exit after the scratch space was appended truncates the buffer back to the data actually read
    ext = Q.find_calls(rb, [Q.re.compile(r'Extend<.*>>::extend$'), '*::Vec::<T, A>::resize', 'alloc::vec::Vec::<T, A>::extend_from_slice'])
    trunc = Q.find_calls(rb, ['alloc::vec::Vec::<T, A>::truncate'])
    cx.require(ext, 'scratch-space extension of the buffer not found in read_all_to')
    for b, t in ext:
        cx.site('%s: buffer extended with scratch bytes at %s; truncate sites: %d' % (rb.fn, rb.loc(t), len(trunc)))
        p = Q.must_pass(rb, rb.succ(b), {tb for tb, _ in trunc})
        if p:
            cx.violation(rb.root, 'exit-without-truncate', 'read_all_to can return (e.g. on a read error) leaving its zero-filled scratch '
                         'space in the caller\'s buffer: bytes nobody wrote become part of the command substitution result',
                         loc=rb.loc(rb.term(p[-1])), path=Q.render_path(rb, p))
    # EAGAIN arms yield and loop (no return)
    for bd, pat in ((body, '*::yield_for_write'), (rb, '*::yield_for_read')):
        ys = Q.find_calls(bd, [pat])
        cx.require(ys, 'no %s call' % pat)
        for b, t in ys:
            cx.site('%s: %s at %s' % (bd.fn, pat[3:], bd.loc(t)))
            # from the yield, the next write/read is reachable again without passing a Return
            again = Q.find_calls(bd, ['*::Write::write', '*::Read::read'])
            reach = bd.reachable(b)
            if not any(a in reach for a, _ in again):
                cx.violation(bd.root, 'eagain-no-retry', 'after yielding on EAGAIN the transfer is not retried', loc=bd.loc(t))


@RS.rule('C14.R4', 'K-EFFECT', "command substitution trims exactly the constant '\\n' and nothing else edits the output")
def r4(cx):
    F = cx.F
    body = F.main_body(CS + 'expand_common')
    TRIMS = [Q.re.compile(r'::trim(_end|_start|_matches|_end_matches|_start_matches)?$'), Q.re.compile(r'::strip_(suffix|prefix)$')]
    # the conversion of the collected bytes may live in a private helper of the module called from expand_common
    if not Q.find_calls(body, TRIMS):
        for blk, t in body.calls():
            for n in Q.callee_names(t):
                if n.startswith(CS) and n in F.bodies and Q.find_calls(F.main_body(n), TRIMS):
                    body = F.main_body(n)
    cx.fn(body.fn)
    du = Q.DefUse(body)
    trims = Q.find_calls(body, [Q.re.compile(r'::trim(_end|_start|_matches|_end_matches|_start_matches)?$'),
                                Q.re.compile(r'::strip_(suffix|prefix)$')])
    cx.require(trims, 'no trim call in expand_common')
    for b, t in trims:
        names = Q.arg_names(body, du, t)
        cx.site('%s: %s(%s) at %s' % (body.fn, pp.callee(t), names[1:], body.loc(t)))
        if not Q.callee_is(t, ['core::str::<impl str>::trim_end_matches']) or names[1:] != ["const '\\n'"]:
            cx.violation(body.root, 'trim:%s' % pp.callee(t).split('::')[-1],
                         "command substitution must remove trailing newline characters only (trim_end_matches('\\n')), "
                         'found %s(%s)' % (pp.callee(t), names[1:]), loc=body.loc(t))
    trunc = Q.find_calls(body, ['alloc::string::String::truncate'])
    cx.require(len(trunc) == 1, 'expected exactly one truncate of the output')
    # truncate length derives from the trimmed slice's len
    lorg = du.origin(trunc[0][1]['a'][1])
    cx.site('%s: truncate at %s' % (body.fn, body.loc(trunc[0][1])))
    ok = lorg['k'] == 'call' and Q.callee_is(lorg['t'], ['core::str::<impl str>::len'])
    if ok:
        src = Q.value_source(body, du, lorg['t']['a'][0])
        ok = src is not None and Q.callee_is(src, ['core::str::<impl str>::trim_end_matches'])
    if not ok:
        cx.violation(body.root, 'truncate-length', 'the output is truncated to a length that is not the trimmed length',
                     loc=body.loc(trunc[0][1]))
    # no other String mutation of the output
    muts = Q.find_calls(body, [Q.re.compile(r'^alloc::string::String::(pop|remove|retain|replace_range|clear|drain|insert|insert_str|push|push_str)$')])
    for b, t in muts:
        cx.violation(body.root, 'mutates-output:%s' % pp.callee(t).split('::')[-1], 'the substitution output is edited by %s'
                     % pp.callee(t), loc=body.loc(t))
    # ... nor of the byte buffer before it becomes a String (seed C14-s10: `result.retain(|&b| b != 0)` drops NUL bytes and turns a
    # newline that was followed only by NULs into a trailing one): between read_all_to and the conversion the collected bytes are
    # handed on as they are - no element-removing / reordering Vec or iterator-filter operation in the function that converts them
    bmuts = Q.find_calls(body, [Q.re.compile(r'^alloc::vec::Vec::<T, A>::(pop|remove|swap_remove|retain|retain_mut|truncate|clear|drain|'
                                             r'dedup\w*|insert|splice|split_off|extract_if|resize\w*)$'),
                                Q.re.compile(r'::Iterator::(filter|filter_map|skip\w*|take\w*|step_by|rev)$'),
                                Q.re.compile(r'^core::slice::<impl \[T\]>::(reverse|sort\w*|rotate_\w+|fill\w*|swap)$')])
    for b, t in bmuts:
        cx.violation(body.root, 'edits-collected-bytes:%s' % pp.callee(t).split('::')[-1], 'the bytes collected from the command are edited by '
                     '%s before they become the result: the substitution must deliver the output complete and in order, minus trailing '
                     'newlines only' % pp.callee(t), loc=body.loc(t))
    cx.site('%s: no element-removing operation on the collected bytes (%d String mutators, %d Vec/iterator editors found)'
            % (body.fn, len(muts), len(bmuts)))


@RS.rule('C14.R5', 'K-ORDER', 'here-document: content is written completely, then the descriptor is rewound to offset 0')
def r5(cx):
    F = cx.F
    body = F.main_body('yash_semantics::redir::here_doc::fill_content')
    cx.fn(body.fn)
    du = Q.DefUse(body)
    wr = Q.find_calls(body, ['*::WriteAll::write_all'])
    sk = Q.find_calls(body, ['*::Seek::lseek'])
    cx.require(len(wr) == 1 and len(sk) == 1, 'write_all/lseek not found in fill_content')
    cx.site('%s: write_all at %s, lseek at %s' % (body.fn, body.loc(wr[0][1]), body.loc(sk[0][1])))
    _report_undominated(cx, body, wr, sk, 'seek-before-write', 'the descriptor is rewound before the content is written')
    org = du.origin(sk[0][1]['a'][2])
    start0 = (org['k'] == 'agg' and org['rv'].get('variant') == 'Start' and
              str(org['rv']['ops'][0].get('c', '')).startswith('0'))
    if not start0:
        cx.violation(body.root, 'seek-target', 'the here-document descriptor is not rewound to SeekFrom::Start(0)',
                     loc=body.loc(sk[0][1]))
    # write error is propagated (the `?` after write_all): Ok(()) only after both succeed
    oks = [(b, j, s) for b, j, s in Q.find_aggregates(body, 'core::result::Result', 'Ok') if s['lhs']['l'] == 0]
    for b, j, s in oks:
        cx.site('%s: Ok(()) at %s' % (body.fn, body.loc(s)))
        if not body.dominates(sk[0][0], b):
            cx.violation(body.root, 'ok-before-seek', 'fill_content can succeed without rewinding', loc=body.loc(s))
    # the whole content is written: write_all's data argument derives from `content`
    names = Q.arg_names(body, du, wr[0][1])
    src = Q.value_source(body, du, wr[0][1]['a'][2])
    if not (src is not None and Q.callee_is(src, ['core::str::<impl str>::as_bytes']) and
            Q.operand_name(body, du, src['a'][0]) == 'content'):
        cx.violation(body.root, 'partial-content', 'write_all is not given content.as_bytes()', loc=body.loc(wr[0][1]))


@RS.rule('C14.R2c', 'K-ORDER', 'pipeline child: once a pipe end sits on a standard descriptor, only the descriptor just moved is closed '
         '(closing any other number afterwards can close the freshly connected stdin/stdout)')
def r2c(cx):
    import json as _json
    F = cx.F
    body = F.inlined(F.body('yash_semantics::command::pipeline::PipeSet::move_to_stdin_stdout'))
    cx.fn(body.fn)
    du = Q.DefUse(body)
    closes = Q.find_calls(body, CLOSE)
    dup2s = Q.find_calls(body, ['*::Dup::dup2'])
    cx.require(closes and dup2s, 'close / dup2 calls not found in move_to_stdin_stdout')

    def key(op):
        o = du.origin(op)
        if o['k'] in ('place', 'ref'):
            return _json.dumps(o['pl'], sort_keys=True)
        return Q.operand_name(body, du, op) or _json.dumps(op, sort_keys=True)

    for cb, ct in closes:
        before = [(db, dt) for db, dt in dup2s if dt['to'] is not None and cb in body.reachable(dt['to'])]
        moved = {key(dt['a'][1]) for db, dt in before}
        nm = Q.arg_names(body, du, ct)[1]
        cx.site('%s: close(%s) at %s runs after %d dup2 call(s)' % (body.fn, nm, body.loc(ct), len(before)))
        if before and key(ct['a'][1]) not in moved:
            cx.violation(body.root, 'close-after-install:%s' % nm, 'descriptor `%s` is closed after a pipe end has already been moved onto a '
                         'standard descriptor, and it is not the descriptor that was moved: if it happens to carry that standard '
                         "number (pipe ends get the lowest free numbers, e.g. 0 when stdin was closed), the command's freshly "
                         'connected input/output is closed and bytes are lost' % nm, loc=body.loc(ct))


# --- explanation addendum (generated catalogue in DESIGN.md reads RS.explanation)
RS.explanation += ' Added later: once a pipe end sits on a standard descriptor only the descriptor just moved is closed (R2c); O_NONBLOCK must not be left on a shared open file description while the shell is suspended (R6, open findings).'


def nonblocking_mode_held_across_await(cx):
    """O_NONBLOCK belongs to the open file description, which forked children and sibling commands share: the shell must not
    leave it set while it is suspended waiting for the descriptor."""
    import re as _re
    F = cx.F
    users = F.callers_of(lambda n, t: any('TemporaryNonBlockingGuard' in x and x.endswith('::new') for x in n))
    setters = F.callers_of(lambda n, t: any(x.endswith('Fcntl::get_and_set_nonblocking') for x in n))
    cx.site('O_NONBLOCK is changed by %s' % sorted({b.root.split('::')[-2] + '::' + b.root.split('::')[-1] for b, _, _ in setters}))
    if not users:
        cx.site('no TemporaryNonBlockingGuard is created: nothing holds O_NONBLOCK across a suspension')
        return
    for b, blk, t in users:
        cx.fn(b.fn)
        live = b.live_blocks()
        ys = [i for i, bb in enumerate(b.blocks) if bb['t']['k'] == 'yield' and i in live]
        # the guard is alive until it is dropped (explicit drop terminator of its local) or the function returns
        g = t['dest']['l']
        drops = {i for i, bb in enumerate(b.blocks) if bb['t']['k'] == 'drop' and (bb['t'].get('pl') or bb['t'].get('place') or {}).get('l') == g}
        reach = b.reachable(t['to'], removed=drops) if t.get('to') is not None else set()
        held = sorted({b.blocks[y]['t'].get('line') for y in ys if y in reach})
        owner = _re.sub(r'(::\{closure#\d+\})+$', '', b.fn)
        cx.site('%s: guard created at %s; suspension points while the descriptor is non-blocking: %s' % (owner, b.loc(t), held or 'none'))
        if held:
            what = owner.split('::')[-1]
            cx.violation(owner, 'nonblocking-held-across-await', '%s sets O_NONBLOCK on the descriptor and stays suspended (source lines %s) with '
                         'the flag set: the flag is a property of the open file description shared with forked children and sibling '
                         'processes, whose blocking read/write then fails with EAGAIN - `yash -c \'cat big & sleep 0.2; pwd; wait\' | '
                         '(sleep 1; wc -c)` loses most of the data (cat: write error: Resource temporarily unavailable); and the flag '
                         'stays set for good if the waiting process is killed' % (what, held), loc=b.loc(t))


@RS.rule('C14.R6', 'K-RES', 'the non-blocking mode the shell needs for its own reads and writes is not left on a shared open file description '
         'while the shell is suspended (another process writing to the same pipe must be able to block)')
def r6(cx):
    nonblocking_mode_held_across_await(cx)


# ---------------------------------------------------------------------------------------
# C14.R7 = C18.R1b: the readers of a shared descriptor take one byte per read call. For C14 the clause is: a byte obtained from a
# pipe is consumed exactly once and no read result is taken for "the rest of the item" - only a zero-length read ends an item early.
# A read sized from the lead byte of a multi-byte character returns short when the character straddles two fillings of the pipe.
from rules.C18 import r1b as _c18_one_byte_readers
from engine import Rule
RS.rules.append(Rule('C14.R7', 'K-EFFECT', 'readers of a pipe shared with other commands (the read built-in, script input) obtain one byte per '
                     'read call, so a short read can never be taken for a complete multi-byte item (C18.R1b)', _c18_one_byte_readers))


# ---------------------------------------------------------------------------------------
# C14.R8 / C14.R9 - where the descriptors the shell itself fills come from
WRITE_CALLS = ['*::WriteAll::write_all', '*::Write::write']
PIPE_CALLS = ['*::Pipe::pipe']
TMPFILE_CALLS = ['*::Open::open_tmpfile']
# a second process that may hold (and read) the other end exists only after one of these
FORK_CALLS = [Q.re.compile(r'^yash_env::subshell::.*::start(_and_wait)?$'), Q.re.compile(r'::run_in_child_process$'),
              Q.re.compile(r'::new_child_process$')]
_STD_FD = Q.re.compile(r'^yash_env::io::Fd::(STDIN|STDOUT|STDERR)$')
_WRITE_IMPL = Q.re.compile(r'(\bWrite|\bWriteAll)( for .*)?>::(write|write_all)$')


# combinators of Result / Option that hand the success payload on unchanged
_PAYLOAD_KEEPERS = [Q.re.compile(r'^core::result::Result::<T, E>::(map_err|or_else|inspect|inspect_err|unwrap|expect|unwrap_or_else|ok|copied|cloned)$'),
                    Q.re.compile(r'^core::option::Option::<T>::(ok_or|ok_or_else|unwrap|expect|inspect|copied|cloned|or_else)$'),
                    Q.re.compile(r'^<yash_env::io::Fd as core::clone::Clone>::clone$')]


def _fd_source(body, du, operand):
    """value_source that also steps back through payload-preserving combinators (`.map_err(..)?`, `.ok()`, `.unwrap()`)."""
    src = Q.value_source(body, du, operand)
    for _ in range(8):
        if src is None or not Q.callee_is(src, _PAYLOAD_KEEPERS) or not src['a']:
            return src
        src = Q.value_source(body, du, src['a'][0])
    return src


def _param_index(F, body, du, operand):
    """Index of the parameter of body.root that `operand` is (directly, or as a capture of the async fn's coroutine), else None."""
    o = du.origin(operand)
    if o['k'] == 'arg' and not body.d.get('coroutine') and body.fn == body.root:
        return o['l'] - 1
    if o['k'] == 'place' and o['pl']['l'] == 1 and body.d.get('coroutine') and body.fn == body.root + '::{closure#0}':
        proj = [e for e in (o['pl'].get('p') or []) if isinstance(e, dict) and 'f' in e]
        if len(proj) != 1 or not str(proj[0]['f']).isdigit() or body.root not in F.bodies:
            return None
        outer = F.bodies[body.root]
        odu = Q.DefUse(outer)
        for _, _, s in outer.stmts():
            rv = s.get('rv') or {}
            if s['k'] == 'assign' and rv.get('k') == 'agg' and rv.get('ak') == 'coroutine' and rv.get('def') == body.fn:
                k = int(proj[0]['f'])
                if k < len(rv['ops']):
                    oo = odu.origin(rv['ops'][k])
                    if oo['k'] == 'arg':
                        return oo['l'] - 1
    return None


def _ok_returns(body):
    return [(b, s) for b, j, s in Q.find_aggregates(body, 'core::result::Result', 'Ok') if s['lhs']['l'] == 0 and not s['lhs'].get('p')]


def fd_origins(F, body, du, operand, use_block, depth=4, seen=None):
    """Where a descriptor value comes from, across helper boundaries (parameters -> all callers, results of workspace functions ->
    their Ok returns). Returns [(class, text, info)], class in std | tmpfile | pipe | pipe-after-fork | delegate | unknown."""
    seen = seen if seen is not None else set()
    o = du.origin(operand)
    if o['k'] == 'const':
        cdef = o['o'].get('cdef') or ''
        if _STD_FD.match(cdef):
            return [('std', cdef.split('::')[-1], None)]
        return [('unknown', 'constant %s' % (cdef or o['o'].get('c')), None)]
    idx = _param_index(F, body, du, operand)
    if idx is not None:
        if _WRITE_IMPL.search(body.root):
            return [('delegate', 'parameter of %s' % body.root.split('::')[-1], None)]
        key = ('param', body.root, idx)
        if key in seen or depth == 0:
            return []
        seen.add(key)
        root = body.root
        callers = F.callers_of(lambda names, tt: root in names)
        if not callers:
            return [('unknown', 'parameter %d of %s, which has no visible caller' % (idx, root), None)]
        out = []
        for cb, cblk, ct in callers:
            if idx < len(ct['a']):
                out += fd_origins(F, cb, Q.DefUse(cb), ct['a'][idx], cblk, depth - 1, seen)
        return out
    src = _fd_source(body, du, operand)
    if src is None:
        return [('unknown', 'a value the analysis cannot trace (%s in %s)' % (o['k'], body.root), None)]
    if Q.callee_is(src, TMPFILE_CALLS):
        return [('tmpfile', 'open_tmpfile at %s' % body.loc(src), {'body': body, 't': src})]
    if Q.callee_is(src, PIPE_CALLS):
        pblk = [b for b, t in body.calls() if t is src]
        forks = {b for b, t in Q.find_calls(body, FORK_CALLS)}
        guarded = (use_block is not None and pblk and src.get('to') is not None and forks and
                   Q.must_pass(body, [src['to']], forks, goal_blocks={use_block}) is None and use_block in body.reachable(src['to']))
        return [('pipe-after-fork' if guarded else 'pipe', 'pipe() at %s' % body.loc(src), {'body': body, 't': src})]
    out = []
    for n in Q.callee_names(src):
        if n in F.bodies and n.startswith('yash_'):
            key = ('ret', n)
            if key in seen or depth == 0:
                return []
            seen.add(key)
            out += [(c, x, i) for c, x, i, _, _ in returned_fd_origins(F, n, depth - 1, seen)]
            if out:
                return out
    return [('unknown', 'the result of %s' % pp.callee(src), None)]


def returned_fd_origins(F, root, depth=4, seen=None):
    """Origins of the descriptor a function returns on success: [(class, text, info, body, node)] over every definition of the
    return place (Ok(..) aggregates, or the forwarded result of a workspace function; Err(..) and `?` residuals are failures)."""
    seen = seen if seen is not None else set()
    mb = F.main_body(root)
    du = Q.DefUse(mb)
    out = []
    for blk, idx, node in du.defs.get(0, []):
        if idx == 't':
            if Q.callee_is(node, Q.FROM_RESIDUAL):
                continue
            names = [n for n in Q.callee_names(node) if n in F.bodies and n.startswith('yash_')]
            if names and ('ret', names[0]) not in seen and depth > 0:
                seen.add(('ret', names[0]))
                out += [(c, x, i, mb, node) for c, x, i, _, _ in returned_fd_origins(F, names[0], depth - 1, seen)]
            else:
                out.append(('unknown', 'the result of %s' % pp.callee(node), None, mb, node))
            continue
        if node['k'] != 'assign' or node['lhs'].get('p'):
            continue
        rv = node['rv']
        if rv['k'] == 'agg' and rv.get('adt') == 'core::result::Result':
            if rv.get('variant') == 'Ok':
                for op in rv['ops']:
                    if 'cp' in op or 'mv' in op:
                        out += [(c, x, i, mb, node) for c, x, i in fd_origins(F, mb, du, op, blk, depth, seen)]
            continue
        if rv['k'] == 'use' and ('cp' in rv['o'] or 'mv' in rv['o']):
            # a whole Result forwarded from an awaited / plain call of a workspace function
            src = _fd_source(mb, du, rv['o'])
            names = [n for n in (Q.callee_names(src) if src is not None else []) if n in F.bodies and n.startswith('yash_')]
            if names and ('ret', names[0]) not in seen and depth > 0:
                seen.add(('ret', names[0]))
                out += [(c, x, i, mb, node) for c, x, i, _, _ in returned_fd_origins(F, names[0], depth - 1, seen)]
            else:
                out.append(('unknown', 'a forwarded value (%s)' % (pp.callee(src) if src is not None else 'untraced'), None, mb, node))
            continue
        out.append(('unknown', 'a return value of unrecognised shape', None, mb, node))
    return out


@RS.rule('C14.R8', 'K-TAINT', 'every descriptor the shell itself writes to is a standard descriptor or a temporary file; never the write end of a '
         'pipe it has just created while no other process exists that could read it')
def r8(cx):
    F = cx.F
    sites = F.callers_of(lambda names, t: Q.callee_is(t, WRITE_CALLS))
    cx.floor(len(sites), 8, 'write / write_all call sites')
    cx.require(F.callers_of(lambda names, t: Q.callee_is(t, PIPE_CALLS)), 'no caller of Pipe::pipe: the anchor of this rule is gone')
    examined = 0
    for b, blk, t in sites:
        du = Q.DefUse(b)
        cx.fn(b.fn)
        cx.require(len(t['a']) >= 3, 'write call with unexpected arity in %s' % b.fn)
        orgs = fd_origins(F, b, du, t['a'][1], blk)
        what = pp.callee(t).split('::')[-1]
        cx.site('%s: %s(fd) at %s, fd <- %s' % (b.root, what, b.loc(t), sorted({'%s (%s)' % (c, x) for c, x, _ in orgs}) or 'no origin'))
        if not any(c == 'delegate' for c, _, _ in orgs):
            examined += 1
        if not orgs:
            cx.violation(b.root, 'write-target-untraced:%s' % what, 'the descriptor written here could not be traced to its origin', loc=b.loc(t))
        for c, x, info in orgs:
            if c == 'pipe':
                cx.violation(b.root, 'writes-into-own-pipe:%s' % what, 'the shell writes data into the write end of a pipe it created itself (%s) '
                             'while it is the only process holding the read end and is not reading: once the data exceeds what the pipe can '
                             'buffer (1024 bytes in the simulated system, PIPE_BUF >= 512 is all POSIX promises) the write waits for ever for '
                             'a reader and the data never arrives - e.g. a here-document body above the pipe capacity hangs the shell in the '
                             'redirection' % x, loc=b.loc(t))
            elif c == 'unknown':
                cx.violation(b.root, 'write-target-unclassified:%s' % what, 'the shell writes to a descriptor of unknown provenance (%s): only '
                             'standard descriptors, temporary files and pipes that a forked process reads may be written without a bound' % x,
                             loc=b.loc(t))
    cx.floor(examined, 6, 'write sites with a classified target (not counting the delegating trait impls)')


@RS.rule('C14.R9', 'K-TAINT', 'here-document: the descriptor handed to the command is the temporary file (seekable, unbounded) that was filled, '
         'never one end of a pipe')
def r9(cx):
    F = cx.F
    fn = 'yash_semantics::redir::here_doc::open_fd'
    body = F.main_body(fn)
    cx.fn(body.fn)
    rets = returned_fd_origins(F, fn)
    cx.require(rets, 'open_fd has no success return that carries a descriptor')
    for c, x, info, rb, node in rets:
        cx.fn(rb.fn)
        cx.site('%s: success return at %s, fd <- %s (%s)' % (fn, rb.loc(node), c, x))
        if c != 'tmpfile':
            cx.violation(fn, 'here-doc-fd:%s' % c, 'open_fd hands the command a descriptor that is not the temporary file (%s): the whole '
                         'body is stored before any reader exists, so the store must be unbounded and rewindable; a pipe holds only its '
                         'capacity and the shell blocks for ever writing a larger body' % x, loc=rb.loc(node))
            continue
        # the temporary file returned was handed to a filling call first (decided in the body that opens it)
        tb = info['body']
        tdu = Q.DefUse(tb)
        fills = []
        for cb, ct in tb.calls():
            if ct is info['t'] or Q.callee_is(ct, CLOSE):
                continue
            if any(('cp' in a_ or 'mv' in a_) and _fd_source(tb, tdu, a_) is info['t'] for a_ in ct['a']):
                fills.append((cb, ct))
        okb = [b_ for b_, s_ in _ok_returns(tb)
               if any(('cp' in o_ or 'mv' in o_) and _fd_source(tb, tdu, o_) is info['t'] for o_ in s_['rv']['ops'])]
        for b_ in okb:
            if not any(tb.dominates(cb, b_) for cb, ct in fills):
                cx.violation(fn, 'here-doc-fd:not-filled', 'the temporary file can be returned without having been passed to the function '
                             'that writes the content', loc=tb.loc(tb.term(b_)))
    # the filling of a here-document uses the complete-transfer primitive on that descriptor (R5 decides its order with the rewind)
    mod = [bd for f_, bd in F.bodies.items() if f_.startswith('yash_semantics::redir::here_doc::')]
    wr = [(bd, blk, t) for bd in mod for blk, t in Q.find_calls(bd, WRITE_CALLS)]
    cx.floor(len(wr), 1, 'write calls in redir::here_doc')
    for bd, blk, t in wr:
        orgs = fd_origins(F, bd, Q.DefUse(bd), t['a'][1], blk)
        cx.site('%s: %s at %s, fd <- %s' % (bd.root, pp.callee(t).split('::')[-1], bd.loc(t), sorted({c for c, _, _ in orgs})))
        for c, x, info in orgs:
            if c != 'tmpfile':
                cx.violation(bd.root, 'here-doc-write-target:%s' % c, 'here-document content is written to a descriptor that is not the temporary '
                             'file (%s)' % x, loc=bd.loc(t))


RS.explanation += (' Added later: the readers of a shared pipe take one byte per read call (R7 = C18.R1b: no short read is taken for a complete '
                   'multi-byte item); every descriptor the shell writes to is traced across helpers to a standard descriptor or a temporary '
                   'file, never to the write end of a pipe created by the same process with no forked reader (R8); the here-document '
                   'descriptor handed to the command is the filled temporary file (R9).')


# ---------------------------------------------------------------------------------------
# C14.R10 - the poll contract of the simulated select(): a process blocked on a pipe is woken by the pipe's WakerSet, which
# wake_all() EMPTIES. Being woken is not being ready (a writer needs PIPE_BUF bytes of room, the reader may have taken fewer),
# so every poll that ends in Pending must put the waker back into the set of every watched descriptor - on that poll.
VSEL_MOD = 'yash_env::system::r#virtual::select::'
_WATCH = (('reader', ['*::register_reader_waker'], ['*::is_ready_for_reading']),
          ('writer', ['*::register_writer_waker'], ['*::is_ready_for_writing']))
_RESUME_WAKER = ['*::Process::wake_on_resumption']
_CTX_WAKER = [Q.re.compile(r'^core::task::wake::Context(::<[^>]*>)?::waker$')]
_ITER_NEXT = ['*::Iterator::next']
_SET_EMPTIERS = [Q.re.compile(r'::(drain|clear)$'), 'core::mem::take', 'core::mem::replace']


def _through_refs(du, pl):
    """`(*r).proj` with r a single-definition reference (a temporary, a `let`, the parameter of an inlined helper) -> the place
    r points to + proj, repeatedly."""
    for _ in range(12):
        proj = pl.get('p') or []
        if not proj or proj[0] != '*':
            return pl
        d = du.single_def(pl['l'])
        if d is None or d[1] == 't' or d[2]['k'] != 'assign':
            return pl
        rv = d[2]['rv']
        if rv['k'] == 'ref':
            pl = {'l': rv['pl']['l'], 'p': (rv['pl'].get('p') or []) + proj[1:]}
        elif rv['k'] == 'use' and Q.operand_place(rv['o']) is not None:
            src = Q.operand_place(rv['o'])
            pl = {'l': src['l'], 'p': (src.get('p') or []) + proj}
        else:
            return pl
    return pl


def _iterated_place(body, du, operand):
    """The place a loop's iterator was made from: back through `&mut iter`, moves and the adapter chain
    (`into_iter(cloned(iter(&SET)))` -> SET). None when the chain does not end in a place."""
    for _ in range(16):
        o = du.origin(operand)
        if o['k'] == 'call' and o['t']['a']:
            operand = o['t']['a'][0]
        elif o['k'] == 'ref':
            pl = _through_refs(du, o['pl'])
            if not Q.is_plain(pl):
                return pl
            operand = {'cp': pl}
        elif o['k'] == 'place':
            pl = _through_refs(du, o['pl'])
            if pl == o['pl']:
                return pl
            operand = {'cp': pl}
        elif o['k'] == 'arg':
            return {'l': o['l']}
        else:
            return None
    return None


def _enclosing_loop(F, body, du, blk, t):
    """The innermost `next()`-driven loop around the call t in block blk, or None:
    {'head': block of the next() call, 'entries': first blocks of an iteration (the Some side of the test of next()'s result),
     'blocks': the blocks of the loop body, 'early': edges that leave the body other than through the header, 'set': iterated place}."""
    dom = body.dominators()
    after = body.reachable(t['to']) if t.get('to') is not None else set()
    heads = [(nb, nt) for nb, nt in Q.find_calls(body, _ITER_NEXT) if nb != blk and body.dominates(nb, blk) and nb in after]
    if not heads:
        return None
    nb, nt = max(heads, key=lambda h: len(dom[h[0]]))
    # the switch on the Option that next() returned: its None edge ends the loop, the other edges start an iteration
    sw = nt.get('to')
    for _ in range(4):
        if sw is None or body.term(sw)['k'] == 'switch':
            break
        s = body.succ(sw)
        sw = s[0] if len(s) == 1 else None
    entries = set()
    if sw is not None and body.term(sw)['k'] == 'switch':
        ec = Q.edge_condition(F, body, du, sw)
        if ec is not None and ec[0]['k'] == 'discr' and ec[0]['pl'].get('l') == nt['dest']['l']:
            entries = {tgt for tgt, labs in ec[1].items() if ('variant', 'Some') in labs}
    inside = set()
    for e in entries:
        inside |= body.reachable(e, removed={nb})
    blocks = {x for x in inside if nb in body.reachable(x)}
    early = {(u, v) for u in blocks for v in body.succ(u) if v not in blocks and v != nb
             and body.term(v)['k'] != 'unreachable'}
    return {'head': nb, 'entries': entries & blocks, 'blocks': blocks, 'early': early, 'set': _iterated_place(body, du, nt['a'][0])}


@RS.rule('C14.R10', 'K-PASS', 'simulated select(): every poll that returns Pending has registered the current waker with every watched '
         'descriptor on that poll (the pipe empties its waker set when it wakes, and woken is not ready)')
def r10(cx):
    import json as _json
    F = cx.F
    # premise: waking empties the set, so a registration made on an earlier poll is gone after the first wake-up
    wk = [b for fn, b in F.bodies.items() if b.root == 'yash_env::waker::set::WakerSet::wake_all']
    cx.require(wk, 'yash_env::waker::set::WakerSet::wake_all not found')
    emptied = [(b, t) for b in wk for _, t in Q.find_calls(b, _SET_EMPTIERS)]
    cx.require(emptied, 'WakerSet::wake_all no longer empties the set (no drain/clear/take): the clause "re-register on every Pending poll" '
               'has to be re-derived from the new wake-up protocol')
    cx.site('premise: %s empties the set with %s at %s' % (wk[0].root, pp.callee(emptied[0][1]).split('::')[-1], emptied[0][0].loc(emptied[0][1])))
    polls = [b for fn, b in sorted(F.bodies.items())
             if fn.startswith(VSEL_MOD) and b.locals[0]['ty'].startswith('core::task::poll::Poll<')
             and any('core::task::wake::Context' in b.locals[i]['ty'] for i in range(1, b.argc + 1))]
    cx.require(polls, 'no poll function (returns Poll, takes a Context) found in %s*' % VSEL_MOD)
    n_pending = 0
    for raw in polls:
        body = F.inlined(raw)
        du = Q.DefUse(body)
        live = body.live_blocks()
        pend = [(b, s) for b, j, s in Q.find_aggregates(body, 'core::task::poll::Poll', 'Pending')
                if s['lhs']['l'] == 0 and not s['lhs'].get('p') and b in live]
        if not pend:
            continue
        cx.fn(raw.fn)
        n_pending += len(pend)
        pend_blocks = {b for b, _ in pend}
        resume = {b for b, _ in Q.find_calls(body, _RESUME_WAKER)}
        ctxw = {b for b, _ in Q.find_calls(body, _CTX_WAKER)}
        watch = []
        for kind, reg_pats, ready_pats in _WATCH:
            ready_sets = set()
            ready = Q.find_calls(body, ready_pats)
            cx.require(ready, 'the readiness test %s is not called in %s: the anchor of this rule is gone' % (ready_pats[0][3:], raw.fn))
            for b, t in ready:
                lp = _enclosing_loop(F, body, du, b, t)
                if lp is not None and lp['set'] is not None:
                    ready_sets.add(_json.dumps(lp['set'], sort_keys=True))
            cx.require(ready_sets, 'the set of descriptors tested with %s could not be identified in %s' % (ready_pats[0][3:], raw.fn))
            regs = Q.find_calls(body, reg_pats)
            reg_blocks = {b for b, _ in regs}
            through, flaws = set(), []
            for b, t in regs:
                lp = _enclosing_loop(F, body, du, b, t)
                if lp is None:
                    through.add(b)              # a single registration outside any loop: the call itself has to be passed
                    continue
                if lp['set'] is None or _json.dumps(lp['set'], sort_keys=True) not in ready_sets:
                    flaws.append('the registration at %s iterates another collection than the one tested for readiness' % body.loc(t))
                elif not lp['entries'] or Q.must_pass(body, sorted(lp['entries']), reg_blocks, goal_blocks={lp['head']}) is not None:
                    flaws.append('the loop at %s does not register on every iteration' % body.loc(body.term(lp['head'])))
                elif any(pend_blocks & body.reachable(v) for u, v in lp['early']):
                    flaws.append('the loop at %s can be left before all descriptors are visited' % body.loc(body.term(lp['head'])))
                else:
                    through.add(lp['head'])     # zero iterations (empty set) is the only way past the call
            watch.append((kind, through, flaws))
        for pb, ps in pend:
            facts = []
            p = Q.must_pass(body, [0], ctxw, goal_blocks={pb})
            facts.append('current waker %s' % ('taken' if p is None else 'NOT taken'))
            if p is not None:
                cx.violation(raw.root, 'pending-without-current-waker', 'select() can return Poll::Pending without having taken the waker of '
                             'the current poll from the Context: the waker of an earlier poll was consumed by the wake-up that caused this '
                             'poll, so nothing can wake the process again', loc=body.loc(ps), path=Q.render_path(body, p))
            suspended = Q.must_pass(body, [0], resume, goal_blocks={pb}) is None
            if suspended:
                facts.append('process stopped: waits for resumption only')
            for kind, through, flaws in watch:
                if suspended:
                    continue
                p = Q.must_pass(body, [0], through | resume, goal_blocks={pb})
                facts.append('%s wakers %s' % (kind, 're-registered on every path' if p is None else 'NOT re-registered on every path'))
                if p is not None:
                    cx.violation(raw.root, 'pending-without-registration:%s' % kind, 'select() can return Poll::Pending on a path that does not '
                                 'register its waker with every watched %s on this poll%s: the pipe drops all registered wakers when it wakes '
                                 'them (WakerSet::wake_all), and a woken process may find its descriptor still not ready (a writer needs '
                                 'PIPE_BUF bytes of room, the reader may have taken fewer) - after such a poll nobody wakes it again, a writer '
                                 'blocked on a full pipe sleeps for ever and the output beyond the pipe capacity never arrives'
                                 % (kind, ' (%s)' % '; '.join(flaws) if flaws else ''), loc=body.loc(ps), path=Q.render_path(body, p))
            cx.site('%s: return Poll::Pending at %s: %s' % (raw.fn, body.loc(ps), '; '.join(facts)))
    cx.require(n_pending >= 1, 'the simulated select() never returns Poll::Pending: the anchor of this rule is gone')


RS.explanation += (' Added later: in the poll function of the simulated select() every path to a Poll::Pending return takes the current waker '
                   'and (unless the process is stopped and waits for resumption) passes the registration of that waker with every watched '
                   'reader and writer descriptor: the loop over the same set that was tested for readiness, registering on every iteration, '
                   'with no early exit (an empty set is the only way past the call) - no state kept from an earlier poll may skip it, because WakerSet::wake_all empties the set (R10).')
