"""C08 - nothing done in a subshell leaks into the parent; the child starts from a copy.

Structural clauses decided (DESIGN.md 4/C08): who may fork and through which
funnel; the start-up order in the child; the trap reset table; the deep-copy audit of
the state handed to the child; extract/fork/restore pairing; the field coverage of the
simulated fork."""
import re
from engine import RuleSet
import mirq as Q
import hirq as H
import pp

RS = RuleSet(
    'C08',
    explanation=(
        'Caller, order, table and type rules over the compiler facts: every child process is created through '
        'subshell::Config::start (the only caller of Env::run_in_child_process; fork(2) and the simulated fork have '
        'one caller each) and all seven subshell kinds of the interpreter go through it; in the child, the Subshell '
        'frame, the job disowning and the trap reset complete before the task runs and the child ends in '
        'exit_or_raise (type !, no return path), so it can never fall into the parent\'s continuation; '
        'GrandState::enter_subshell resets exactly the command traps (saved as parent state) and leaves Default/'
        'Ignore alone, TrapSet::enter_subshell selects the documented option per signal; no interior-mutable data '
        'is reachable through a shared pointer (Rc/Arc/Weak/&\'static) from ForkEnvState, the state a simulated '
        'child receives by clone(), other than the reviewed Code buffer (single writer checked) and the opaque '
        'trait objects named as assumptions; Env::run_in_child_process extracts, forks and restores in that order '
        'on every path and touches nothing else; extract/into_env/restore/clone map every Env field to the field '
        'of the same name; virtual::Process::fork_from copies every fork(2)-inherited field of Process from the '
        'parent and none of the per-process ones, with every field of the struct classified.'),
    not_decided='behaviour under interleavings of parent and child; that the copied process state is then used '
                'correctly by every simulated system call; state hidden behind the opaque trait objects '
                '(DataSet entries, function bodies)',
    trusted=['fork(2) inheritance classification of the fields of virtual::Process in rules/C08.py (POSIX fork())',
             'allow-list of reviewed shared/opaque types in rules/C08.py'],
    assumptions=['`dyn any::Data` values stored in Env::any deep-copy their state in Data::clone (opaque to the audit)',
                 '`dyn FunctionBodyObject` implementations are immutable after construction (opaque to the audit)',
                 'built-in function pointers are stateless code pointers',
                 'dominance is computed on normal control flow (unwind edges dropped)'],
)

CONFIG_START = 'yash_env::subshell::config::Config::start'
CONFIG_START_AND_WAIT = 'yash_env::subshell::config::Config::start_and_wait'
ENV_RICP = 'yash_env::Env::<S>::run_in_child_process'
FORK_RICP = 'yash_env::system::process::Fork::run_in_child_process'
PROCESS = 'yash_env::system::r#virtual::process::Process'
FORK_FROM = PROCESS + '::fork_from'
GRAND = 'yash_env::trap::state::GrandState'
ESO = 'yash_env::trap::state::EnterSubshellOption'
DISP = 'yash_env::system::signal::Disposition'


# ----------------------------------------------------------------- shared helpers
# (candidates for promotion into ycheck/mirq.py; C11.py and C13.py import them from here)
POLL = ['*::Future::poll', 'core::future::future::Future::poll']
FUTURE_WRAPPERS = [re.compile(r'^alloc::boxed::Box::<T>::(pin|new)$'), re.compile(r'^core::pin::Pin::<Ptr>::new$')]


def await_done(F, body, du, call_term):
    """Block entered when the future returned by `call_term` has been awaited to
    completion (the Ready edge of the poll of that future), or None if the future
    is not awaited in this body."""
    for pb, pt in Q.find_calls(body, POLL):
        if not pt['a']:
            continue
        src = Q.value_source(body, du, pt['a'][0])
        hops = 0
        while src is not None and src is not call_term and Q.callee_is(src, FUTURE_WRAPPERS) and src['a'] and hops < 4:
            src = Q.value_source(body, du, src['a'][0])      # Box::pin(fut).await
            hops += 1
        if src is not call_term:
            continue
        ec = Q.edge_condition(F, body, du, pt['to'])
        if ec is None:
            continue
        for tgt, labs in ec[1].items():
            if ('variant', 'Ready') in labs:
                return tgt
    return None


def done_block(F, body, du, b, t):
    """Completion point of a call site: the Ready edge for an awaited async call,
    the call block itself for a synchronous call."""
    d = await_done(F, body, du, t)
    return d if d is not None else b


def _const_bool(node):
    if node.get('k') == 'assign' and node['rv']['k'] == 'use':
        o = node['rv']['o']
        if o.get('ty') == 'bool' and o.get('c') in ('true', 'false'):
            return o['c'] == 'true'
    return None


def conds(F, body, du, blk, _depth=0):
    """Q.dominating_conditions plus resolution of boolean temporaries: for a
    dominating switch on a local that is only ever assigned constants
    (`matches!`, `a && b`), the conditions common to all blocks that assign the
    selected constant are added."""
    out = list(Q.dominating_conditions(F, body, du, blk))
    seen = {(e, lab) for _, lab, e in out}
    extra = []
    if _depth < 3:
        for org, lab, e in out:
            if lab[0] != 'bool':
                continue
            d = body.term(e[0])['d']
            l = Q.operand_local(d)
            if l is None:
                continue
            # follow a plain copy of the flag
            defs = du.defs.get(l, [])
            if len(defs) < 2:
                continue
            vals = []
            for (b, j, node) in defs:
                v = _const_bool(node) if j != 't' else None
                if v is None:
                    vals = None
                    break
                vals.append((b, v))
            if not vals:
                continue
            D = [b for b, v in vals if v == lab[1]]
            common = None
            for db in D:
                cs = {(ce, clab): (corg, clab, ce) for corg, clab, ce in conds(F, body, du, db, _depth + 1)}
                common = cs if common is None else {k: v for k, v in common.items() if k in cs}
            for k, v in (common or {}).items():
                if k not in seen:
                    seen.add(k)
                    extra.append(v)
    return out + extra


def cond_name(body, du, c):
    """User-visible name of the value tested by condition c (for flag tests)."""
    return Q.operand_name(body, du, body.term(c[2][0])['d'])


def only_label(cs, c, lab):
    """Condition c holds with label `lab` and that is the only label of its edge
    (an `else` edge of a variant switch carries one label per remaining variant:
    it states a disjunction, not any single variant)."""
    labs = {l for _, l, e in cs if e == c[2]}
    return labs == {lab}


def cond_discr_of(c, adt_field):
    """Condition c is a variant test on a place whose last field projection is `adt_field`=(adt, field)."""
    org = c[0]
    if org['k'] != 'discr':
        return False
    fs = [e for e in (org['pl'].get('p') or []) if isinstance(e, dict) and 'f' in e]
    return bool(fs) and (fs[-1].get('adt'), fs[-1]['f']) == adt_field


def eq_const_args(body, du, t):
    """For a PartialEq::eq/ne call, the named constants / unit variants among its operands."""
    out = []
    for a in t['a']:
        org = du.origin(a)
        if org['k'] == 'ref':
            org = du.origin_place(org['pl'])
        if org['k'] == 'const' and org['o'].get('cdef'):
            out.append(org['o']['cdef'])
        elif org['k'] == 'agg' and org['rv'].get('ak') == 'adt' and not org['rv']['ops']:
            out.append('%s::%s' % (org['rv']['adt'], org['rv']['variant']))
    return out


EQ = [re.compile(r'PartialEq(<.*>)?>?::eq$'), '*::PartialEq::eq']
NE = [re.compile(r'PartialEq(<.*>)?>?::ne$'), '*::PartialEq::ne']


def holds_eq(body, du, c, const_suffix, want=True):
    """Condition c states `x == CONST` (want=True) or `x != CONST` (want=False)."""
    org, lab = c[0], c[1]
    if org['k'] != 'call' or lab[0] != 'bool':
        return False
    t = org['t']
    if Q.callee_is(t, EQ):
        truth = lab[1]
    elif Q.callee_is(t, NE):
        truth = not lab[1]
    else:
        return False
    return truth == want and any(n.endswith(const_suffix) for n in eq_const_args(body, du, t))


# ----------------------------------------------------------------- field flow (R6b, R7)
FLOW_CALLS = [re.compile(r'::clone$'), re.compile(r'::clone_from$'), 'core::mem::take', 'core::mem::replace',
              re.compile(r'::to_owned$'), re.compile(r'Into<.*>>::into$'), re.compile(r'From<.*>>::from$'),
              re.compile(r'Deref>::deref$'), re.compile(r'::as_ref$'), re.compile(r'::to_path_buf$'),
              re.compile(r'::cloned$'), re.compile(r'::copied$')]


def _first_field(p, adt=None):
    for e in p.get('p') or []:
        if isinstance(e, dict) and 'f' in e:
            if adt is None or e.get('adt') == adt:
                return e['f']
            return None
    return None


def field_prov(body, src, src_adt=None, through=FLOW_CALLS):
    """local -> set of field names of the struct held by (or behind) local `src`
    that the local's value derives from; '*' = the whole struct."""
    prov = {}

    def of_place(p):
        l = p['l']
        base = {'*'} if l == src else prov.get(l)
        if not base:
            return set()
        if '*' in base:
            f = _first_field(p, src_adt)
            out = set(base) - {'*'}
            out.add(f if f else '*')
            return out
        return set(base)

    def of_operand(o):
        p = Q.operand_place(o)
        return of_place(p) if p is not None else set()

    changed = True
    while changed:
        changed = False
        for i, j, s in body.stmts():
            if s['k'] != 'assign':
                continue
            new = set()
            for p in Q.rvalue_places(s['rv']):
                new |= of_place(p)
            l = s['lhs']['l']
            if l == src or not new:
                continue
            if not new <= prov.get(l, set()):
                prov.setdefault(l, set()).update(new)
                changed = True
        for i, t in body.calls():
            if through is not None and not Q.callee_is(t, through):
                continue
            new = set()
            for a in t['a']:
                new |= of_operand(a)
            l = t['dest']['l']
            if l == src or not new:
                continue
            if not new <= prov.get(l, set()):
                prov.setdefault(l, set()).update(new)
                changed = True
    return prov, of_place, of_operand


def struct_fields(F, adt):
    a = F.adt(adt)
    return [f['name'] for f in a['variants'][0]['fields']]


def _ty_is(ty, adt):
    t = ty.replace('&mut ', '').lstrip('&').strip()
    return re.sub(r'<.*$', '', t) == adt


def target_writes(F, body, du, adt, of_place, of_operand, interproc=True):
    """Every write to a field of a value of struct `adt` built or updated in body:
    [(field, block, provenance set, kind, node)]."""
    fields = struct_fields(F, adt)
    out = []
    for b, j, s in Q.find_aggregates(body, adt):
        for i, o in enumerate(s['rv']['ops']):
            out.append((fields[i], b, of_operand(o), 'init', s))
    for b, j, s in body.stmts():
        if s['k'] != 'assign' or not s['lhs'].get('p'):
            continue
        f = _first_field(s['lhs'], adt)
        if f is None:
            continue
        pv = set()
        for p in Q.rvalue_places(s['rv']):
            pv |= of_place(p)
        nfields = len([e for e in s['lhs']['p'] if isinstance(e, dict) and 'f' in e])
        out.append((f, b, pv, 'assign' if nfields == 1 else 'partial', s))
    for b, t in body.calls():
        if not t['a']:
            continue
        org = du.origin(t['a'][0])
        hops = 0
        while org['k'] == 'ref' and hops < 4:
            pl = org['pl']
            f = _first_field(pl, adt)
            if f is not None:
                if org.get('mut'):
                    pv = set()
                    for a in t['a'][1:]:
                        pv |= of_operand(a)
                    kind = 'clone_from' if Q.callee_is(t, [re.compile(r'::clone_from$')]) else 'mutcall'
                    out.append((f, b, pv, kind, t))
                break
            if (pl.get('p') or []) == ['*']:
                org = du.origin_place({'l': pl['l']})
                hops += 1
            else:
                break
        # constructor call: the destination holds a whole `adt`
        d = t['dest']
        if interproc and Q.is_plain(d) and _ty_is(body.locals[d['l']]['ty'], adt):
            callee = t['f'].get('def')
            cb = F.bodies.get(callee) if callee else None
            if cb is not None:
                cdu = Q.DefUse(cb)
                for cbk, cj, cs in Q.find_aggregates(cb, adt):
                    for i, o in enumerate(cs['rv']['ops']):
                        org2 = cdu.origin(o)
                        pv = of_operand(t['a'][org2['l'] - 1]) if org2['k'] == 'arg' and org2['l'] - 1 < len(t['a']) else set()
                        out.append((fields[i], b, pv, 'ctor:%s' % callee.split('::')[-1], t))
    return out


# ----------------------------------------------------------------- R1
SUBSHELL_KINDS = {
    'yash_semantics::command::compound_command::subshell::execute': '( ) compound command',
    'yash_semantics::command::pipeline::execute_job_controlled_pipeline': 'job-controlled pipeline',
    'yash_semantics::command::pipeline::execute_multi_command_pipeline': 'pipeline element',
    'yash_semantics::command::item::execute_async': 'asynchronous list',
    'yash_semantics::expansion::initial::command_subst::expand': 'command substitution',
    'yash_semantics::command::simple_command::absent::execute_absent_target': 'redirection-only command in a subshell',
    'yash_env::semantics::command::run_external_utility_in_subshell': 'external utility',
}


@RS.rule('C08.R1', 'K-CALLERS', 'every child process is created through subshell::Config::start; all subshell kinds use it')
def r1(cx):
    F = cx.F
    funnel = [
        ([ENV_RICP], {CONFIG_START}, 'Env::run_in_child_process may only be called by subshell::Config::start '
         '(which pushes the Subshell frame, disowns jobs and resets traps in the child)'),
        ([FORK_RICP], {ENV_RICP, None}, 'Fork::run_in_child_process may only be called by Env::run_in_child_process '
         '(which hands the child a copy of the environment) and by the Concurrent wrapper'),
        (['libc::unix::fork', 'libc::fork', 'nix::unistd::fork'], {None}, 'fork(2) may only be called by the RealSystem implementation of Fork'),
        ([FORK_FROM], {None}, 'the simulated fork may only be performed by the VirtualSystem implementation of Fork'),
    ]
    impl_ok = re.compile(r'^(<.* as yash_env::system::process::Fork>|yash_env::system::concurrency::<impl yash_env::system::process::Fork for .*>)::run_in_child_process$')
    for pats, allowed, msg in funnel:
        sites = F.callers_of(lambda names, t, pats=pats: any(Q.name_matches(n, p) for n in names for p in pats))
        if pats[0] in (ENV_RICP, FORK_RICP, FORK_FROM):
            cx.floor(len(sites), 1, 'call sites of %s' % pats[0])
        for b, i, t in sites:
            cx.site('%s calls %s at %s' % (b.root, pp.callee(t), b.loc(t)))
            ok = b.root in allowed or (None in allowed and impl_ok.search(b.root))
            if not ok:
                cx.violation(b.root, 'caller:%s' % pats[0].split('::')[-1], msg, loc=b.loc(t))
    cx.fn(ENV_RICP)
    cx.fn(CONFIG_START)
    starters = F.callers_of(lambda names, t: CONFIG_START in names or CONFIG_START_AND_WAIT in names)
    roots = {}
    for b, i, t in starters:
        roots.setdefault(b.root, []).append((b, t))
    for kind, what in SUBSHELL_KINDS.items():
        F.logical(kind)     # anchor: the function exists
        cx.fn(kind)
        hit = roots.get(kind)
        if hit:
            cx.site('%s (%s) starts its child through %s at %s' % (kind, what, pp.callee(hit[0][1]).split('::')[-1], hit[0][0].loc(hit[0][1])))
        else:
            b0 = F.logical(kind)[0]
            cx.violation(kind, 'not-through-config-start', 'the %s no longer starts its child process through '
                         'subshell::Config::start / start_and_wait' % what, loc=b0.loc(b0.d))
    known = set(SUBSHELL_KINDS) | {CONFIG_START_AND_WAIT}
    for r, lst in sorted(roots.items()):
        if r in known or r.startswith('yash_env::subshell::Subshell::'):
            continue
        # a new subshell kind is fine (it uses the funnel); it is listed so that the inventory stays complete
        cx.site('additional user of Config::start: %s at %s' % (r, lst[0][0].loc(lst[0][1])))


# ----------------------------------------------------------------- R2
@RS.rule('C08.R2', 'K-ORDER', 'child start-up: Subshell frame < disown_all < trap reset (awaited) < task < exit_or_raise; no return path')
def r2(cx):
    F = cx.F
    bodies = [b for b in F.logical(CONFIG_START) if Q.find_calls(b, ['yash_env::trap::TrapSet::enter_subshell'])]
    cx.require(len(bodies) == 1, 'child task of Config::start (the body calling TrapSet::enter_subshell) not found')
    body = bodies[0]
    cx.fn(body.fn)
    du = Q.DefUse(body)

    def one(pats, what, required=True):
        cs = Q.find_calls(body, pats)
        if len(cs) != 1:
            if required:
                cx.violation(CONFIG_START, 'missing:%s' % what, 'the child task of Config::start must call %s exactly once '
                             '(found %d)' % (what, len(cs)), loc=body.loc(body.d))
            return None
        cx.site('%s: %s at %s' % (body.fn, what, body.loc(cs[0][1])))
        return cs[0]
    push = one(['*::push_frame'], 'push_frame')
    disown = one(['yash_env::job::JobList::disown_all'], 'jobs.disown_all')
    enter = one(['yash_env::trap::TrapSet::enter_subshell'], 'traps.enter_subshell')
    task = one(['core::ops::async_function::AsyncFnOnce::async_call_once', '*::AsyncFnOnce::async_call_once',
                '*::FnOnce::call_once'], 'the subshell task')
    exit_ = one(['yash_env::semantics::exit_or_raise'], 'exit_or_raise')
    if None in (push, disown, enter, task, exit_):
        return
    org = du.origin(push[1]['a'][1])
    if not (org['k'] == 'agg' and org['rv'].get('adt') == 'yash_env::stack::Frame' and org['rv'].get('variant') == 'Subshell'):
        cx.violation(CONFIG_START, 'frame-kind', 'the frame pushed in the child is not Frame::Subshell (is_interactive / '
                     'controls_jobs would treat the child as the main shell)', loc=body.loc(push[1]))
    chain = [('push_frame', push), ('disown_all', disown), ('enter_subshell', enter), ('task', task), ('exit_or_raise', exit_)]
    for (n1, s1), (n2, s2) in zip(chain, chain[1:]):
        d1 = done_block(F, body, du, *s1)
        if n1 in ('enter_subshell', 'task') and await_done(F, body, du, s1[1]) is None:
            cx.violation(CONFIG_START, 'not-awaited:%s' % n1, '%s is not awaited in the child' % n1, loc=body.loc(s1[1]))
            continue
        if not (d1 == s2[0] and d1 != s1[0] or (d1 != s2[0] and body.dominates(d1, s2[0]))):
            cx.violation(CONFIG_START, 'order:%s<%s' % (n1, n2), 'in the child, %s must be complete before %s on every path'
                         % (n1, n2), loc=body.loc(s2[1]))
    rets = [r for r in body.return_blocks() if r in body.live_blocks()]
    out = (F.fns.get('yash_env::semantics::exit_or_raise') or {}).get('output', '')
    cx.site('exit_or_raise: output type %s; reachable return blocks in the child task: %d' % (out, len(rets)))
    if 'Output = !' not in out and out.strip() != '!':
        cx.violation('yash_env::semantics::exit_or_raise', 'not-diverging', 'exit_or_raise must have the never type so that '
                     'the child cannot continue', loc=body.loc(exit_[1]))
    if rets:
        cx.violation(CONFIG_START, 'child-can-return', 'the child task has a path that returns instead of exiting: the '
                     'child would continue with the parent\'s code', loc=body.loc(body.term(rets[0])))
    # the task runs on the environment that carries the frame: its first tuple element derives from the guard
    cx.sample({'function': body.fn, 'order': ['%s@L%s' % (n, s[1]['line']) for n, s in chain]})


# ----------------------------------------------------------------- R3: option table of TrapSet::enter_subshell, by evaluation
# The option TrapSet::enter_subshell selects for a record is a function of (condition, the two flags, the internal
# disposition of the record). The rule does not look for one shape of that selection (nested if/else, match with guards,
# `==` chains, `contains`, De Morgan'd named booleans, an extracted helper, early returns are all the same function);
# it EVALUATES the MIR of the function for every abstract input and compares the option that reaches
# GrandState::enter_subshell with the documented table. A test the evaluator cannot decide is explored both ways; only
# a result that does not depend on such a test is reported as a violation, the others give no verdict (exit 2).
OPTION = 'core::option::Option'
CONDITION = 'yash_env::trap::cond::Condition'
TABLE_ITEM = re.compile(r'^core::option::Option<\(&(mut )?yash_env::trap::cond::Condition, &(mut )?yash_env::trap::state::GrandState\)>$')
ITER_NEXT = [re.compile(r'Iterator>::next$'), '*::Iterator::next']
TRANSPARENT_CALLS = [re.compile(r'::clone$'), re.compile(r'::to_owned$'), re.compile(r'Deref>::deref$'), re.compile(r'::as_ref$'),
                     re.compile(r'::as_slice$'), re.compile(r'Borrow<.*>>::borrow$'), re.compile(r'^core::convert::identity$')]
SLICE_CONTAINS = [re.compile(r'^core::slice::<impl \[T\]>::contains$')]
RECORD = ('record',)


def _veq(a, b):
    """Equality of two abstract values: True / False / None (not decidable)."""
    if a is None or b is None or a[0] != b[0]:
        return None
    k = a[0]
    if k in ('b', 'sig', 'int'):
        return a[1] == b[1]
    if k == 'enum':
        if a[1] != b[1]:
            return None
        if a[2] != b[2]:
            return False
        fa, fb = a[3], b[3]
    elif k in ('tuple', 'array'):
        fa, fb = a[1], b[1]
    else:
        return None
    if len(fa) != len(fb):
        return None
    rs = [_veq(x, y) for x, y in zip(fa, fb)]
    if any(r is False for r in rs):
        return False
    return True if all(r is True for r in rs) else None


class _TableEval:
    """Evaluates a MIR body on abstract values. Values: ('b', bool) ('sig', NAME) ('int', n) ('enum', adt, variant, fields)
    ('tuple', fields) ('array', elements) RECORD (the trap record of the entry) None (unknown). References are
    transparent (a reference evaluates to the value of its referent)."""

    def __init__(self, F, body, params, item, disposition, is_sink, max_steps=6000):
        self.F, self.body = F, body
        self.params = params            # parameter name -> value
        self.item = item                # what the iteration over the trap table yields
        self.disposition = disposition  # what GrandState::internal_disposition returns for the record
        self.is_sink = is_sink
        self.max_steps = max_steps
        self.upvars = {}
        for u in body.d.get('upvars') or []:
            pl = u.get('place') or {}
            fs = [e for e in pl.get('p') or [] if isinstance(e, dict) and 'f' in e]
            if pl.get('l') == 1 and len(fs) == 1:
                self.upvars[fs[0]['f']] = u.get('name')

    # -- values
    def const(self, o):
        c = str(o.get('c'))
        if o.get('ty') == 'bool' and c in ('true', 'false'):
            return ('b', c == 'true')
        cdef = o.get('cdef') or ''
        if '::Signals::' in cdef:
            return ('sig', cdef.split('::')[-1])
        return None

    def place(self, env, p):
        proj = list(p.get('p') or [])
        if p['l'] == 1 and self.upvars:
            while proj and proj[0] == '*':
                proj.pop(0)
            if not (proj and isinstance(proj[0], dict) and 'f' in proj[0]):
                return None
            v = self.params.get(self.upvars.get(proj.pop(0)['f']))
        else:
            v = env.get(p['l'])
        for e in proj:
            if v is None:
                return None
            if e == '*':
                continue
            if not isinstance(e, dict):
                return None
            if 'v' in e:
                if v[0] != 'enum' or v[2] != e['v']:
                    return None
            elif 'f' in e:
                fs = v[3] if v[0] == 'enum' else v[1] if v[0] == 'tuple' else None
                if fs is None or not str(e['f']).isdigit() or int(e['f']) >= len(fs):
                    return None
                v = fs[int(e['f'])]
            else:
                return None
        return v

    def operand(self, env, o):
        p = Q.operand_place(o)
        return self.place(env, p) if p is not None else self.const(o)

    def rvalue(self, env, rv):
        k = rv['k']
        if k == 'use':
            return self.operand(env, rv['o'])
        if k == 'ref':
            return self.place(env, rv['pl'])
        if k == 'cast':
            return self.operand(env, rv['o']) if str(rv.get('ck', '')).startswith('PointerCoercion') else None
        if k == 'discr':
            v = self.place(env, rv['pl'])
            names = Q.variant_names(self.F, rv.get('ty') or '')
            if v is not None and v[0] == 'enum' and names and v[2] in names:
                return ('int', names.index(v[2]))
            return None
        if k == 'agg':
            ops = tuple(self.operand(env, o) for o in rv['ops'])
            if rv.get('ak') == 'adt':
                return ('enum', rv.get('adt'), rv.get('variant'), ops)
            if rv.get('ak') in ('tuple', 'array'):
                return (rv['ak'], ops)
            return None
        if k == 'unop':
            v = self.operand(env, rv['o'])
            return ('b', not v[1]) if rv.get('op') == 'Not' and v is not None and v[0] == 'b' else None
        if k == 'binop':
            a, b = self.operand(env, rv['a']), self.operand(env, rv['b'])
            op = rv.get('op')
            if op in ('Eq', 'Ne'):
                r = _veq(a, b)
                return None if r is None else ('b', r == (op == 'Eq'))
            if a is not None and b is not None and a[0] == 'b' and b[0] == 'b' and op in ('BitAnd', 'BitOr', 'BitXor'):
                return ('b', {'BitAnd': a[1] and b[1], 'BitOr': a[1] or b[1], 'BitXor': a[1] != b[1]}[op])
        return None

    def call(self, env, t):
        a = [self.operand(env, o) for o in t['a']]
        if Q.callee_is(t, EQ + NE) and len(a) == 2:
            r = _veq(a[0], a[1])
            return None if r is None else ('b', r == bool(Q.callee_is(t, EQ)))
        if Q.callee_is(t, SLICE_CONTAINS) and len(a) == 2:
            if a[0] is None or a[0][0] != 'array':
                return None
            rs = [_veq(e, a[1]) for e in a[0][1]]
            if any(r is True for r in rs):
                return ('b', True)
            return ('b', False) if all(r is False for r in rs) else None
        if Q.callee_is(t, [GRAND + '::internal_disposition']) and a and a[0] == RECORD:
            return self.disposition
        if Q.callee_is(t, TRANSPARENT_CALLS) and len(a) == 1:
            return a[0]
        return None

    # -- control
    def run(self):
        """[(kind, value, decided, block)]: kind 'option' (value = what reaches the sink), 'skipped' (the loop went on to
        the next entry or the function returned without reaching the sink), 'diverged'."""
        body = self.body
        out = []
        env0 = {}
        if not self.upvars:                     # a plain fn: parameters are the first locals
            for l in range(1, body.argc + 1):
                env0[l] = self.params.get(body.locals[l].get('name'))
        stack = [(0, env0, False, True, {})]
        steps = 0
        while stack:
            b, env, used, decided, visits = stack.pop()
            while True:
                steps += 1
                if steps > self.max_steps:
                    raise _Undecidable('evaluation of %s does not terminate within %d steps' % (body.fn, self.max_steps))
                visits[b] = visits.get(b, 0) + 1
                if visits[b] > 2:
                    break                       # a loop on a test that is not decided (await): the exit edge is explored separately
                blk = body.blocks[b]
                for s in blk['s']:
                    if s['k'] == 'assign':
                        v = self.rvalue(env, s['rv'])
                        if not s['lhs'].get('p'):
                            env[s['lhs']['l']] = v
                        elif s['lhs']['p'][0] != '*':
                            env[s['lhs']['l']] = None
                    elif s['k'] == 'setdiscr':
                        env[s['lhs']['l']] = None
                t = blk['t']
                k = t['k']
                if k == 'switch':
                    v = self.operand(env, t['d'])
                    n = int(v[1]) if v is not None and v[0] in ('b', 'int') else None
                    if n is not None:
                        b = dict((x, y) for x, y in t['ts']).get(n, t['else'])
                        continue
                    tgts = [x for x in body.succ(b) if body.blocks[x]['t']['k'] != 'unreachable' or body.blocks[x]['s']]
                    for x in tgts[1:]:
                        stack.append((x, dict(env), used, False, dict(visits)))
                    if not tgts:
                        break
                    b, decided = tgts[0], False
                    continue
                if k == 'call':
                    sink = self.is_sink(t)
                    if sink is not None:
                        out.append(('option', self.operand(env, t['a'][sink]), decided, b))
                        break
                    if Q.callee_is(t, ITER_NEXT):
                        if TABLE_ITEM.match(t.get('dty') or ''):
                            if used:
                                out.append(('skipped', None, decided, b))
                                break
                            used = True
                            v = ('enum', OPTION, 'Some', (self.item,))
                        else:
                            v = ('enum', OPTION, 'None', ())      # other loops do not select the option: not entered
                    else:
                        v = self.call(env, t)
                    if not t['dest'].get('p'):
                        env[t['dest']['l']] = v
                    if t.get('to') is None:
                        out.append(('diverged', None, decided, b))
                        break
                    b = t['to']
                    continue
                if k in ('goto', 'drop', 'assert', 'falseedge', 'falseunwind', 'yield') and t.get('to') is not None:
                    b = t['to']
                    continue
                out.append(('skipped' if k == 'return' else 'diverged', None, decided, b))
                break
        return out


class _Undecidable(Exception):
    pass


SIG_INT_QUIT = ('SIGINT', 'SIGQUIT')
SIG_STOPPERS = ('SIGTSTP', 'SIGTTIN', 'SIGTTOU')


def expected_option(cond, sig, flag1, flag2, disposition):
    """The documented table of TrapSet::enter_subshell."""
    if cond == 'Exit':
        return 'ClearInternalDisposition'
    if sig == 'SIGCHLD':
        return 'KeepInternalDisposition'
    if flag1 and sig in SIG_INT_QUIT:
        return 'Ignore'
    if flag2 and sig in SIG_STOPPERS and disposition != 'Default':
        return 'Ignore'
    return 'ClearInternalDisposition'


# ----------------------------------------------------------------- R3
@RS.rule('C08.R3', 'K-TABLE+K-GUARD', 'trap reset on subshell entry: command traps -> default (saved as parent state); option table per signal')
def r3(cx):
    F = cx.F
    fn = GRAND + '::enter_subshell'
    body = F.main_body(fn)
    cx.fn(body.fn)
    du = Q.DefUse(body)
    writes = Q.field_writes(body, GRAND, 'current_state')
    cx.require(writes, 'no write to GrandState::current_state in enter_subshell')
    n_replace = n_ignore = 0
    for b, j, s, kind, f in writes:
        cs = conds(F, body, du, b)
        if kind == 'borrow_mut':
            taint = Q.forward_taint(body, {s['lhs']['l']}, through_calls=[])
            rep = [(rb, rt) for rb, rt in Q.find_calls(body, ['core::mem::replace']) if Q.operand_local(rt['a'][0]) in taint]
            if not rep:
                cx.site('%s: unrecognised &mut current_state at %s' % (body.fn, body.loc(s)))
                cx.violation(fn, 'write:current_state', 'current_state is mutably borrowed for something other than the '
                             'mem::replace that resets a command trap', loc=body.loc(s))
                continue
            rb, rt = rep[0]
            n_replace += 1
            cx.site('%s: mem::replace(&mut current_state, ..) at %s' % (body.fn, body.loc(rt)))
            if not any(cond_discr_of(c, ('yash_env::trap::state::TrapState', 'action')) and only_label(cs, c, ('variant', 'Command')) for c in cs):
                cx.violation(fn, 'reset-unguarded', 'the trap state is reset outside the Action::Command(_) case: an ignored '
                             'or default trap would be overwritten on subshell entry', loc=body.loc(rt))
            new = du.origin(rt['a'][1])
            act = du.origin(new['rv']['ops'][0]) if new['k'] == 'agg' and new['rv'].get('adt', '').endswith('TrapState') else None
            if not (act and act['k'] == 'agg' and act['rv'].get('variant') == 'Default'):
                cx.violation(fn, 'reset-value', 'a command trap must be reset to Action::Default in the subshell', loc=body.loc(rt))
            # the old state becomes the parent state
            t2 = Q.forward_taint(body, {rt['dest']['l']}, through_calls=[])
            saved = [1 for bb, jj, ss in body.stmts() if ss['k'] == 'assign' and Q._projects_field(ss['lhs'], GRAND, 'parent_state')
                     and any(p['l'] in t2 for p in Q.rvalue_places(ss['rv']))]
            if not saved:
                cx.violation(fn, 'parent-state-not-saved', 'the replaced command trap is not saved as the parent state '
                             '(`trap` in a subshell could not print the parent\'s traps)', loc=body.loc(rt))
        else:
            fs = [e['f'] for e in s['lhs']['p'] if isinstance(e, dict) and 'f' in e]
            val = du.origin(s['rv']['o']) if s['rv']['k'] == 'use' else {'k': '?'}
            is_ignore = fs[-1:] == ['action'] and val['k'] == 'agg' and val['rv'].get('variant') == 'Ignore'
            cx.site('%s: current_state.%s = %s at %s' % (body.fn, '.'.join(fs[1:]), val.get('rv', {}).get('variant'), body.loc(s)))
            if fs[-1:] == ['origin'] and val['k'] == 'agg' and val['rv'].get('variant') == 'Subshell':
                continue          # decided by C08.R3b
            if not is_ignore:
                cx.violation(fn, 'write:current_state', 'unexpected assignment to the current trap state on subshell entry',
                             loc=body.loc(s))
                continue
            n_ignore += 1
            if not any(holds_eq(body, du, c, 'EnterSubshellOption::Ignore') for c in cs):
                cx.violation(fn, 'ignore-unguarded', 'the action is set to Ignore without the option == Ignore test',
                             loc=body.loc(s))
    if n_replace != 1:
        cx.violation(fn, 'reset-count', 'expected exactly one reset of the command trap, found %d' % n_replace, loc=body.loc(body.d))
    # option tables (HIR)
    h = F.hir_of(fn)
    ms = H.matches_in(h['body'], ESO)
    assigned = [x for x in H.walk(h['body']) if x.get('k') == 'assign' and H.peel(x['l']).get('k') == 'field'
                and H.peel(x['l']).get('name') == 'internal_disposition' and H.peel(x['r']).get('k') == 'match']
    cx.require(len(ms) == 2 and len(assigned) == 1, 'expected two matches over EnterSubshellOption (new disposition, new internal disposition)')
    m_int = H.peel(assigned[0]['r'])
    m_new = [m for m in ms if m is not m_int][0]
    loc = '%s:%s' % (h['file'], h['line'])

    def arm(m, v):
        i, a = H.first_matching_arm(m, ('variant', '%s::%s' % (ESO, v), None))
        cx.require(i is not None, 'match arm for %s not decidable: %s' % (v, a))
        cx.cellcount(1)
        return H.peel(a['body'])

    def mentions_internal(n):
        return any(x.get('k') == 'field' and x.get('name') == 'internal_disposition' for x in H.walk(n))
    keep = arm(m_new, 'KeepInternalDisposition')
    if not (keep.get('k') == 'mcall' and keep.get('decl') == 'core::cmp::Ord::max' and mentions_internal(keep)):
        cx.violation(fn, 'table:new:Keep', 'KeepInternalDisposition must install max(internal disposition, user setting)', loc=loc)
    clear = arm(m_new, 'ClearInternalDisposition')
    if not (clear.get('k') == 'local' and not mentions_internal(clear)):
        cx.violation(fn, 'table:new:Clear', 'ClearInternalDisposition must install the user setting alone', loc=loc)
    ign = arm(m_new, 'Ignore')
    if H.path_def(ign) != DISP + '::Ignore':
        cx.violation(fn, 'table:new:Ignore', 'the Ignore option must install Disposition::Ignore', loc=loc)
    k2 = arm(m_int, 'KeepInternalDisposition')
    if not (k2.get('k') == 'field' and k2.get('name') == 'internal_disposition'):
        cx.violation(fn, 'table:internal:Keep', 'KeepInternalDisposition must leave the internal disposition unchanged', loc=loc)
    for v in ('ClearInternalDisposition', 'Ignore'):
        if H.path_def(arm(m_int, v)) != DISP + '::Default':
            cx.violation(fn, 'table:internal:%s' % v, '%s must clear the internal disposition' % v, loc=loc)

    # TrapSet::enter_subshell: which option for which signal (decided by evaluating the function, see _TableEval)
    fn2 = 'yash_env::trap::TrapSet::enter_subshell'
    b2 = F.inlined(F.main_body(fn2), lambda callee: callee.startswith('yash_env::trap::TrapSet::') and
                   (F.fns.get(callee) or {}).get('vis') != 'pub')       # an extracted option-selection helper is inlined
    cx.fn(b2.fn)
    du2 = Q.DefUse(b2)
    aggs = Q.find_aggregates(b2, ESO)
    cx.require(aggs, 'no EnterSubshellOption constructed in TrapSet::enter_subshell')
    FLAG1, FLAG2 = 'ignore_sigint_sigquit', 'keep_internal_dispositions_for_stoppers'
    pnames = [p_.get('name') for p_ in F.hir_of(fn2)['params']]
    cx.require(FLAG1 in pnames and FLAG2 in pnames, 'parameters %s / %s of TrapSet::enter_subshell not found (%s)' % (FLAG1, FLAG2, pnames))
    heads = [(b, t) for b, t in Q.find_calls(b2, ITER_NEXT) if TABLE_ITEM.match(t.get('dty') or '')]
    cx.require(heads, 'TrapSet::enter_subshell: no iteration over the trap table yielding (&Condition, &mut GrandState) found - the rule '
               'cannot tell which record the selected option belongs to')

    def is_sink(t):
        """The call that consumes the selected option: GrandState::enter_subshell, or a function of the trap module that is
        handed the option (a private helper wrapping that call)."""
        callee = t['f'].get('def') or t['f'].get('decl') or ''
        if not (Q.callee_is(t, [GRAND + '::enter_subshell']) or callee.startswith('yash_env::trap::')):
            return None
        for i, ty in enumerate(t.get('at') or []):
            if ty == ESO and i < len(t['a']):
                return i
        return None
    cx.require(any(is_sink(t) is not None for b, t in b2.calls()), 'TrapSet::enter_subshell hands no EnterSubshellOption to the trap module')
    # abstract inputs: every signal the function mentions, the six signals of the table, and one signal that is none of them
    mentioned = set()
    for b, j, s in b2.stmts():
        if s['k'] == 'assign':
            for o in Q.rvalue_operands(s['rv']):
                if '::Signals::' in (o.get('cdef') or ''):
                    mentioned.add(o['cdef'].split('::')[-1])
    for b, t in b2.calls():
        for o in t['a']:
            if '::Signals::' in (o.get('cdef') or ''):
                mentioned.add(o['cdef'].split('::')[-1])
    sigs = sorted(mentioned | {'SIGCHLD'} | set(SIG_INT_QUIT) | set(SIG_STOPPERS)) + ['<any other signal>']
    disp_names = [v['name'] for v in F.adt(DISP)['variants']]
    cx.require('Default' in disp_names, 'Disposition::Default not found')
    conditions = [('Exit', None)] + [('Signal', s) for s in sigs]
    bad, undecided, reached, table = {}, [], 0, {}
    for cond, sig in conditions:
        cval = ('enum', CONDITION, cond, (('sig', sig),) if cond == 'Signal' else ())
        for f1 in (False, True):
            for f2 in (False, True):
                for d in disp_names:
                    ev = _TableEval(F, b2, {FLAG1: ('b', f1), FLAG2: ('b', f2)}, ('tuple', (cval, RECORD)),
                                    ('enum', DISP, d, ()), is_sink)
                    try:
                        outs = ev.run()
                    except _Undecidable as e:
                        cx.require(False, str(e))
                    want = expected_option(cond, sig, f1, f2, d)
                    cx.cellcount(1)
                    inp = '%s, %s=%s, %s=%s, internal disposition %s' % ('EXIT' if cond == 'Exit' else sig, FLAG1, f1, FLAG2, f2, d)
                    for kind, v, decided, blk in outs:
                        if kind != 'option':
                            continue          # an entry that is not handed on at all is C11.R11's clause
                        reached += 1
                        got = v[2] if v is not None and v[0] == 'enum' and v[1] == ESO else None
                        if got is None or (got != want and not decided):
                            undecided.append(inp)
                            continue
                        table.setdefault((cond, sig), set()).add(got)
                        if got != want:
                            bad.setdefault((cond, sig, got, want), []).append((inp, blk))
    cx.require(reached, 'the evaluation of TrapSet::enter_subshell never reaches the call that consumes the option')
    for (cond, sig), opts in sorted(table.items(), key=str):
        cx.site('%s: option(s) for %s over all flag values / internal dispositions: %s' % (b2.fn, 'EXIT' if cond == 'Exit' else sig, sorted(opts)))
    for (cond, sig, got, want), lst in sorted(bad.items(), key=str):
        who = 'the EXIT condition' if cond == 'Exit' else sig
        inp, blk = lst[0]
        if want == 'KeepInternalDisposition':
            desc, msg = 'sigchld-not-kept:%s' % got, 'SIGCHLD gets option %s: its internal handler must be kept (the subshell waits for its own children)' % got
        elif got == 'KeepInternalDisposition':
            desc, msg = 'keep-not-sigchld:%s' % who, 'the internal disposition is kept for %s, a condition other than SIGCHLD' % who
        elif got == 'Ignore':
            desc, msg = 'ignore-without-flag:%s' % who, ('%s is set to Ignore on subshell entry although the table says %s (Ignore is for SIGINT/SIGQUIT under %s '
                                                       'and for SIGTSTP/SIGTTIN/SIGTTOU with an enabled internal disposition under %s)' % (who, want, FLAG1, FLAG2))
        else:
            desc, msg = 'not-ignored:%s' % who, '%s gets option %s where the table says %s' % (who, got, want)
        cx.violation(fn2, desc, '%s [for %s; %d input(s) in all]' % (msg, inp, len(lst)), loc=b2.loc(b2.term(blk)))
    if undecided:
        cx.require(False, 'the option TrapSet::enter_subshell selects depends on a test the rule cannot evaluate (for %s; %d inputs in all): no verdict'
                   % (undecided[0], len(undecided)))
    # signals without an entry are ignored too when requested
    helpers = {}

    def ignore_helper(t):
        """A private async function of the trap module that passes a vacant entry to GrandState::ignore and awaits it
        (`async fn ignore_if_unknown(&mut self, system, signal)`): the step extracted from the loop."""
        callee = t['f'].get('def') or ''
        if callee not in helpers:
            ok = False
            if callee.startswith('yash_env::trap::') and callee != GRAND + '::ignore' and (F.fns.get(callee) or {}).get('vis') != 'pub':
                try:
                    hb = F.main_body(callee)
                except Exception:
                    hb = None
                if hb is not None and hb.fn != b2.fn:
                    hdu = Q.DefUse(hb)
                    inner = Q.find_calls(hb, [GRAND + '::ignore'])
                    ok = bool(inner) and all(await_done(F, hb, hdu, it) is not None for ib, it in inner)
            helpers[callee] = ok
        return helpers[callee]
    ig = [(b, t, Q.callee_is(t, [GRAND + '::ignore'])) for b, t in b2.calls() if Q.callee_is(t, [GRAND + '::ignore']) or ignore_helper(t)]
    if not ig:
        cx.violation(fn2, 'vacant-not-ignored', 'SIGINT/SIGQUIT without a trap entry are not set to Ignore', loc=b2.loc(b2.d))
    # signal constants that flow into the vacant-entry step (through the array iterated over, Condition::Signal, the entry)
    seeds = {}
    for b, j, s in b2.stmts():
        if s['k'] == 'assign' and not s['lhs'].get('p'):
            cs_ = {o['cdef'].split('::')[-1] for o in Q.rvalue_operands(s['rv']) if '::Signals::' in (o.get('cdef') or '')}
            if cs_:
                seeds.setdefault(s['lhs']['l'], set()).update(cs_)
    for b, t, direct in ig:
        cs = conds(F, b2, du2, b)
        flags = {cond_name(b2, du2, c): c[1][1] for c in cs if c[1][0] == 'bool' and c[0]['k'] != 'call'}
        cx.site('%s: GrandState::ignore for vacant entries at %s%s' % (b2.fn, b2.loc(t), '' if direct else ' (through %s)' % pp.callee(t)))
        if flags.get(FLAG1) is not True:
            cx.violation(fn2, 'vacant-ignore-unguarded', 'GrandState::ignore is not guarded by %s' % FLAG1, loc=b2.loc(t))
        if await_done(F, b2, du2, t) is None:
            cx.violation(fn2, 'vacant-ignore-not-awaited', 'the future that sets a signal without a trap entry to Ignore is not awaited: '
                         'SIGINT/SIGQUIT keep their disposition in an asynchronous subshell', loc=b2.loc(t))
        consts = set(o['cdef'].split('::')[-1] for o in t['a'] if '::Signals::' in (o.get('cdef') or ''))
        args = {Q.operand_local(a) for a in t['a']} - {None}
        for l, names in seeds.items():
            if args & Q.forward_taint(b2, {l}):
                consts |= names
        if consts != {'SIGINT', 'SIGQUIT'}:
            cx.violation(fn2, 'vacant-ignore-signals', 'the signals ignored for vacant entries must be SIGINT and SIGQUIT, found %s'
                         % sorted(consts), loc=b2.loc(t))


# ----------------------------------------------------------------- R4
SHARED = {'alloc::rc::Rc', 'alloc::sync::Arc', 'alloc::rc::Weak', 'alloc::sync::Weak'}
OPAQUE_SHAPES = {'dyn', 'param', 'alias', 'closure'}
# culprit (via or type) -> reason
REVIEWED = {
    'yash_env::source::Code::Code.value':
        'source text buffer shared by all Locations of one input; appended only by the lexer that owns the Code '
        '(single writer LexerCore::peek_char checked below), never by the interpreter',
    'dyn yash_env::function::FunctionBodyObject<S>':
        'function bodies are immutable syntax trees behind the trait object (assumption)',
    'dyn yash_env::any::Data':
        'type-erased extension data, owned (Box) and copied with Data::clone (assumption)',
}
CODE_WRITER_OK = 'yash_syntax::parser::lex::core::LexerCore::<\'a>::peek_char'
REFCELL_MUT = re.compile(r'core::cell::RefCell::<T>::(borrow_mut|try_borrow_mut|replace|replace_with|swap|take|get_mut|as_ptr|into_inner|set)$')
REFCELL_RO = [re.compile(r'core::cell::RefCell::<T>::(borrow|try_borrow)$'), re.compile(r'::clone$'), re.compile(r'Debug>::fmt$'),
              re.compile(r'PartialEq(<.*>)?>?::(eq|ne)$'), re.compile(r'^core::fmt::')]


def _norm_ty(s):
    s = re.sub(r"\((dyn [^()]*?) \+ 'static\)", r'\1', s)
    s = re.sub(r"&'static ", '&', s)
    s = re.sub(r"&'[a-z_]+ ", '&', s) if 'for<' not in s else s
    return s


@RS.rule('C08.R4', 'K-TYPE', 'no interior-mutable data is reachable through a shared pointer from the state cloned for the child')
def r4(cx):
    F = cx.F
    root = 'yash_env::fork::ForkEnvState'
    nodes = F.typewalks.get(root)
    cx.require(nodes, 'type walk of %s missing from the facts' % root)
    by_ty = {n['ty']: n for n in nodes}

    def child_nodes(n):
        out = []
        for c in n['children']:
            m = by_ty.get(c) or by_ty.get(_norm_ty(c))
            cx.require(m is not None, 'type walk: child type %s of %s has no node' % (c, n['ty']))
            out.append(m)
        return out
    # every field type of ForkEnvState is a field type of Env and vice versa (same state)
    env_fields = {f['name']: f['ty'] for f in F.adt('yash_env::Env')['variants'][0]['fields']}
    st_fields = {f['name']: f['ty'] for f in F.adt(root)['variants'][0]['fields']}
    for name, ty in env_fields.items():
        if name == 'system':
            continue
        cx.cellcount(1)
        if st_fields.get(name) != ty:
            cx.violation(root, 'field-mismatch:%s' % name, 'Env::%s (%s) has no counterpart of the same type in ForkEnvState: '
                         'that part of the environment would not reach the child' % (name, ty), loc='yash-env/src/fork.rs')
    for name in st_fields:
        if name not in env_fields:
            cx.violation(root, 'field-extra:%s' % name, 'ForkEnvState::%s has no counterpart in Env' % name, loc='yash-env/src/fork.rs')
    # reachability below shared pointers
    under = {}           # ty -> the shared pointer type it is (first) reached through
    for n in nodes:
        if n['shape'] == 'std' and n['adt'] in SHARED or n['shape'] in ('ref',):
            cx.site('shared pointer %s (via %s)' % (n['ty'], n['via']))
            stack = [c for c in child_nodes(n)[:1]]
            while stack:
                m = stack.pop()
                if m['ty'] in under:
                    continue
                under[m['ty']] = n['ty']
                stack.extend(child_nodes(m))
    for n in nodes:
        key = n['via'] if n['shape'] not in OPAQUE_SHAPES else n['ty']
        if n['shape'] in ('rawptr', 'refmut'):
            cx.site('raw/mutable pointer %s (via %s)' % (n['ty'], n['via']))
            cx.violation(root, 'pointer:%s' % n['ty'], 'the state handed to the child contains a %s (%s): the child would share '
                         'memory with the parent in the simulated system' % (n['shape'], n['ty']), loc='yash-env/src/fork.rs')
            continue
        if n['shape'] in OPAQUE_SHAPES:
            cx.site('opaque type %s (via %s)' % (n['ty'], n['via']))
            if n['ty'] not in REVIEWED:
                cx.violation(root, 'opaque:%s' % n['ty'], 'unreviewed opaque type %s in the state handed to the child (reached via '
                             '%s): state shared through it cannot be audited; add it to REVIEWED with the reason' % (n['ty'], n['via']),
                             loc='yash-env/src/fork.rs')
            continue
        if n['freeze']:
            continue
        kids = child_nodes(n)
        if any((not k['freeze']) for k in kids):
            continue        # not the innermost interior-mutable type
        if n['ty'] not in under:
            cx.site('interior-mutable %s (via %s), owned: copied by clone' % (n['ty'], n['via']))
            continue
        cx.site('interior-mutable %s (via %s) behind %s' % (n['ty'], n['via'], under[n['ty']]))
        if key not in REVIEWED:
            cx.violation(root, 'shared-mutable:%s' % key, 'interior-mutable %s (field %s) is reachable through the shared pointer '
                         '%s from the environment: a write in the child would be visible in the parent of a simulated fork'
                         % (n['ty'], n['via'], under[n['ty']]), loc='yash-env/src/fork.rs')
    for key, why in REVIEWED.items():
        cx.site('reviewed: %s - %s' % (key, why))
    # side condition of the Code.value entry: single writer
    CODE = 'yash_env::source::Code'
    n_refs = 0
    for body in F.bodies.values():
        seeds = set()
        for b, j, s in body.stmts():
            if s['k'] == 'assign' and s['rv']['k'] in ('ref', 'rawptr') and Q._projects_field(s['rv']['pl'], CODE, 'value'):
                seeds.add(s['lhs']['l'])
        if not seeds:
            continue
        n_refs += len(seeds)
        cx.fn(body.fn)
        taint = Q.forward_taint(body, seeds, through_calls=[])
        for b, t in body.calls():
            if not any(Q.operand_local(a) in taint for a in t['a']):
                continue
            if any(REFCELL_MUT.search(n) for n in Q.callee_names(t)):
                cx.site('%s: %s on Code::value at %s' % (body.fn, pp.callee(t).split('::')[-1], body.loc(t)))
                if body.root != CODE_WRITER_OK:
                    cx.violation(body.root, 'code-buffer-writer', 'Code::value (shared by every Location, hence by parent and '
                                 'child environments) is mutated outside the lexer', loc=body.loc(t))
            elif not Q.callee_is(t, REFCELL_RO):
                cx.site('%s: Code::value passed to %s at %s' % (body.fn, pp.callee(t), body.loc(t)))
                cx.violation(body.root, 'code-buffer-escapes:%s' % pp.callee(t).split('::')[-1], 'a reference to Code::value is '
                             'passed to %s, which is not a reviewed read-only use' % pp.callee(t), loc=body.loc(t))
    cx.floor(n_refs, 3, 'references to Code::value')


# ----------------------------------------------------------------- R6
@RS.rule('C08.R6', 'K-ORDER+K-WRITERS', 'Env::run_in_child_process: extract < fork < restore on every path, nothing else touches the environment')
def r6(cx):
    F = cx.F
    body = F.body(ENV_RICP)
    cx.fn(body.fn)
    ext = Q.find_calls(body, ['yash_env::fork::ForkEnvState::<S>::extract_from_env'])
    frk = Q.find_calls(body, [FORK_RICP])
    rst = Q.find_calls(body, ['yash_env::fork::ForkEnvState::<S>::restore_into_env'])
    cx.require(len(frk) == 1, 'expected one Fork::run_in_child_process call in Env::run_in_child_process')
    for b, t in ext + frk + rst:
        cx.site('%s: %s at %s' % (body.fn, pp.callee(t).split('::')[-1], body.loc(t)))
    if len(ext) != 1 or len(rst) != 1:
        cx.violation(ENV_RICP, 'extract-restore-count', 'expected exactly one extract_from_env and one restore_into_env '
                     '(found %d / %d)' % (len(ext), len(rst)), loc=body.loc(frk[0][1]))
        return
    (eb, et), (fb, ft), (rb, rt) = ext[0], frk[0], rst[0]
    if not body.dominates(eb, fb):
        cx.violation(ENV_RICP, 'order:extract<fork', 'the environment is not extracted before the fork', loc=body.loc(ft))
    p = Q.must_pass(body, body.succ(fb), {rb})
    if p:
        cx.violation(ENV_RICP, 'restore-skipped', 'a path from the fork to the return does not restore the parent environment '
                     '(the parent would continue with an emptied environment)', loc=body.loc(ft), path=Q.render_path(body, p))
    # data flow: extracted state -> fork argument; fork result -> restore argument
    t1 = Q.forward_taint(body, {et['dest']['l']}, through_calls=[])
    if not any(Q.operand_local(a) in t1 for a in ft['a']):
        cx.violation(ENV_RICP, 'fork-without-state', 'the extracted state is not what is handed to the child', loc=body.loc(ft))
    t2 = Q.forward_taint(body, {ft['dest']['l']}, through_calls=[])
    if Q.operand_local(rt['a'][0]) not in t2:
        cx.violation(ENV_RICP, 'restore-wrong-state', 'the state restored into the parent is not the one returned by the fork',
                     loc=body.loc(rt))
    # nothing else touches self between (or around) them
    ts = Q.forward_taint(body, {1}, through_calls=[])
    ts.add(1)
    allowed = {id(et), id(ft), id(rt)}
    for b, t in body.calls():
        if id(t) in allowed:
            continue
        if any(Q.operand_local(a) in ts for a in t['a']):
            cx.site('%s: other use of self: %s at %s' % (body.fn, pp.callee(t), body.loc(t)))
            cx.violation(ENV_RICP, 'touches-env:%s' % pp.callee(t).split('::')[-1], 'the environment is used by %s while its '
                         'state is extracted (it holds default values between extract and restore)' % pp.callee(t), loc=body.loc(t))
    for b, j, s in body.stmts():
        if s['k'] == 'assign' and s['lhs'].get('p') and s['lhs']['l'] in ts:
            cx.violation(ENV_RICP, 'writes-env', 'a field of the environment is written in run_in_child_process', loc=body.loc(s))
    # the child builds its Env from that state and runs the task on it
    kids = [b for b in F.logical(ENV_RICP) if Q.find_calls(b, ['yash_env::fork::ForkEnvState::<S>::into_env_with_system'])]
    cx.require(len(kids) == 1, 'child closure calling into_env_with_system not found')
    kb = kids[0]
    cx.fn(kb.fn)
    ib, it = Q.find_calls(kb, ['yash_env::fork::ForkEnvState::<S>::into_env_with_system'])[0]
    tk = Q.forward_taint(kb, {it['dest']['l']}, through_calls=[])
    run = [(b, t) for b, t in Q.find_calls(kb, ['*::AsyncFnOnce::async_call_once', '*::FnOnce::call_once'])
           if any(Q.operand_local(a) in tk for a in t['a'])]
    cx.site('%s: into_env_with_system at %s; task called on it: %s' % (kb.fn, kb.loc(it), bool(run)))
    if not run:
        cx.violation(ENV_RICP, 'child-env-unused', 'the child task is not run on the environment rebuilt from the forked state',
                     loc=kb.loc(it))


FIELD_MAPS = [
    # (function, source local, source adt, target adt, how the target is written)
    ('yash_env::fork::ForkEnvState::<S>::extract_from_env', 1, 'yash_env::Env', 'yash_env::fork::ForkEnvState'),
    ('yash_env::fork::ForkEnvState::<S>::into_env_with_system', 1, 'yash_env::fork::ForkEnvState', 'yash_env::Env'),
    ('yash_env::fork::ForkEnvState::<S>::restore_into_env', 1, 'yash_env::fork::ForkEnvState', 'yash_env::Env'),
    ('<yash_env::fork::ForkEnvState<S> as core::clone::Clone>::clone', 1, 'yash_env::fork::ForkEnvState', 'yash_env::fork::ForkEnvState'),
    ('<yash_env::fork::ForkEnvState<S> as core::clone::Clone>::clone_from', 2, 'yash_env::fork::ForkEnvState', 'yash_env::fork::ForkEnvState'),
    ('yash_env::Env::<S>::clone_with_system', 1, 'yash_env::Env', 'yash_env::Env'),
]


@RS.rule('C08.R6b', 'K-TABLE', 'extract / into_env / restore / clone map every environment field to the field of the same name')
def r6b(cx):
    F = cx.F
    for fn, src, sadt, tadt in FIELD_MAPS:
        body = F.body(fn)
        cx.fn(fn)
        du = Q.DefUse(body)
        prov, of_place, of_operand = field_prov(body, src, sadt)
        ws = target_writes(F, body, du, tadt, of_place, of_operand, interproc=False)
        # writes whose base is the source itself (clone_from writes self, reads source) are targets, fine
        per = {}
        for f, b, pv, kind, node in ws:
            per.setdefault(f, []).append((pv, kind, node))
        for f in struct_fields(F, tadt):
            if f == 'system':
                continue
            cx.cellcount(1)
            lst = per.get(f, [])
            if not lst:
                cx.violation(fn, 'field-not-written:%s' % f, 'field %s of %s is not transferred by %s' % (f, tadt.split('::')[-1], fn.split('::')[-1]),
                             loc=body.loc(body.d))
                continue
            for pv, kind, node in lst:
                if pv != {f}:
                    cx.violation(fn, 'field-source:%s' % f, 'field %s is filled from %s instead of the field of the same name'
                                 % (f, sorted(pv) or 'a fresh value'), loc=body.loc(node))
        cx.sample({'function': fn, 'fields': len(per)})


# ----------------------------------------------------------------- R7
# fork(2): what the child takes from the parent (POSIX fork(), "the child process shall be an
# exact copy of the calling process except ...")
PROCESS_FIELDS = {
    'ppid': 'forker',            # the child's parent is the forking process
    'pgid': 'inherited', 'uid': 'inherited', 'euid': 'inherited', 'gid': 'inherited', 'egid': 'inherited',
    'fds': 'inherited',          # descriptors are duplicated (same open file descriptions)
    'umask': 'inherited', 'cwd': 'inherited',
    'dispositions': 'inherited', 'blocked_signals': 'inherited', 'resource_limits': 'inherited',
    'state': 'own', 'state_has_changed': 'own', 'resumption_awaiters': 'own',
    'pending_signals': 'own',    # "the set of signals pending for the child shall be initialized to the empty set"
    'caught_signals': 'own', 'caught_signals_count': 'own', 'signal_wakers': 'own',
    'last_exec': 'own',          # test instrumentation of this process's own execve calls
}


@RS.rule('C08.R7', 'K-TABLE', 'virtual::Process::fork_from copies every fork-inherited field of Process and no per-process one')
def r7(cx):
    F = cx.F
    body = F.body(FORK_FROM)
    cx.fn(FORK_FROM)
    du = Q.DefUse(body)
    fields = struct_fields(F, PROCESS)
    loc0 = '%s:%s' % (body.file, body.line)
    for f in fields:
        if f not in PROCESS_FIELDS:
            cx.cellcount(1)
            cx.violation(FORK_FROM, 'unclassified-field:%s' % f, 'field %s of virtual::Process is not classified as inherited '
                         'by fork or per-process in rules/C08.py: decide whether fork_from must copy it' % f, loc=loc0)
    for f in PROCESS_FIELDS:
        if f not in fields:
            cx.violation(FORK_FROM, 'stale-classification:%s' % f, 'classified field %s no longer exists in virtual::Process' % f, loc=loc0)
    params = {body.locals[i].get('name'): i for i in range(1, body.argc + 1)}
    cx.require('parent' in params and 'ppid' in params, 'fork_from(ppid, parent) parameters not found: %s' % sorted(params))
    prov, of_place, of_operand = field_prov(body, params['parent'], PROCESS)
    ws = target_writes(F, body, du, PROCESS, of_place, of_operand)
    prov2, of_place2, of_operand2 = field_prov(body, params['ppid'], None)
    ws2 = target_writes(F, body, du, PROCESS, of_place2, of_operand2)
    cx.require(ws, 'fork_from does not build a Process')
    rets = [r for r in body.return_blocks() if r in body.live_blocks()]
    per, per2 = {}, {}
    for f, b, pv, kind, node in ws:
        per.setdefault(f, []).append((b, pv, kind, node))
    for f, b, pv, kind, node in ws2:
        per2.setdefault(f, []).append((b, pv, kind, node))
    for f in fields:
        cls = PROCESS_FIELDS.get(f)
        if cls is None:
            continue
        cx.cellcount(1)
        lst = per.get(f, [])
        final = [w for w in lst if not w[2].startswith('ctor:') and w[2] != 'init'] or lst
        if cls == 'inherited':
            good = [w for w in final if w[1] == {f} and all(body.dominates(w[0], r) for r in rets)]
            wrong = [w for w in final if w[1] and w[1] != {f}]
            if wrong:
                cx.violation(FORK_FROM, 'field:%s' % f, 'the child\'s %s is taken from the parent\'s %s' % (f, sorted(wrong[0][1])),
                             loc=body.loc(wrong[0][3]))
            elif not good:
                cx.violation(FORK_FROM, 'field:%s' % f, 'fork_from does not copy `%s` from the parent process: the simulated child '
                             'starts with the constructor default, whereas fork(2) makes the child inherit it (a subshell does '
                             'not see the parent\'s %s)' % (f, f), loc=loc0)
        elif cls == 'own':
            leak = [w for w in lst if w[1]]
            if leak:
                cx.violation(FORK_FROM, 'field:%s' % f, 'per-process state `%s` is copied from the parent (%s)' % (f, sorted(leak[0][1])),
                             loc=body.loc(leak[0][3]))
        elif cls == 'forker':
            ok = [w for w in per2.get(f, []) if w[1]]
            if not ok or [w for w in lst if w[1]]:
                cx.violation(FORK_FROM, 'field:%s' % f, 'the child\'s parent process id must be the id of the forking process '
                             '(argument ppid)', loc=loc0)
    cx.sample({'function': FORK_FROM, 'copied': sorted(f for f, l in per.items() if any(w[1] == {f} for w in l))})

@RS.rule('C08.R3b', 'K-GUARD+K-SIBLING', 'subshell entry with the Ignore option: a signal the shell itself starts to ignore is recorded with origin '
         'Subshell (as GrandState::ignore does for a vacant entry) - only a signal that was already ignored keeps origin Inherited; and the '
         'disposition is installed even when it does not change (that call is what unblocks SIGINT/SIGQUIT after Config::start blocked them)')
def r3b(cx):
    F = cx.F
    fn = GRAND + '::enter_subshell'
    body = F.main_body(fn)
    cx.fn(body.fn)
    du = Q.DefUse(body)
    # (1) origin
    ig = F.main_body(GRAND + '::ignore')
    cx.fn(ig.fn)
    sib = [s for b, j, s in Q.find_aggregates(ig, re.compile(r'trap::state::Origin$'), 'Subshell')]
    cx.require(sib, 'GrandState::ignore no longer records Origin::Subshell (sibling reference moved)')
    origin_w = []
    for b, j, s, kind, f in Q.field_writes(body, GRAND, 'current_state'):
        fs = [e['f'] for e in s['lhs'].get('p') or [] if isinstance(e, dict) and 'f' in e]
        if kind == 'assign' and fs[-1:] == ['origin']:
            origin_w.append((b, s))
        elif kind == 'assign' and fs[-1:] == ['current_state'] and s['rv']['k'] in ('use', 'agg'):
            o = du.origin(s['rv']['o']) if s['rv']['k'] == 'use' else {'k': 'agg', 'rv': s['rv']}
            if o['k'] == 'agg' and any(du.origin(x).get('k') == 'agg' and du.origin(x)['rv'].get('variant') == 'Subshell' for x in o['rv'].get('ops', [])):
                cs = conds(F, body, du, b)
                if any(holds_eq(body, du, c, 'EnterSubshellOption::Ignore') for c in cs):
                    origin_w.append((b, s))
    ok = False
    for b, s in origin_w:
        cs = conds(F, body, du, b)
        under_ignore = any(holds_eq(body, du, c, 'EnterSubshellOption::Ignore') for c in cs)
        # not for a signal that is already ignored: a test of the current action against Action::Ignore with a negative outcome
        not_ignored = any(c[0]['k'] == 'call' and Q.callee_is(c[0]['t'], NE + EQ) and
                          any(n.endswith('Action::Ignore') for n in eq_const_args(body, du, c[0]['t'])) for c in cs) or \
            any(c[0]['k'] == 'discr' and 'trap::state::Action' in (c[0].get('ty') or '') and c[1] != ('variant', 'Ignore') for c in cs)
        cx.site('%s: origin := Subshell at %s; under option == Ignore: %s; only when not already ignored: %s' % (body.fn, body.loc(s), under_ignore, not_ignored))
        if under_ignore and not_ignored:
            ok = True
        elif under_ignore:
            cx.violation(fn, 'origin-reset-for-ignored-signal', 'the origin is set to Subshell also for a signal that was already ignored: a signal '
                         'ignored on entry to the shell becomes trappable in the asynchronous subshell', loc=body.loc(s))
    if not origin_w:
        cx.site('%s: the Ignore option changes the action only; the origin stays as it was' % body.fn)
    if not ok:
        cx.violation(fn, 'inherited-origin-kept', 'with the Ignore option an existing record keeps origin Inherited although it is the shell that starts '
                     'ignoring the signal now: after `trap -p` (which creates the record) an asynchronous subshell can no longer trap SIGINT/SIGQUIT '
                     '(`trap; { trap "echo caught" INT; ..; } &` silently refuses the trap), while without the earlier `trap` it can - '
                     'GrandState::ignore, used when no record exists, records Origin::Subshell', loc=body.loc(body.d))
    # (2) the disposition is installed whenever the option is Ignore
    sd = Q.find_calls(body, ['*::SignalSystem::set_disposition'])
    cx.require(sd, 'enter_subshell no longer calls SignalSystem::set_disposition')
    # (3) the records are updated before the fallible system call: a failure of set_disposition must not leave the
    #     parent's command trap (or a not-yet-ignored action) in the state the subshell goes on with
    rec = [b for b, j, s_, kind, f in Q.field_writes(body, GRAND, 'current_state')] + [b for b, t in Q.find_calls(body, ['core::mem::replace'])]
    late = [b for b in rec if any(st.get('to') is not None and b in body.reachable(st['to']) for _, st in sd)]
    cx.site('%s: %d updates of the trap record, %d of them only after set_disposition has succeeded' % (body.fn, len(rec), len(late)))
    if late:
        cx.violation(fn, 'record-updated-after-syscall', 'the trap record is updated only after set_disposition(..)? has succeeded: when the call '
                     'fails the function returns with the parent\'s command trap still current in the subshell (`trap` would print it, a signal '
                     'would run it) although the caller ignores the error and goes on', loc=body.loc(body.term(late[0])))
    for b, t in sd:
        cs = conds(F, body, du, b)
        cmp_dom = [c for c in cs if c[0]['k'] == 'call' and Q.callee_is(c[0]['t'], NE + EQ) and
                   any('Disposition' in str(x) for x in (c[0]['t'].get('at') or []))]
        cx.site('%s: set_disposition at %s; dominated by a comparison of the old and new disposition: %s' % (body.fn, body.loc(t), bool(cmp_dom)))
        if cmp_dom:
            cx.violation(fn, 'disposition-skipped-when-unchanged', 'set_disposition is skipped whenever the disposition does not change, also with the '
                         'Ignore option: Config::start has blocked SIGINT/SIGQUIT before the fork and relies on this call to unblock them, so '
                         '`trap "" INT; cmd &` (and every `cmd &` of an interactive shell without job control, for SIGQUIT) runs cmd with the '
                         'signal left BLOCKED instead of merely ignored', loc=body.loc(t))


@RS.rule('C08.R10', 'K-RES', "a waiting subshell does not change the parent's open files: O_NONBLOCK is not left set on a shared open file "
         'description while the process is suspended (or killed)')
def r10(cx):
    from rules.C14 import nonblocking_mode_held_across_await
    nonblocking_mode_held_across_await(cx)


import witness
witness.add(RS, 'C08.R5', ['c08_child_borrows_parent'],
            'compile-fail witness: the task run in a subshell cannot borrow parent state (E0597: Config::start requires a \'static task); the owning twin compiles')


# ---------------------------------------------------------------- added after wave-2 seeded changes
@RS.rule('C08.R8', 'K-PASS', 'a subshell that cannot be started leaves the parent as it was: the signal mask blocked for the fork is restored '
         'on every exit of Config::start, including the fork-failure exit')
def r8(cx):
    F = cx.F
    fn = 'yash_env::subshell::config::Config::start'
    body = F.main_body(fn)
    cx.fn(body.fn)
    du = Q.DefUse(body)
    fork = Q.find_calls(body, ['yash_env::Env::<S>::run_in_child_process'])
    cx.require(len(fork) == 1, 'run_in_child_process call not found in Config::start')
    fb, ft = fork[0]
    restore = Q.find_calls(body, ['*::BlockSignals::restore_sigmask', '*::Sigmask::sigmask'])
    restore = [(b, t) for b, t in restore if ft['to'] is not None and b in body.reachable(ft['to'])]
    block = [(b, t) for b, t in Q.find_calls(body, ['*::BlockSignals::block_sigint_sigquit', '*::BlockSignals::block_signals', '*::Sigmask::sigmask'])
             if body.dominates(b, fb) or fb in body.reachable(b)]
    cx.site('%s: signals blocked before the fork at %s; fork at %s; mask restored at %s' % (
        body.fn, [body.loc(t) for _, t in block], body.loc(ft), [body.loc(t) for _, t in restore]))
    if not block:
        return          # nothing is blocked around the fork any more: nothing to restore
    if not restore:
        cx.violation(fn, 'mask-never-restored', 'the parent blocks SIGINT/SIGQUIT for the fork and never restores its signal mask',
                     loc=body.loc(ft))
        return
    # edges on which no mask was saved need no restore
    none_edges = set()
    for u in body.live_blocks():
        ec = Q.edge_condition(F, body, du, u)
        if ec and ec[0]['k'] == 'discr' and 'SavedMask' in (ec[0].get('ty') or '') or \
                (ec and ec[0]['k'] == 'discr' and body.local_name(ec[0]['pl']['l']) == 'original_mask'):
            for tgt, labs in ec[1].items():
                if set(labs) == {('variant', 'None')}:
                    none_edges.add((u, tgt))
    p = body.shortest_path(ft['to'], set(body.return_blocks()), removed={b for b, _ in restore}, removed_edges=none_edges)
    if p is not None:
        cx.violation(fn, 'exit-with-blocked-mask', 'Config::start can return after the fork without restoring the signal mask it blocked '
                     '(SIGINT/SIGQUIT for an asynchronous command without job control): when fork() fails the parent shell stays '
                     'uninterruptible and every later child inherits the blocked mask', loc=body.loc(body.term(p[min(len(p) - 1, 1)])),
                     path=Q.render_path(body, p))


@RS.rule('C08.R9', 'K-PASS', "a pipeline member that cannot be started leaves none of the pipeline's descriptors open in the parent")
def r9(cx):
    from rules.C09 import r3 as c09_r3
    c09_r3(cx)


# --- explanation addendum (generated catalogue in DESIGN.md reads RS.explanation)
RS.explanation += ' Added later: Config::start restores the signal mask on every exit after the fork (R8); a pipeline member that cannot be started leaves no pipe descriptor in the parent (R9).'


# ---------------------------------------------------------------- added after wave-3 seeded changes
FD_TY = 'yash_env::io::Fd'
PIPE_PATS = ['*::Pipe::pipe']
CLOSE_PATS = ['*::Close::close']
R11_OWNED_ELSEWHERE = {
    # pipe() users whose descriptors live in a struct field and are decided by their own rule
    'yash_semantics::command::pipeline::PipeSet::shift': 'C08.R9 / C09.R3',
}
R11_THROUGH = Q.PROPAGATING_CALLS + Q.AWAIT_CALLS + [re.compile(r'::(clone|copied|cloned)$')]


def _fd_comps(body, seeds):
    """K-RES for a pair of descriptors: local -> subset of {0, 1} = which end(s) of the pipe the local's value is
    (derived from). `seeds` = {local: comps}. A tuple-field projection `.0` / `.1` of type Fd on a value holding both
    ends selects the end."""
    comp = {l: set(c) for l, c in seeds.items()}

    def of_place(p):
        base = comp.get(p['l'])
        if not base:
            return set()
        if len(base) > 1:
            for e in p.get('p') or []:
                if isinstance(e, dict) and 'f' in e and 'adt' not in e and e.get('ty') == FD_TY and e['f'] in ('0', '1'):
                    return {int(e['f'])} & base
        return set(base)

    def of_operand(o):
        p = Q.operand_place(o)
        return of_place(p) if p is not None else set()

    changed = True
    while changed:
        changed = False
        for b, j, s in body.stmts():
            if s['k'] != 'assign':
                continue
            new = set()
            for p in Q.rvalue_places(s['rv']):
                new |= of_place(p)
            l = s['lhs']['l']
            if l in seeds or not new <= {0, 1}:
                continue
            if not new <= comp.get(l, set()):
                comp.setdefault(l, set()).update(new)
                changed = True
        for b, t in body.calls():
            if not Q.callee_is(t, R11_THROUGH):
                continue
            new = set()
            for a in t['a']:
                new |= of_operand(a)
            l = t['dest']['l']
            if l in seeds:
                continue
            if not new <= comp.get(l, set()):
                comp.setdefault(l, set()).update(new)
                changed = True
    return comp, of_operand


def _param_locals(F, fn, idx):
    """(main body, locals of the main body that hold parameter number `idx` (0-based) of fn on entry) - for an async fn
    the parameter is a captured variable of the coroutine; None if it cannot be followed."""
    outer = F.bodies.get(fn)
    if outer is None:
        return None
    try:
        main = F.main_body(fn)
    except Exception:
        return None
    if main is outer:
        return main, {idx + 1}
    ks = set()
    for b, j, s in outer.stmts():
        if s['k'] == 'assign' and s['rv']['k'] == 'agg' and s['rv'].get('ak') == 'coroutine' and s['rv'].get('def') == main.fn:
            for k, o in enumerate(s['rv']['ops']):
                if Q.operand_local(o) == idx + 1 and not (Q.operand_place(o) or {}).get('p'):
                    ks.add(str(k))
    if not ks:
        return None
    ls = set()
    for b, j, s in main.stmts():
        if s['k'] == 'assign' and s['rv']['k'] == 'use' and not s['lhs'].get('p'):
            p = Q.operand_place(s['rv']['o'])
            if p is not None and p['l'] == 1:
                fs = [e for e in p.get('p') or [] if isinstance(e, dict) and 'f' in e]
                if len(fs) == 1 and fs[0]['f'] in ks and fs[0].get('adt') == main.fn:
                    ls.add(s['lhs']['l'])
    return (main, ls) if ls else None


def _fd_release_blocks(F, body, comp, of_operand, c, depth, memo, notes):
    """Blocks of `body` where end `c` of the pipe is closed: Close::close(.., fd), or a call of a function with a body
    that closes the corresponding parameter on every one of its exits (decided recursively; an async callee must be
    awaited here)."""
    du = Q.DefUse(body)
    rel = set()
    # a close-on-drop guard that holds this end closes it when it is dropped (also when the future is cancelled)
    for gb, gt, gl, cons in Q.close_guard_drops(F, body):
        for b_, j_, st_ in body.stmts():
            if st_['k'] == 'assign' and not st_['lhs'].get('p') and st_['lhs']['l'] == gl and st_['rv']['k'] == 'agg' \
                    and any(of_operand(o) == {c} for o in st_['rv'].get('ops') or []):
                rel.add(gb)
                notes.append('%s: held by a close-on-drop guard, dropped at %s' % (body.fn, body.loc(gt)))
    for b, t in body.calls():
        hits = [i for i, a in enumerate(t['a']) if of_operand(a) == {c}]
        if not hits:
            continue
        if Q.callee_is(t, CLOSE_PATS):
            rel.add(b)
            notes.append('%s: close at %s' % (body.fn, body.loc(t)))
            continue
        callee = t['f'].get('def')
        if callee is None or callee not in F.bodies or depth <= 0:
            continue
        for i in hits:
            if not (i < len(t.get('at') or []) and t['at'][i] == FD_TY):
                continue
            w = _param_closed_on_all_exits(F, callee, i, depth - 1, memo, notes)
            if w is not None and w[0] not in (None, 'rec') and w[1] is not None and Q.find_calls(w[0], CLOSE_PATS):
                notes.append('%s: handed to %s at %s, which does NOT close it on its exit through %s' % (
                    body.fn, callee, body.loc(t), Q.render_path(w[0], w[1])))
            if w is None:
                if (F.fns.get(callee) or {}).get('async') and await_done(F, body, du, t) is None:
                    continue
                rel.add(b)
                notes.append('%s: handed to %s (closes its parameter #%d on every exit) at %s' % (body.fn, callee, i, body.loc(t)))
    return rel


def _param_closed_on_all_exits(F, fn, idx, depth, memo, notes):
    """None if fn closes the descriptor it receives as parameter `idx` on every path to a return, else a witness
    (body, path) (path None = the parameter could not be followed)."""
    key = (fn, idx)
    if key in memo:
        return memo[key]
    memo[key] = ('rec', None)          # recursion: not a release
    pl = _param_locals(F, fn, idx)
    if pl is None:
        memo[key] = (None, None)
        return memo[key]
    main, ls = pl
    comp, of_operand = _fd_comps(main, {l: {0} for l in ls})
    rel = _fd_release_blocks(F, main, comp, of_operand, 0, depth, memo, notes)
    p = Q.must_pass(main, [0], rel)
    memo[key] = None if p is None else (main, p)
    return memo[key]


@RS.rule('C08.R11', 'K-RES', 'a command substitution (any holder of a fresh pipe() pair outside the pipeline code) leaves neither end of its '
         'pipe open in the parent: on every exit after a successful pipe() each end has been closed, here or in a function it was handed to '
         '- including the exit taken when the subshell cannot be started')
def r11(cx):
    F = cx.F
    sites = [(b, t) for b, i, t in F.callers_of(lambda names, t: any(Q.name_matches(n, p) for n in names for p in PIPE_PATS))
             if b.root.startswith('yash_semantics::') or b.root.startswith('yash_builtin::')]
    MOD = 'yash_semantics::expansion::initial::command_subst::'
    cx.require(any(b.root.startswith(MOD) for b, t in sites), 'no pipe() call in the command substitution module %s' % MOD)
    for r in R11_OWNED_ELSEWHERE:
        F.logical(r)
    n = 0
    for body, t in sites:
        if body.root in R11_OWNED_ELSEWHERE:
            continue
        n += 1
        cx.fn(body.fn)
        pb = [b for b, tt in body.calls() if tt is t][0]
        du = Q.DefUse(body)
        comp, of_operand = _fd_comps(body, {t['dest']['l']: {0, 1}})
        # edges on which there is no pipe (Err of the pipe() result)
        absent = set()
        for u in body.live_blocks():
            ec = Q.edge_condition(F, body, du, u)
            if ec is None or ec[0]['k'] != 'discr' or not comp.get(ec[0]['pl']['l']):
                continue
            for tgt, labs in ec[1].items():
                if labs and all(l[0] == 'variant' and l[1] in Q.ABSENT_VARIANTS for l in labs):
                    absent.add((u, tgt))
        # a wrapper that returns the pair hands it to its caller (the caller is then a site of its own: not supported yet)
        out = (F.fns.get(body.root) or {}).get('output', '')
        cx.require(FD_TY not in out, '%s returns the descriptors of the pipe to its caller: follow the caller in C08.R11' % body.root)
        memo = {}
        for c, end in ((0, 'read'), (1, 'write')):
            notes = []
            rel = _fd_release_blocks(F, body, comp, of_operand, c, 3, memo, notes)
            cx.site('%s: pipe() at %s, %s end released at: %s' % (body.fn, body.loc(t), end, '; '.join(notes) or 'nowhere'))
            p = Q.must_pass(body, body.succ(pb), rel, removed_edges=absent)
            if p is None:
                continue
            w = [x for x in p if x in set(Q.return_writers(body))]
            lab, what = Q.exit_label(body, du, w[-1]) if w else ('bb', 'an exit')
            cx.violation(body.root, 'pipe-end-left-open:%s|exit:%s' % (end, lab), 'after a successful pipe() the function can return through %s with the '
                         '%s end of the pipe still open in the parent shell: when the subshell cannot be started (fork fails) every such '
                         'command substitution leaves descriptors behind in the shell, inherited by every later child, until EMFILE'
                         % (what, end) + ''.join(' [%s]' % x for x in notes if ' does NOT close ' in x),
                         loc=body.loc(body.term(p[-1])), path=Q.render_path(body, p))
    cx.floor(n, 1, 'holders of a pipe() pair')


BLOCK_SIGNALS = 'yash_env::subshell::BlockSignals'
SIGMASK_OP = 'yash_env::system::signal::SigmaskOp'
SIGMASK_CALL = ['*::Sigmask::sigmask']
MASK_FLOW = [re.compile(r'::(clone|to_owned|borrow|as_ref|deref|into|from)$')] + Q.PROPAGATING_CALLS + Q.AWAIT_CALLS


def _sigmask_request(body, du, t):
    """Decode `sigmask(op_and_mask, old_mask)`: (op variant | 'none' | '?', operand of the mask given, local that receives the
    old mask | None)."""
    op, given, old = '?', None, None
    a1 = du.origin(t['a'][1]) if len(t['a']) > 1 else {'k': '?'}
    if a1['k'] == 'agg' and a1['rv'].get('adt') == 'core::option::Option':
        if a1['rv'].get('variant') == 'None':
            op = 'none'
        elif a1['rv']['ops']:
            tup = du.origin(a1['rv']['ops'][0])
            if tup['k'] == 'agg' and tup['rv'].get('ak') == 'tuple' and len(tup['rv']['ops']) == 2:
                o = du.origin(tup['rv']['ops'][0])
                if o['k'] == 'agg' and o['rv'].get('adt') == SIGMASK_OP:
                    op = o['rv'].get('variant')
                elif o['k'] == 'const' and (o['o'].get('cdef') or '').startswith(SIGMASK_OP + '::'):
                    op = o['o']['cdef'].split('::')[-1]
                given = tup['rv']['ops'][1]
    a2 = du.origin(t['a'][2]) if len(t['a']) > 2 else {'k': '?'}
    if a2['k'] == 'agg' and a2['rv'].get('adt') == 'core::option::Option' and a2['rv'].get('variant') == 'Some' and a2['rv']['ops']:
        r = du.origin(a2['rv']['ops'][0])
        hops = 0
        while r['k'] == 'ref' and hops < 4:
            pl = r['pl']
            if (pl.get('p') or []) == ['*']:          # reborrow `&mut *tmp`
                r = du.origin_place({'l': pl['l']})
                hops += 1
                continue
            if not pl.get('p'):
                old = pl['l']
            break
    return op, given, old


def _reaches_local(body, du, operand, targets, depth=6):
    """The operand is (a borrow / copy of) one of the locals `targets`."""
    l = Q.operand_local(operand)
    if l in targets:
        return True
    o = du.origin(operand)
    while depth > 0 and o['k'] == 'ref':
        pl = o['pl']
        if pl['l'] in targets and not [e for e in pl.get('p') or [] if e != '*']:
            return True
        if (pl.get('p') or []) == ['*']:
            o = du.origin_place({'l': pl['l']})
            depth -= 1
            continue
        break
    return False


@RS.rule('C08.R12', 'K-TABLE+K-TAINT', 'the signal mask the parent has after starting a subshell is the one it had before: for every implementation '
         'of BlockSignals, block_sigint_sigquit ADDS {SIGINT, SIGQUIT} to the mask and returns the previous mask reported by that very sigmask call, '
         'restore_sigmask installs (SigmaskOp::Set) exactly the value it is given, on every path; delegating implementations pass the value through '
         'unchanged; Config::start hands the value saved by the block step to the restore step')
def r12(cx):
    F = cx.F
    impls = [im for im in F.impls if im.get('trait_def') == BLOCK_SIGNALS]
    cx.require(impls, 'no implementation of %s' % BLOCK_SIGNALS)
    cx.floor(len(impls), 3, 'implementations of BlockSignals (blanket over Sigmask, Concurrent, Rc<Concurrent>)')
    cx.require(SIGMASK_OP in F.adts and {v['name'] for v in F.adts[SIGMASK_OP]['variants']} >= {'Add', 'Set'}, 'SigmaskOp::{Add, Set} not found')
    n_prim = 0
    for im in impls:
        items = {it['name']: it['def'] for it in im['items'] if it['kind'] == 'Fn'}
        cx.require('block_sigint_sigquit' in items and 'restore_sigmask' in items, 'BlockSignals impl for %s lacks block/restore' % im['self'])
        who = im['self']
        # ---------------- block step
        fnb = items['block_sigint_sigquit']
        bb = F.inlined(F.main_body(fnb))
        cx.fn(bb.fn)
        du = Q.DefUse(bb)
        prim = Q.find_calls(bb, SIGMASK_CALL)
        dele = Q.find_calls(bb, ['*::BlockSignals::block_sigint_sigquit'])
        oks = Q.find_aggregates(bb, 'core::result::Result', 'Ok')
        oks = [(b, j, s) for b, j, s in oks if s['lhs']['l'] == 0 and not s['lhs'].get('p')]
        if prim:
            n_prim += 1
            olds, ops = set(), []
            for b, t in prim:
                op, given, old = _sigmask_request(bb, du, t)
                ops.append(op)
                if old is not None:
                    olds.add(old)
                sigs = set()
                if given is not None:
                    # the set given: built by Sigset::from_signals / insert from named signal constants
                    for b2, j2, s2 in bb.stmts():
                        if s2['k'] == 'assign' and s2['rv']['k'] == 'agg' and s2['rv'].get('ak') == 'array':
                            sigs |= {o.get('cdef', '?').split('::')[-1] for o in s2['rv']['ops']}
                    for b2, t2 in Q.find_calls(bb, ['*::Sigset::insert']):
                        sigs |= {(a.get('cdef') or '?').split('::')[-1] for a in t2['a'][1:]}
                cx.site('%s [%s]: sigmask(op=%s, signals=%s, old mask -> %s) at %s' % (bb.fn, who, op, sorted(sigs), bb.local_name(old) if old is not None else None, bb.loc(t)))
                if op not in ('Add', 'none'):
                    cx.violation(fnb, 'block-op:%s' % op, 'block_sigint_sigquit changes the signal mask with SigmaskOp::%s: only Add keeps every signal that '
                                 'was blocked before blocked while the child is forked' % op, loc=bb.loc(t))
                if op == 'Add' and sigs != {'SIGINT', 'SIGQUIT'}:
                    cx.violation(fnb, 'block-signals', 'block_sigint_sigquit must add exactly SIGINT and SIGQUIT to the mask, found %s' % sorted(sigs), loc=bb.loc(t))
            if 'Add' not in ops and all(o == 'none' for o in ops):
                cx.violation(fnb, 'block-op-missing', 'block_sigint_sigquit no longer adds SIGINT/SIGQUIT to the signal mask (SigmaskOp::Add)', loc=bb.loc(bb.d))
            taint = Q.forward_taint(bb, set(olds), through_calls=MASK_FLOW) if olds else set()
            if not oks:
                cx.violation(fnb, 'block-no-ok', 'block_sigint_sigquit has no Ok(saved mask) exit', loc=bb.loc(bb.d))
            for b, j, s in oks:
                v = s['rv']['ops'][0] if s['rv']['ops'] else None
                good = v is not None and Q.operand_local(v) in taint
                cx.site('%s [%s]: returns Ok(%s) at %s; is the previous mask written by sigmask: %s' % (bb.fn, who, Q.operand_name(bb, du, v) if v else None, bb.loc(s), good))
                if not good:
                    cx.violation(fnb, 'saved-mask-not-the-previous-mask', 'the value block_sigint_sigquit returns for restore_sigmask is not the previous signal mask '
                                 'reported by sigmask (its old-mask out-parameter): whatever restore does with it, it cannot bring back a mask in which '
                                 'SIGINT or SIGQUIT was already blocked - after `trap "..." INT; cmd &` (job control off) the parent comes out of '
                                 'Config::start with SIGINT unblocked and the trap is no longer delivered race-free', loc=bb.loc(s))
        elif dele:
            rw = Q.return_writers(bb)
            ok = True
            for w in rw:
                # every write of the return place comes from the delegated call (possibly through `?` and Ok(..))
                vals = []
                for s in bb.blocks[w]['s']:
                    if s['k'] == 'assign' and s['lhs']['l'] == 0:
                        vals += list(Q.rvalue_operands(s['rv']))
                tt = bb.term(w)
                if tt['k'] == 'call' and tt['dest']['l'] == 0:
                    vals += tt['a'][:1]
                for v in vals:
                    src = Q.value_source(bb, du, v)
                    if src is None and du.origin(v)['k'] == 'agg':
                        inner = du.origin(v)['rv']['ops']
                        src = Q.value_source(bb, du, inner[0]) if inner else None
                    if src is None or not Q.callee_is(src, ['*::BlockSignals::block_sigint_sigquit']):
                        ok = False
            cx.site('%s [%s]: delegates to %s at %s; result passed through unchanged: %s' % (bb.fn, who, pp.callee(dele[0][1]), bb.loc(dele[0][1]), ok))
            if not ok or not rw:
                cx.violation(fnb, 'delegate-block-result', 'the delegating block_sigint_sigquit does not return the saved mask of the inner system unchanged',
                             loc=bb.loc(dele[0][1]))
        else:
            cx.site('%s [%s]: neither sigmask nor a delegated block_sigint_sigquit' % (bb.fn, who))
            cx.violation(fnb, 'block-does-nothing', 'block_sigint_sigquit neither calls Sigmask::sigmask nor delegates to another BlockSignals', loc=bb.loc(bb.d))
        # ---------------- restore step
        fnr = items['restore_sigmask']
        pl = _param_locals(F, fnr, 1)
        cx.require(pl is not None, 'parameter `mask` of %s cannot be followed' % fnr)
        rb0, mask_locals = pl
        rb = F.inlined(rb0)
        cx.fn(rb.fn)
        du = Q.DefUse(rb)
        mt = Q.forward_taint(rb, set(mask_locals), through_calls=MASK_FLOW)
        prim = Q.find_calls(rb, SIGMASK_CALL)
        dele = Q.find_calls(rb, ['*::BlockSignals::restore_sigmask'])
        good_blocks = set()
        if prim:
            for b, t in prim:
                op, given, old = _sigmask_request(rb, du, t)
                from_param = given is not None and (_reaches_local(rb, du, given, mt) or Q.operand_local(given) in mt)
                awaited = await_done(F, rb, du, t) is not None
                cx.site('%s [%s]: sigmask(op=%s, mask is the saved value: %s, awaited: %s) at %s' % (rb.fn, who, op, from_param, awaited, rb.loc(t)))
                if op == 'none':
                    continue
                if op != 'Set':
                    cx.violation(fnr, 'restore-op:%s' % op, 'restore_sigmask applies SigmaskOp::%s instead of installing the saved mask (SigmaskOp::Set): a signal '
                                 'that was blocked before block_sigint_sigquit (SIGINT/SIGQUIT with a command trap are kept blocked by the shell) comes out '
                                 'of Config::start unblocked, resp. a signal unblocked in between stays blocked - the parent\'s mask after `cmd &` differs '
                                 'from the mask before it' % op, loc=rb.loc(t))
                elif not from_param:
                    cx.violation(fnr, 'restore-other-mask', 'restore_sigmask installs a mask that is not the value saved by block_sigint_sigquit', loc=rb.loc(t))
                elif not awaited:
                    cx.violation(fnr, 'restore-not-awaited', 'the sigmask future of restore_sigmask is never awaited: the mask is not restored', loc=rb.loc(t))
                else:
                    good_blocks.add(b)
        elif dele:
            for b, t in dele:
                through = len(t['a']) > 1 and Q.operand_local(t['a'][1]) in mt
                awaited = await_done(F, rb, du, t) is not None
                cx.site('%s [%s]: delegates to %s at %s; saved value passed through: %s, awaited: %s' % (rb.fn, who, pp.callee(t), rb.loc(t), through, awaited))
                if through and awaited:
                    good_blocks.add(b)
                else:
                    cx.violation(fnr, 'delegate-restore-arg', 'the delegating restore_sigmask does not pass the saved mask it is given to the inner system '
                                 '(or does not await it)', loc=rb.loc(t))
        else:
            cx.site('%s [%s]: neither sigmask nor a delegated restore_sigmask' % (rb.fn, who))
        p = Q.must_pass(rb, [0], good_blocks)
        if p is not None and (good_blocks or not (prim or dele)):      # with no good site at all the reason was reported above
            cx.violation(fnr, 'restore-skipped', 'restore_sigmask can return without installing the saved signal mask', loc=rb.loc(rb.term(p[-1])),
                         path=Q.render_path(rb, p))
    cx.floor(n_prim, 1, 'BlockSignals implementations that call Sigmask::sigmask themselves')
    # ---------------- Config::start: what was saved is what is restored
    body = F.main_body(CONFIG_START)
    cx.fn(body.fn)
    du = Q.DefUse(body)
    blk = Q.find_calls(body, ['*::BlockSignals::block_sigint_sigquit'])
    rst = Q.find_calls(body, ['*::BlockSignals::restore_sigmask'])
    cx.site('%s: %d block_sigint_sigquit call(s), %d restore_sigmask call(s)' % (body.fn, len(blk), len(rst)))
    if blk:
        tb = Q.forward_taint(body, {t['dest']['l'] for b, t in blk}, through_calls=MASK_FLOW)
        for b, t in rst:
            if not (len(t['a']) > 1 and Q.operand_local(t['a'][1]) in tb):
                cx.violation(CONFIG_START, 'restore-arg-not-saved-mask', 'Config::start restores a signal mask that is not the value returned by its '
                             'block_sigint_sigquit call', loc=body.loc(t))


RS.explanation += (' Added after wave 3: every holder of a fresh pipe() pair outside the pipeline code (the command substitution) has closed both ends '
                   'on every exit after a successful pipe(), following each descriptor into the functions it is handed to (R11); for every implementation '
                   'of BlockSignals the block step adds {SIGINT, SIGQUIT} and returns the previous mask written by that sigmask call, the restore step '
                   'installs exactly that value with SigmaskOp::Set on every path, delegating implementations pass it through, and Config::start '
                   'restores the value it saved (R12).')


# ---------------------------------------------------------------- added after the wave-4 seed agents (C08, C11) reported, independently,
# a regression made by fix 91a2053: the SIGCHLD disposition was installed inside the block_sigint_sigquit .. restore_sigmask window
WINDOW_OPEN = [re.compile(r'::BlockSignals::block_sigint_sigquit$')]
WINDOW_CLOSE = [re.compile(r'::BlockSignals::restore_sigmask$')]
WINDOW_FORBIDDEN = [re.compile(r'::SignalSystem::set_disposition$'), re.compile(r'::Select::select$'), re.compile(r'::Sigaction::sigaction$')]
WINDOW_EXEMPT = {
    'yash_env::Env::<S>::run_in_child_process':
        'the fork itself: the closure it is given runs in the CHILD, which leaves the window by design (enter_subshell unblocks there)',
}


def _roots_reaching(F, sink_pats):
    """Roots (functions with their closures) of the workspace from which a call matching sink_pats is reachable."""
    graph = {}
    reach = set()
    for root, bodies in F.by_root.items():
        out = set()
        for b in bodies:
            for blk, t in b.calls():
                if Q.callee_is(t, sink_pats):
                    reach.add(root)
                for n in Q.callee_names(t):
                    out.add(n.split('::{closure')[0])
        graph[root] = out
    changed = True
    while changed:
        changed = False
        for root, out in graph.items():
            if root not in reach and out & reach:
                reach.add(root)
                changed = True
    return reach


@RS.rule('C08.R13', 'K-ORDER+K-RES', 'the signal mask saved around a fork is restored exactly: between block_sigint_sigquit and restore_sigmask the parent '
         'changes no disposition and does not wait in select (the contract documented on BlockSignals for Concurrent: a disposition change '
         'in the window is undone or half-undone by restore_sigmask), and no exit of the window skips the restore')
def r13(cx):
    F = cx.F
    reach = _roots_reaching(F, WINDOW_FORBIDDEN)
    cx.site('%d functions of the workspace can change a disposition or wait in select' % len(reach))
    cx.require(any(r.endswith('enable_internal_disposition_for_sigchld') for r in reach) and any(r.endswith('TrapSet::enter_subshell') for r in reach),
               'call graph: the TrapSet routines no longer reach SignalSystem::set_disposition (positive example of the reachability matcher)')
    n = 0
    for b0, blk0, t0 in F.callers_of(lambda names, t: any(WINDOW_OPEN[0].search(nm) for nm in names)):
        if b0.root.startswith('yash_env::system::'):
            continue        # the implementations of the trait forwarding to the inner system
        n += 1
        body = F.main_body(b0.root)
        cx.fn(body.fn)
        du = Q.DefUse(body)
        opens = Q.find_calls(body, WINDOW_OPEN)
        closes = Q.find_calls(body, WINDOW_CLOSE)
        for ob, ot in opens:
            start = done_block(F, body, du, ob, ot)
            start = start if start != ob else ot.get('to')
            closing = {cb for cb, ct in closes}
            window = body.reachable(start, removed=closing) if start is not None else set()
            inside = []
            for blk, t in body.calls():
                if blk not in window or blk in closing:
                    continue
                names = {nm.split('::{closure')[0] for nm in Q.callee_names(t)}
                if names & set(WINDOW_EXEMPT):
                    continue
                if Q.callee_is(t, WINDOW_FORBIDDEN) or names & reach:
                    inside.append((blk, t))
            cx.site('%s: window opened at %s, closed at %s; calls inside that can change a disposition / select: %s' % (
                body.root, body.loc(ot), [body.loc(t) for _, t in closes], [pp.callee(t).split('::')[-1] for _, t in inside] or 'none'))
            for blk, t in inside:
                cx.violation(body.root, 'disposition-changed-in-mask-window:%s' % pp.callee(t).split('::')[-1].split(' ')[0],
                             '%s is called between block_sigint_sigquit and restore_sigmask and can change a signal disposition (or select): '
                             'Concurrent keeps a caught signal blocked, restore_sigmask then puts back the mask of before - the signal ends up '
                             'caught but unblocked (its handler can run outside select: lost wake-up), and a select mask first computed inside '
                             'the window keeps SIGINT/SIGQUIT blocked for good (`sleep 100 & wait` as the first commands of a script cannot be '
                             'interrupted)' % pp.callee(t), loc=body.loc(t))
            if not closes:
                cx.violation(body.root, 'mask-window-never-closed', 'the signal mask saved by block_sigint_sigquit is never restored', loc=body.loc(ot))
                continue
            leaks, tainted, release, absent = Q.resource_leak_paths(
                F, body, ob, ot['dest']['l'],
                lambda tainted: {cb for cb, ct in closes if any((Q.operand_place(a) or {}).get('l') in tainted for a in ct['a'])},
                through_calls=Q.PROPAGATING_CALLS + Q.AWAIT_CALLS + Q.TRY_BRANCH)
            for ex in (Q.leaking_exits(F, body, ob, release, absent) if leaks else []):
                cx.violation(body.root, 'exit-inside-mask-window:%s' % ex['label'], 'the function can return (%s) between block_sigint_sigquit and '
                             'restore_sigmask: the shell stays with SIGINT and SIGQUIT blocked and every later child inherits that mask' % ex['what'],
                             loc=ex['loc'], path=ex['path'])
    cx.floor(n, 1, 'users of block_sigint_sigquit outside the system layer')


RS.explanation += ' Nothing changes a disposition or returns between block_sigint_sigquit and restore_sigmask (R13 = C11.R12).'


# ---------------------------------------------------------------- added after seed wave 4 (C08-s8: disown_all also forgot $!)
LAST_ASYNC_SETTERS = {
    'yash_semantics::command::item::execute_async': 'the asynchronous list `cmd &` (POSIX 2.5.2: $! is the most recent background command)',
    'yash_builtin::bg::resume_job_by_index': 'the bg built-in (POSIX bg: $! becomes the process ID of the resumed job)',
}


@RS.rule('C08.R14', 'K-WRITERS+K-CALLERS', '`$!` is part of what a subshell inherits (a subshell is a duplicate of the shell environment, XCU 2.12: '
         '`cmd & (kill $!)`, `pid=$(echo $!)`): the remembered process ID is written only by JobList::set_last_async_pid, which only the '
         'asynchronous list and the bg built-in call - nothing on the subshell-entry path (disown_all, Config::start) touches it')
def r14(cx):
    F = cx.F
    JL = 'yash_env::job::JobList'
    cx.require(any(f['name'] == 'last_async_pid' for v in F.adts[JL]['variants'] for f in v['fields']), 'JobList has no field last_async_pid any more')
    n = 0
    for b in F.bodies.values():
        for w in Q.field_writes(b, JL, 'last_async_pid'):
            n += 1
            cx.fn(b.fn)
            cx.site('%s: %s of JobList::last_async_pid at %s' % (b.fn, w[3], b.loc(w[2])))
            if not b.root.endswith('JobList::set_last_async_pid'):
                cx.violation(b.root, 'last-async-pid-written', '%s changes the remembered process ID of the last asynchronous command: only '
                             'set_last_async_pid may (a subshell must see the `$!` of its parent: with this write on the subshell-entry path '
                             '`cmd & (kill $!)` and `pid=$(echo $!)` lose the process ID)' % b.root, loc=b.loc(w[2]))
        for blk, j, st in Q.find_aggregates(b, JL):
            cx.site('%s builds a JobList at %s' % (b.fn, b.loc(st)))
            if not re.search(r'<yash_env::job::JobList as core::(clone::Clone|default::Default)>::(clone|default)$', b.root):
                cx.violation(b.root, 'joblist-rebuilt', 'a JobList is built outside Default / Clone: the remembered `$!` of the parent is not carried over',
                             loc=b.loc(st))
    cx.floor(n, 1, 'writes of JobList::last_async_pid')
    callers = F.callers_of(lambda names, t: any(nm.endswith('JobList::set_last_async_pid') for nm in names))
    cx.floor(len(callers), 2, 'callers of set_last_async_pid')
    for b, blk, t in callers:
        cx.fn(b.fn)
        why = LAST_ASYNC_SETTERS.get(b.root)
        cx.site('%s calls set_last_async_pid at %s: %s' % (b.root, b.loc(t), why or 'NOT REVIEWED'))
        if why is None:
            cx.violation(b.root, 'caller:set_last_async_pid', '`$!` is changed by %s, which is neither the asynchronous list nor the bg built-in' % b.root,
                         loc=b.loc(t))


RS.explanation += ' `$!` is written only by set_last_async_pid, called only by the asynchronous list and bg: subshell entry leaves it alone (R14).'


# ---------------------------------------------------------------- added after seed wave 5
# (C08-s9: run_exit_trap looked the EXIT trap up with the display accessor peek_state; C08-s10: PipeSet::shift dropped a held read end)
GRAND_STATE = 'yash_env::trap::state::GrandState'
TRAP_MODULE_RE = re.compile(r"^(<[&'\w ]*)?yash_env::trap::")
PARENT_STATE_DISPLAY = {
    'yash_builtin::trap::': 'the trap built-in: `trap` / `trap -p` in a subshell print the traps of the parent shell (POSIX: `$(trap)` '
                            'shows what the shell had) - display only, nothing is executed from the result',
}
# derived impls that copy / format the whole GrandState: they hand out no TrapState of their own
PARENT_STATE_STRUCTURAL = re.compile(r'^<yash_env::trap::state::GrandState as core::(clone::Clone|fmt::Debug)>::')


def _reads_field(body, adt, field):
    """(block, node) of every read (copy, move, shared borrow, call operand) of a place projecting `field` of `adt`."""
    out = []
    for b, j, s in body.stmts():
        if s['k'] != 'assign':
            continue
        if s['rv']['k'] in ('ref', 'rawptr') and s['rv'].get('mut'):
            continue
        for p in Q.rvalue_places(s['rv']):
            if Q._projects_field(p, adt, field):
                out.append((b, s))
    for b, t in body.calls():
        for a in t['a']:
            p = Q.operand_place(a)
            if p is not None and Q._projects_field(p, adt, field):
                out.append((b, t))
    return out


def _returned_components(F, body, seeds_whole, seeds_call):
    """Which part of the value returned by `body` can be (derived from) the seeds: 'all', a set of tuple indices, or None.
    seeds_whole = locals that are a parent state; seeds_call = {dest local: comps of the callee}."""
    seeds = set(seeds_whole) | {l for l, c in seeds_call.items()}
    if not seeds:
        return None
    taint = Q.forward_taint(body, seeds)
    res = set()
    for b, j, s in body.stmts():
        if s['k'] == 'assign' and s['lhs']['l'] == 0:
            if s['lhs'].get('p'):
                if any(p['l'] in taint for p in Q.rvalue_places(s['rv'])):
                    return 'all'
                continue
            rv = s['rv']
            if rv['k'] == 'agg' and rv.get('ak') == 'tuple':
                res |= {str(i) for i, o in enumerate(rv['ops']) if Q.operand_local(o) in taint}
            elif any(p['l'] in taint for p in Q.rvalue_places(rv)):
                return 'all'
    for b, t in body.calls():
        if t['dest']['l'] == 0:
            c = seeds_call.get(0)
            if c == 'all' or (c is None and any(Q.operand_local(a) in taint for a in t['a'])):
                return 'all'
            if c:
                res |= set(c)
    return res or None


@RS.rule('C08.R15', 'K-CALLERS', 'the traps of the parent that a subshell keeps for display (GrandState::parent_state, remembered when command traps are '
         'reset on subshell entry) never decide what is executed: every accessor of the trap module through which a parent state can come out '
         '(enumerated from the reads of the field) is called only by the display code of the trap built-in; any other caller uses only the '
         'component of the result that is the current state')
def r15(cx):
    F = cx.F
    cx.require(GRAND_STATE in F.adts and any(f['name'] == 'parent_state' for v in F.adts[GRAND_STATE]['variants'] for f in v['fields']),
               'GrandState::parent_state not found')
    # accessors: root -> 'all' | set of tuple indices of the returned value that can be a parent state
    acc = {}
    for b in F.bodies.values():
        rd = _reads_field(b, GRAND_STATE, 'parent_state')
        if not rd or PARENT_STATE_STRUCTURAL.match(b.root):
            continue
        cx.fn(b.fn)
        seeds = set()
        for blk, node in rd:
            seeds.add(node['lhs']['l'] if node['k'] == 'assign' else node['dest']['l'])
        acc[b.root] = _returned_components(F, b, seeds, {}) or 'all'
        cx.site('%s reads GrandState::parent_state at %s (returned part: %s)' % (b.fn, [b.loc(n) for _, n in rd], acc[b.root]))
    cx.require(acc, 'no function reads GrandState::parent_state')
    carriers = set()

    def callers(names_of):
        return F.callers_of(lambda names, t: any(n in names_of for n in names))

    changed = True
    while changed:
        changed = False
        # types whose methods hand out a parent state (the iterator over the trap set): whoever returns one is an accessor
        for im in F.impls:
            sa = im.get('self_adt')
            if sa and sa not in carriers and sa.startswith('yash_env::trap::') and sa != GRAND_STATE and not sa.endswith('::TrapSet') \
                    and any(it.get('def') in acc for it in im['items']):
                carriers.add(sa)
                changed = True
        for fn, sig in F.fns.items():
            if fn not in acc and any(re.search(re.escape(c) + r'\b', sig.get('output') or '') for c in carriers):
                acc[fn] = 'all'
                changed = True
        for b, blk, t in callers(set(acc)):
            if not TRAP_MODULE_RE.match(b.root) or PARENT_STATE_STRUCTURAL.match(b.root):
                continue
            callee = [n for n in Q.callee_names(t) if n in acc][0]
            if b.fn == b.root:
                comps = _returned_components(F, b, set(), {t['dest']['l']: acc[callee]})
            else:
                comps = 'all'      # called in a closure of the function: whatever the function returns may carry it
            if comps is None:
                continue
            old = acc.get(b.root)
            new = 'all' if (comps == 'all' or old == 'all') else set(comps) | set(old or ())
            if new != old:
                acc[b.root] = new
                changed = True
    for fn in sorted(acc):
        cx.site('accessor %s: part of the result that can be a parent state: %s' % (fn, acc[fn] if acc[fn] == 'all' else sorted(acc[fn])))
    cx.require(any(fn.endswith('TrapSet::peek_state') for fn in acc) and any(fn.endswith('TrapSet::get_state') for fn in acc),
               'TrapSet::peek_state / get_state are no longer recognised as accessors of the parent state')
    cx.require(acc.get('yash_env::trap::TrapSet::get_state') == {'1'},
               'TrapSet::get_state no longer returns (current state, parent state) with the parent state as the second component only')
    n = 0
    for b, blk, t in callers(set(acc)):
        if TRAP_MODULE_RE.match(b.root):
            continue
        n += 1
        cx.fn(b.fn)
        callee = [nm for nm in Q.callee_names(t) if nm in acc][0]
        short = callee.split('::')[-1]
        why = [w for p, w in PARENT_STATE_DISPLAY.items() if b.root.startswith(p)]
        if why:
            cx.site('%s calls %s at %s: display code (%s)' % (b.root, callee, b.loc(t), why[0][:60]))
            continue
        comps = acc[callee]
        bad = None
        if comps == 'all':
            bad = 'the result'
        else:
            # only the components that are not a parent state may be looked at
            hold = {t['dest']['l']}
            work = True
            while work and bad is None:
                work = False
                places = []
                for bb, j, s in b.stmts():
                    if s['k'] == 'assign':
                        for p in Q.rvalue_places(s['rv']):
                            places.append((p, s))
                for bb, tt in b.calls():
                    for a in tt['a']:
                        p = Q.operand_place(a)
                        if p is not None:
                            places.append((p, tt))
                for p, node in places:
                    if p['l'] not in hold:
                        continue
                    proj = [e for e in p.get('p') or [] if isinstance(e, dict) and 'f' in e]
                    if not proj:
                        if node['k'] == 'assign' and node['rv']['k'] == 'use' and not node['lhs'].get('p'):
                            if node['lhs']['l'] not in hold:
                                hold.add(node['lhs']['l'])
                                work = True
                        else:
                            bad = 'the whole result'
                    elif proj[0]['f'] in comps:
                        bad = 'component .%s of the result (the parent state)' % proj[0]['f']
        cx.site('%s calls %s at %s: not display code; uses %s' % (b.root, callee, b.loc(t), bad or 'only the current-state part of the result'))
        if bad:
            cx.violation(b.root, 'parent-state-accessor:%s' % short, '%s uses %s of TrapSet::%s, which in a subshell is the trap the PARENT shell had '
                         '(kept only so that `trap` can print it): code outside the trap built-in acts on it - a subshell that has not changed any '
                         'trap runs / honours the parent\'s trap action although command traps are reset to default on subshell entry '
                         '(`trap "echo bye" EXIT; (:)` prints bye twice)' % (b.root, bad, short), loc=b.loc(t))
    cx.floor(n, 3, 'callers of the parent-state accessors outside the trap module (display_trap, run_exit_trap, sigint_has_default_action)')


RS.explanation += (' The parent traps a subshell remembers for display are reachable only through accessors enumerated from the reads of '
                   'GrandState::parent_state; outside the trap built-in nobody looks at the parent-state part of their result (R15).')


# ---------------------------------------------------------------- C08.R16: descriptors held in the fields of PipeSet
PIPESET = 'yash_semantics::command::pipeline::PipeSet'
PIPESET_FNS = ['yash_semantics::command::pipeline::PipeSet::shift']
OPTION_TAKERS = [re.compile(r'^core::option::Option::<T>::(take|replace)$'), re.compile(r'^core::mem::(take|replace)(::<.*>)?$')]


def _held_components(F, adt):
    """{field: [component ids]} for the fields of `adt` that hold descriptors: ('read_previous', None), ('next', '0'), ('next', '1')."""
    out = {}
    for v in F.adts[adt]['variants']:
        for f in v['fields']:
            n = f['ty'].count(FD_TY)
            if n == 1:
                out[f['name']] = [(f['name'], None)]
            elif n > 1:
                out[f['name']] = [(f['name'], str(i)) for i in range(n)]
    return out


def _pos_before(body, a, b):
    """Position a = (block, index) can execute before position b."""
    if a[0] == b[0] and a[1] < b[1]:
        return True
    return any(b[0] in body.reachable(s) for s in body.succ(a[0]))


class _HeldFds:
    """Reads, writes and releases of the descriptors held in the fields of a struct reached through the locals of one body."""

    def __init__(self, F, body, adt, comps_of):
        self.F, self.body, self.adt, self.comps_of = F, body, adt, comps_of
        self.du = Q.DefUse(body)
        self.all = {c for cs in comps_of.values() for c in cs}
        self.reads = []       # (pos, field|None(whole), dest local, place)
        self.writes = []      # (pos, field|None(whole), node, value operand|None, 'assign'|'take'|'call')
        self.unknown = []     # mutable borrows that cannot be followed
        self._scan()

    def _whole(self, p):
        ty = self.body.locals[p['l']].get('ty', '')
        proj = [e for e in p.get('p') or []]
        return (ty in (self.adt,) and not proj) or (ty in ('&mut ' + self.adt, '&' + self.adt) and proj == ['*'])

    def _field(self, p):
        return Q._projects_field(p, self.adt, None)

    def _scan(self):
        body = self.body
        for b, j, s in body.stmts():
            if s['k'] != 'assign':
                continue
            lhs, rv = s['lhs'], s['rv']
            f = self._field(lhs)
            if f in self.comps_of:
                val = rv['o'] if rv['k'] == 'use' else None
                self.writes.append(((b, j), f, s, val, 'assign'))
            elif self._whole(lhs) and lhs.get('p'):
                self.writes.append(((b, j), None, s, rv['o'] if rv['k'] == 'use' else None, 'assign'))
            if rv['k'] in ('ref', 'rawptr') and rv.get('mut'):
                f = self._field(rv['pl'])
                if f in self.comps_of:
                    t = body.term(b)
                    alias = {lhs['l']}          # reborrows `&mut *tmp` made for the call
                    for s2 in body.blocks[b]['s'][j + 1:]:
                        if s2['k'] == 'assign' and s2['rv']['k'] == 'ref' and s2['rv']['pl']['l'] in alias and s2['rv']['pl'].get('p') == ['*'] \
                                and not s2['lhs'].get('p'):
                            alias.add(s2['lhs']['l'])
                    used = t['k'] == 'call' and t['a'] and Q.operand_local(t['a'][0]) in alias
                    if used and Q.callee_is(t, OPTION_TAKERS):
                        n = len(body.blocks[b]['s'])
                        self.reads.append(((b, n), f, t['dest']['l'], rv['pl']))
                        self.writes.append(((b, n), f, t, t['a'][1] if len(t['a']) > 1 else None, 'take'))
                    else:
                        self.unknown.append((b, s))
                continue
            if rv['k'] == 'discr':
                continue
            for p in Q.rvalue_places(rv):
                f = self._field(p)
                if f in self.comps_of:
                    self.reads.append(((b, j), f, lhs['l'], p))
                elif self._whole(p) and rv['k'] == 'use':
                    self.reads.append(((b, j), None, lhs['l'], p))
        for b, t in body.calls():
            n = len(body.blocks[b]['s'])
            f = self._field(t['dest'])
            if f in self.comps_of:
                self.writes.append(((b, n), f, t, None, 'call'))

    def writes_of(self, field):
        return [w for w in self.writes if w[1] in (field, None)]

    def epoch_reads(self, field, start):
        """Reads of `field` that see the value the field has from `start` on (None = on entry; else the position of a write)."""
        ws = self.writes_of(field)
        out = []
        for r in self.reads:
            if r[1] not in (field, None):
                continue
            pos = r[0]
            if start is None:
                if any(w[0] == pos and w[4] != 'take' or (w[0] != pos and _pos_before(self.body, w[0], pos)) for w in ws):
                    continue
            else:
                if not (start != pos and _pos_before(self.body, start, pos)):
                    continue
                if any(w[0] != start and w[0] != pos and _pos_before(self.body, start, w[0]) and _pos_before(self.body, w[0], pos) for w in ws):
                    continue
            out.append(r)
        return out

    def comps_of_place(self, base, p):
        for e in p.get('p') or []:
            if isinstance(e, dict) and 'f' in e:
                if e.get('adt') == self.adt:
                    base = {c for c in base if c[0] == e['f']}
                elif 'adt' not in e:
                    base = {c for c in base if c[1] in (None, e['f'])}
        return set(base)

    def taint(self, field, reads):
        """local -> components (of `field`) its value is."""
        comp = {}
        for pos, f, l, p in reads:
            base = set(self.comps_of[field])
            if f is None:
                base = self.comps_of_place(set(self.all), {'l': 0, 'p': []}) & base
            else:
                base = self.comps_of_place(base, {'l': 0, 'p': [e for e in p.get('p') or [] if not (isinstance(e, dict) and e.get('adt') == self.adt)]})
            comp.setdefault(l, set()).update(base)
        seeds = set(comp)
        body = self.body
        changed = True
        while changed:
            changed = False
            for b, j, s in body.stmts():
                if s['k'] != 'assign' or s['lhs'].get('p') or s['rv']['k'] == 'discr':
                    continue
                l = s['lhs']['l']
                if l in seeds:
                    continue
                new = set()
                for p in Q.rvalue_places(s['rv']):
                    if p['l'] in comp:
                        new |= self.comps_of_place(comp[p['l']], p)
                if not new <= comp.get(l, set()):
                    comp.setdefault(l, set()).update(new)
                    changed = True
            for b, t in body.calls():
                if not Q.callee_is(t, R11_THROUGH):
                    continue
                l = t['dest']['l']
                if l in seeds or t['dest'].get('p'):
                    continue
                new = set()
                for a in t['a']:
                    p = Q.operand_place(a)
                    if p is not None and p['l'] in comp:
                        new |= self.comps_of_place(comp[p['l']], p)
                if not new <= comp.get(l, set()):
                    comp.setdefault(l, set()).update(new)
                    changed = True
        return comp

    def of_operand(self, comp, o):
        p = Q.operand_place(o)
        if p is None or p['l'] not in comp:
            return set()
        return self.comps_of_place(comp[p['l']], p)

    def releases(self, comp, c, closers, notes):
        """{block: position} where component c (as tracked by `comp`) is closed, handed to a function that closes every descriptor of the
        struct, or stored into a field of the struct (from then on it is that field's value)."""
        body = self.body
        rel = {}
        for b, t in body.calls():
            n = len(body.blocks[b]['s'])
            for i, a in enumerate(t['a']):
                cs = self.of_operand(comp, a)
                if c not in cs:
                    continue
                if Q.callee_is(t, CLOSE_PATS) and cs == {c}:
                    rel[b] = (b, n)
                    notes.append('closed at %s' % body.loc(t))
                elif (t['f'].get('def') in closers) and i < len(t.get('at') or []) and t['at'][i] == self.adt:
                    rel[b] = (b, n)
                    notes.append('closed by %s at %s' % (t['f']['def'].split('::')[-1], body.loc(t)))
        for pos, f, node, val, how in self.writes:
            if val is not None and c in self.of_operand(comp, val):
                rel.setdefault(pos[0], pos)
                notes.append('stored into %s at %s' % (f or 'the struct', body.loc(node)))
        return rel

    def absent_edges(self, comp, c, field, start):
        """Switch edges on which component c is known to be absent (the Option that holds it is None)."""
        body, out = self.body, set()
        for u in body.live_blocks():
            ec = Q.edge_condition(self.F, body, self.du, u)
            if ec is None or ec[0]['k'] != 'discr':
                continue
            pl = ec[0]['pl']
            hit = False
            if pl['l'] in comp and c in self.comps_of_place(comp[pl['l']], pl):
                hit = True
            elif self._field(pl) == field:
                # the field itself is tested: the test must see the value of this epoch
                blk = u
                pos = (blk, 0)
                ws = self.writes_of(field)
                if start is None:
                    hit = not any(_pos_before(body, w[0], (blk, len(body.blocks[blk]['s']))) and w[0][0] != blk or
                                  (w[0][0] == blk) for w in ws)
                else:
                    hit = _pos_before(body, start, pos) and not any(
                        w[0] != start and _pos_before(body, start, w[0]) and _pos_before(body, w[0], (blk, len(body.blocks[blk]['s']))) for w in ws)
            if not hit:
                continue
            for tgt, labs in ec[1].items():
                if labs and all(l[0] == 'variant' and l[1] in Q.ABSENT_VARIANTS for l in labs):
                    out.add((u, tgt))
        return out


def _closes_every_held_fd(F, fn, adt, comps_of, cx):
    """fn(self: adt, ..) closes every descriptor of the struct it is given on every path to its return."""
    pl = _param_locals(F, fn, 0)
    if pl is None:
        return False
    main, ls = pl
    h = _HeldFds(F, main, adt, comps_of)
    ok = True
    for field, cs in comps_of.items():
        reads = [((0, -1), None, l, {'l': l}) for l in ls]
        comp = h.taint(field, reads)
        for c in cs:
            notes = []
            rel = h.releases(comp, c, set(), notes)
            absent = h.absent_edges(comp, c, field, None)
            p = Q.must_pass(main, [0], set(rel), removed_edges=absent)
            cx.site('%s: %s%s of the struct it is given: %s' % (fn, c[0], '.' + c[1] if c[1] else '', '; '.join(notes) or 'not closed'))
            if p is not None:
                ok = False
    return ok


def _plain_taint(body, seeds):
    """Locals whose value is derived from the seed locals (assignments to whole locals and value-propagating calls only: a store
    through a reference does not make the reference itself derived)."""
    taint = set(seeds)
    changed = True
    while changed:
        changed = False
        for b, j, s in body.stmts():
            if s['k'] == 'assign' and not s['lhs'].get('p') and s['lhs']['l'] not in taint and s['rv']['k'] != 'discr' \
                    and any(p['l'] in taint for p in Q.rvalue_places(s['rv'])):
                taint.add(s['lhs']['l'])
                changed = True
        for b, t in body.calls():
            if Q.callee_is(t, R11_THROUGH) and not t['dest'].get('p') and t['dest']['l'] not in taint \
                    and any(Q.operand_local(a) in taint for a in t['a']):
                taint.add(t['dest']['l'])
                changed = True
    return taint


def _comp_name(c):
    return c[0] + ('.' + c[1] if c[1] is not None else '')


@RS.rule('C08.R16', 'K-RES', 'starting the members of a pipeline leaves no descriptor behind in the shell: in PipeSet::shift every descriptor held in a '
         'field of the PipeSet (read_previous, both ends of next) when the function is entered, and every descriptor stored into a field on the way, '
         'has been closed, handed to close_all, or moved into a field before that field is overwritten and before the function returns (the Option '
         'being None on that path counts); the pair returned by pipe() is stored into a field on the success path')
def r16(cx):
    F = cx.F
    cx.require(PIPESET in F.adts, 'struct PipeSet not found')
    comps_of = _held_components(F, PIPESET)
    cx.require(set(comps_of) >= {'read_previous', 'next'} and len(comps_of['next']) == 2, 'PipeSet no longer holds read_previous: Option<Fd>, next: Option<(Fd, Fd)>')
    # functions that close every descriptor of a PipeSet passed by value
    closers = set()
    for fn, sig in F.fns.items():
        if fn.startswith(PIPESET + '::') and (sig.get('inputs') or [''])[0] == PIPESET and fn in F.bodies:
            if _closes_every_held_fd(F, fn, PIPESET, comps_of, cx):
                closers.add(fn)
            cx.fn(fn)
    nsites = 0
    for fn in PIPESET_FNS:
        body = F.inlined(F.main_body(fn), accept=lambda callee: callee not in closers)
        cx.fn(body.fn)
        h = _HeldFds(F, body, PIPESET, comps_of)
        for b, s in h.unknown:
            cx.require(False, '%s: a field of the PipeSet is borrowed mutably at %s for something else than Option::take / replace: follow it in C08.R16' % (fn, body.loc(s)))
        rets = set(body.return_blocks())
        for field, cs in sorted(comps_of.items()):
            ws = h.writes_of(field)
            # epochs: the value on entry, and the value stored by each write that stores something
            epochs = [(None, 'entry')]
            for w in ws:
                pos, f, node, val, how = w
                if how == 'take' and val is None:
                    continue
                if val is not None:
                    o = h.du.origin(val)
                    if o['k'] == 'agg' and o['rv'].get('adt') == 'core::option::Option' and o['rv'].get('variant') == 'None':
                        continue
                epochs.append((pos, 'stored'))
            for start, ename in epochs:
                reads = h.epoch_reads(field, start)
                comp = h.taint(field, reads)
                if start is None:
                    goals, starts = rets, [0]
                else:
                    later = [w for w in ws if w[0] != start and _pos_before(body, start, w[0])]
                    goals = {w[0][0] for w in later}
                    starts = body.succ(start[0])
                    if any(w[0][0] == start[0] and w[0][1] > start[1] for w in later):
                        starts = [start[0]]
                    if not goals:
                        cx.site('%s: %s set at %s is not overwritten later in the function (kept for the next member)' % (fn, field, body.loc(ws[[w[0] for w in ws].index(start)][2])))
                        nsites += 1
                        continue
                for c in cs:
                    notes = []
                    rel = h.releases(comp, c, closers, notes)
                    if start is not None:
                        # a release located in the block of the write counts only after the write
                        rel = {b: p for b, p in rel.items() if b != start[0] or p[1] > start[1]}
                    absent = h.absent_edges(comp, c, field, start)
                    nsites += 1
                    where = 'held on entry' if start is None else 'stored at %s' % body.loc(ws[[w[0] for w in ws].index(start)][2])
                    cx.site('%s: %s %s: %s; known absent on %d edge(s)' % (fn, _comp_name(c), where, '; '.join(sorted(set(notes))) or 'never released', len(absent)))
                    through = set(rel)
                    if start is not None and start[0] in through:
                        continue
                    p = Q.must_pass(body, starts, through, goals, removed_edges=absent)
                    if p is None:
                        continue
                    end = 'returns' if start is None else 'overwrites the field'
                    cx.violation(fn, 'held-descriptor-dropped:%s|%s' % (_comp_name(c), 'entry' if start is None else 'stored'),
                                 'PipeSet::shift %s while the descriptor %s (%s) is neither closed nor moved into another field on this path: the '
                                 'parent shell keeps one more open descriptor for every further member of the pipeline (`a | b | c | d` leaves the read '
                                 'ends of the inner pipes open in the shell), every later child inherits them and a writer never sees EPIPE/EOF '
                                 'when its reader exits' % (end, _comp_name(c), where),
                                 loc=body.loc(body.term(p[-1])), path=Q.render_path(body, p))
        # the fresh pair: on the success path it is stored into a field (or closed)
        for pb, pt in Q.find_calls(body, PIPE_PATS):
            taint = _plain_taint(body, {pt['dest']['l']})
            rel = {w[0][0] for w in h.writes if w[3] is not None and Q.operand_local(w[3]) in taint}
            rel |= {b for b, t in Q.find_calls(body, CLOSE_PATS) if any(Q.operand_local(a) in taint for a in t['a'])}
            absent = set()
            for u in body.live_blocks():
                ec = Q.edge_condition(F, body, h.du, u)
                if ec and ec[0]['k'] == 'discr' and ec[0]['pl']['l'] in taint:
                    for tgt, labs in ec[1].items():
                        if labs and all(l[0] == 'variant' and l[1] in Q.ABSENT_VARIANTS for l in labs):
                            absent.add((u, tgt))
            nsites += 1
            cx.site('%s: pipe() at %s, pair stored into a field / closed in blocks %s' % (fn, body.loc(pt), sorted(rel)))
            p = Q.must_pass(body, body.succ(pb), rel, removed_edges=absent)
            if p is not None:
                cx.violation(fn, 'fresh-pipe-not-kept', 'after a successful pipe() PipeSet::shift can return without storing the pair into the PipeSet '
                             '(nor closing it): both descriptors stay open in the shell with nobody to close them', loc=body.loc(pt), path=Q.render_path(body, p))
    cx.floor(nsites, 6, 'descriptor epochs examined in PipeSet::shift (3 on entry, read_previous stored, next stored, pipe())')


RS.explanation += (' In PipeSet::shift every descriptor held in read_previous / next on entry or stored there on the way is closed, given to close_all '
                   'or moved into a field before the field is overwritten and before the function returns; the pipe() pair is kept on success (R16).')
