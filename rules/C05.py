"""C05 - pathname expansion returns exactly the existing matching paths, sorted.

Structural clauses decided (DESIGN.md 4/C05): a directory entry is added only under
entry-present, name != ".", name != "..", pattern.is_match(name); every delivered path
was either just read from a directory or verified with fstatat; results are sorted with
the ascending byte-wise comparator before being delivered, and an empty result falls back
to the quote-removed field; noglob bypasses the scan; to_pattern anchors both ends, sets
literal_period, maps quoted / hard-expansion characters to literals and drops quoting
characters; components are split at '/' before a pattern is compiled.

The small pure functions (Chars::next of to_pattern, the '/' predicate, the comparator)
are evaluated over their whole finite domain with the HIR interpreter of rules/C01.py."""
import re

from engine import RuleSet
from facts import AnchorMissing
import mirq as Q
import hirq as H
import pp
from rules.C04 import _config_at_call, _config_default, _config_fields
from rules.C01 import (Interp, MutStruct, Undecidable, V, is_variant, freeze, _hloc, _short, _variants,
                       _reachable_under, ATTRCHAR, ORIGIN, SOME, NONE)

RS = RuleSet(
    'C05',
    explanation=(
        'Dominance, data-flow and table rules over the MIR/HIR of yash-semantics/src/expansion/glob.rs: (R1) the one '
        'push_component(.., true, ..) call in search_dir is dominated by Dir::next yielding an entry, name != ".", '
        'name != "..", and pattern.is_match(name) for the pattern compiled from this component, and appends that very '
        'name; all other push_component calls pass false; (R2) in push_component no path reaches results.push without '
        'file_exists == true or self.file_exists() == true, only complete paths (suffix None) are pushed, the pushed '
        'value is the current prefix, a "/" is appended before descending, and file_exists() is fstatat(AT_FDCWD, prefix, '
        'follow) .is_ok(); (R3) Inner::Many is built only from the vector that sort_unstable_by has just sorted with the '
        'ascending comparator a.value.cmp(&b.value), and the empty case returns remove_quotes_and_strip of the original '
        'characters; (R4) search_dir (hence opendir) runs only on the Glob != Off edge and has no other entry; (R5) '
        'to_pattern sets anchor_begin, anchor_end, literal_period to true before parse_with_config, its character '
        'iterator is the Literal/Normal/skip table over all attribute combinations, and the split at "/" ignores '
        'attributes and precedes pattern compilation.'),
    not_decided='completeness of the directory scan performed by the (real or simulated) system; symlink and permission '
                'behaviour; the matching semantics of yash-fnmatch (C04); that the sort order is the locale collation',
    trusted=['attribute -> pattern character table transcribed from the property statement in rules/C05.py',
             'the mini HIR interpreter in rules/C01.py (fails closed on unsupported constructs)'],
    assumptions=['dominance is computed on normal control flow (unwind edges dropped)',
                 'a name just returned by Dir::next exists (no concurrent removal)'],
)

GLOB = 'yash_semantics::expansion::glob::'
SEARCH_DIR = GLOB + "SearchEnv::<'_, S>::search_dir"
PUSH_COMPONENT = GLOB + "SearchEnv::<'_, S>::push_component"
FILE_EXISTS = GLOB + "SearchEnv::<'_, S>::file_exists"
TO_PATTERN = GLOB + 'to_pattern'
GLOB_FN = GLOB + 'glob'
PCHAR = 'yash_fnmatch::char_iter::PatternChar'
PWC = 'yash_fnmatch::Pattern::parse_with_config'
NE = [re.compile(r'PartialEq.*::ne$')]
EQ = [re.compile(r'PartialEq.*::eq$')]


def _const_text(body, du, operand):
    """Text of the constant an operand is (a reference to), else None."""
    org = du.origin(operand)
    for _ in range(4):
        if org['k'] == 'const':
            return str(org['o'].get('c'))
        if org['k'] == 'ref':
            org = du.origin_place(org['pl'])
            continue
        break
    return None


def _bool_const(o):
    if 'cp' in o or 'mv' in o:
        return None
    return {'true': True, 'false': False}.get(str(o.get('c')))


@RS.rule('C05.R1', 'K-GUARD', 'a directory entry is added only if it exists in the scan, is not "." or "..", and matches the component pattern')
def r1(cx):
    F = cx.F
    body = _search_dir_body(F)      # the scan arm extracted into a private helper (fn search_entries) is seen in place
    cx.fn(body.fn)
    for h in getattr(body, 'inlined_from', None) or []:
        cx.fn(h)
    du = Q.DefUse(body)
    pcs = Q.find_calls(body, [PUSH_COMPONENT])
    cx.floor(len(pcs), 3, 'push_component calls in search_dir')
    nexts = Q.find_calls(body, ['*::Dir::next'])
    cx.require(len(nexts) == 1, 'expected one Dir::next call in search_dir, found %d' % len(nexts))
    t_entry = Q.forward_taint(body, {nexts[0][1]['dest']['l']})
    tp = Q.find_calls(body, [TO_PATTERN])
    cx.require(len(tp) == 1, 'expected one to_pattern call in search_dir')
    t_pattern = Q.forward_taint(body, {tp[0][1]['dest']['l']})
    assumed = []
    for b, t in pcs:
        flag = _bool_const(t['a'][2])
        cx.site('%s: push_component(.., %s, ..) at %s' % (body.fn, flag, body.loc(t)))
        if flag is None:
            cx.violation(SEARCH_DIR, 'flag-not-constant', 'push_component is called with a computed file_exists flag: whether the '
                         'path is verified is not decidable', loc=body.loc(t))
        elif flag:
            assumed.append((b, t))
    if not assumed:
        cx.violation(SEARCH_DIR, 'no-scan-result', 'search_dir never adds a directory entry found by the scan (no '
                     'push_component(.., true, ..)): every wildcard component goes through a second existence test or matches nothing',
                     loc=body.loc(body.d))
        return
    for b, t in assumed:
        conds = Q.dominating_conditions(F, body, du, b)
        has_entry = False
        not_dot = {'"."': False, '".."': False}
        matched = False
        for org, lab, e in conds:
            if org['k'] == 'discr' and lab == ('variant', 'Some') and org['pl']['l'] == nexts[0][1]['dest']['l']:
                has_entry = True
            if org['k'] == 'call':
                ct = org['t']
                neg = Q.callee_is(ct, NE)
                if (neg or Q.callee_is(ct, EQ)) and lab == ('bool', bool(neg)):
                    texts = [_const_text(body, du, a) for a in ct['a']]
                    others = [a for a, tx in zip(ct['a'], texts) if tx is None]
                    for tx in texts:
                        if tx in not_dot and others and all(_behind(du, a) in t_entry for a in others):
                            not_dot[tx] = True
                if Q.callee_is(ct, ['yash_fnmatch::Pattern::is_match']) and lab == ('bool', True):
                    if _behind(du, ct['a'][0]) in t_pattern and _behind(du, ct['a'][1]) in t_entry:
                        matched = True
        if not has_entry:
            cx.violation(SEARCH_DIR, 'unguarded:entry', 'a path is assumed to exist (push_component(.., true, ..)) although no directory '
                         'entry of that name has been read: nonexistent paths can be delivered', loc=body.loc(t))
            continue
        for tx, ok in sorted(not_dot.items()):
            if not ok:
                cx.violation(SEARCH_DIR, 'unguarded:%s' % tx.strip('"'), 'a wildcard component can produce %s (the entry name is not '
                             'compared with %s before it is added): `.*` would expand to . and ..' % (tx, tx), loc=body.loc(t))
        if not matched:
            cx.violation(SEARCH_DIR, 'unguarded:is_match', 'a directory entry is added without pattern.is_match(name) on the pattern '
                         'compiled from this component', loc=body.loc(t))
        # the closure appends that very name
        clo = du.origin(t['a'][3])
        ok = clo['k'] == 'agg' and clo['rv'].get('ak') == 'closure' and clo['rv']['ops'] and \
            all(_behind(du, o) in t_entry for o in clo['rv']['ops'])
        if ok:
            cb = F.body(clo['rv']['def'])
            cx.fn(cb.fn)
            ps = Q.find_calls(cb, ['alloc::string::String::push_str', '*::Extend::extend', re.compile(r'AddAssign<.*>>::add_assign$')])
            ok = len(ps) >= 1
        if not ok:
            cx.violation(SEARCH_DIR, 'appends-other-name', 'the component appended for a matching entry is not the entry name itself',
                         loc=body.loc(t))
    # the scan is over the directory named by the prefix ("." when empty)
    od = Q.find_calls(body, ['*::Open::opendir'])
    cx.require(len(od) == 1, 'expected one opendir in search_dir')
    if not body.dominates(od[0][0], nexts[0][0]):
        cx.violation(SEARCH_DIR, 'next-before-opendir', 'Dir::next is not dominated by opendir', loc=body.loc(nexts[0][1]))
    cx.sample({'function': body.fn, 'assumed_existing': [body.loc(t) for _, t in assumed],
               'guards': ['Dir::next -> Some', 'name != "."', 'name != ".."', 'pattern.is_match(name)']})


def _behind(du, operand):
    """Base local of the place an operand copies or (transitively) borrows."""
    l = Q.operand_local(operand)
    for _ in range(6):
        if l is None:
            return None
        d = du.single_def(l)
        if d is None or d[1] == 't' or d[2]['k'] != 'assign':
            return l
        rv = d[2]['rv']
        if rv['k'] == 'ref':
            l = rv['pl']['l']
        elif rv['k'] == 'use' and Q.operand_local(rv['o']) is not None:
            l = Q.operand_local(rv['o'])
        else:
            return l
    return l


def _push_component_body(F):
    """push_component with its private helpers inlined (a block extracted into `fn push_result(..)` is seen in place);
    file_exists and search_dir stay calls: the rules reason about them as such."""
    from facts import same_module_private
    acc = same_module_private(F, PUSH_COMPONENT)
    return F.inlined(F.body(PUSH_COMPONENT), accept=lambda n: acc(n) and n not in (FILE_EXISTS, SEARCH_DIR, PUSH_COMPONENT, TO_PATTERN))


@RS.rule('C05.R2', 'K-GUARD', 'push_component delivers only complete, existing paths: results.push needs file_exists || self.file_exists() (an fstatat)')
def r2(cx):
    F = cx.F
    body = _push_component_body(F)
    cx.fn(body.fn)
    du = Q.DefUse(body)
    pushes = [(b, t) for b, t in Q.find_calls(body, ['alloc::vec::Vec::<T, A>::push'])
              if any(isinstance(e, dict) and e.get('f') == 'results' for e in (du.origin(t['a'][0]).get('pl') or {}).get('p') or [])]
    cx.site('%s: results.push x%d' % (body.fn, len(pushes)))
    if not pushes:
        cx.violation(PUSH_COMPONENT, 'no-push', 'push_component never delivers a path', loc=body.loc(body.d))
        return
    flag_args = [l for l in range(1, body.argc + 1) if body.locals[l]['ty'] == 'bool']
    cx.require(len(flag_args) == 1, 'push_component has no single bool parameter')
    checks = Q.find_calls(body, [FILE_EXISTS])
    cx.site('%s: self.file_exists() x%d' % (body.fn, len(checks)))
    # Decided by conditional constant propagation: assume the caller did not vouch for the path
    # (file_exists == false) and the system says it does not exist (self.file_exists() == false);
    # then no results.push may be reachable. (Robust against how the disjunction is written.)
    live = _reachable_under(body, {flag_args[0]: 0}, {FILE_EXISTS: 0})
    both = _reachable_under(body, {}, {})
    for b, t in pushes:
        cx.require(b in both, 'results.push is not reachable at all')
        if b in live:
            cx.violation(PUSH_COMPONENT, 'push-unverified', 'a path can be delivered although neither the caller vouched for it '
                         '(file_exists) nor fstatat confirmed it: literal components would yield nonexistent paths',
                         loc=body.loc(t))
        for assume, what in (({flag_args[0]: 1}, 'the scan just read this name from the directory'),):
            if b not in _reachable_under(body, assume, {FILE_EXISTS: 0}):
                cx.violation(PUSH_COMPONENT, 'push-lost', 'a path is not delivered although %s' % what, loc=body.loc(t))
        if checks and b not in _reachable_under(body, {flag_args[0]: 0}, {FILE_EXISTS: 1}):
            cx.violation(PUSH_COMPONENT, 'push-lost-verified', 'a path confirmed by fstatat is not delivered', loc=body.loc(t))
        conds = Q.dominating_conditions(F, body, du, b)
        if not any(org['k'] == 'discr' and lab == ('variant', 'None') and 'Option' in org['ty'] and org['pl']['l'] <= body.argc
                   for org, lab, e in conds):
            cx.violation(PUSH_COMPONENT, 'push-incomplete', 'a path is delivered although components remain to be matched (suffix is '
                         'not None)', loc=body.loc(t))
        # the pushed value is a clone of the current prefix
        agg = du.origin(t['a'][1])
        ok = agg['k'] == 'agg' and agg['rv'].get('adt') == 'yash_env::semantics::Field'
        if ok:
            names = [f['name'] for f in F.adt('yash_env::semantics::Field')['variants'][0]['fields']]
            src = Q.value_source(body, du, agg['rv']['ops'][names.index('value')])
            ok = src is not None and Q.callee_is(src, [re.compile(r'String as core::clone::Clone>::clone$')]) and \
                (Q.operand_name(body, du, src['a'][0]) or '').endswith('prefix')
        if not ok:
            cx.violation(PUSH_COMPONENT, 'push-other-value', 'the delivered pathname is not the accumulated prefix', loc=body.loc(t))
    # descending: '/' is appended before the recursive search
    rec = Q.find_calls(body, [SEARCH_DIR])
    slash = [(b, t) for b, t in Q.find_calls(body, ['alloc::string::String::push']) if str(t['a'][1].get('c')) == "'/'"]
    cx.site('%s: search_dir x%d, prefix.push(\'/\') x%d' % (body.fn, len(rec), len(slash)))
    if len(rec) != 1:
        cx.violation(PUSH_COMPONENT, 'no-descent', 'push_component must continue with the remaining components exactly once', loc=body.loc(body.d))
    elif Q.check_dominated(body, slash, rec):
        cx.violation(PUSH_COMPONENT, 'descent-without-slash', 'the remaining components are searched without a "/" appended to the prefix',
                     loc=body.loc(rec[0][1]))
    # the prefix is restored on every exit
    tr = Q.find_calls(body, ['alloc::string::String::truncate'])
    # (every path from the entry - and from each later change of the prefix: the appended '/', the recursive search - to a return
    # passes a truncate; one truncate before a single return and one truncate per early return are the same thing)
    tr_blocks = {b for b, _ in tr}
    after_change = {t['to'] for b, t in slash + rec if t.get('to') is not None}
    if not tr or Q.must_pass(body, [0] + sorted(after_change), tr_blocks) is not None:
        cx.violation(PUSH_COMPONENT, 'prefix-not-restored', 'the prefix is not truncated back on every exit: sibling entries would be '
                     'appended to a stale prefix', loc=body.loc(body.d))
    # file_exists(): fstatat(AT_FDCWD, prefix, follow symlinks).is_ok()
    fb = F.body(FILE_EXISTS)
    cx.fn(fb.fn)
    fdu = Q.DefUse(fb)
    st = Q.find_calls(fb, ['*::Fstat::fstatat'])
    cx.site('%s: fstatat x%d' % (fb.fn, len(st)))
    if len(st) != 1:
        cx.violation(FILE_EXISTS, 'no-fstatat', 'file_exists does not ask the system whether the path exists', loc=fb.loc(fb.d))
        return
    t = st[0][1]
    if not any(a.get('cdef', '').endswith('::AT_FDCWD') for a in t['a']):
        cx.violation(FILE_EXISTS, 'not-cwd-relative', 'fstatat is not relative to AT_FDCWD', loc=fb.loc(t))
    t_prefix = set()
    for b, c in fb.calls():
        if Q.callee_is(c, ['alloc::string::String::as_str']) and (Q.operand_name(fb, fdu, c['a'][0]) or '').endswith('prefix'):
            t_prefix |= Q.forward_taint(fb, {c['dest']['l']})
    if not any(_behind(fdu, a) in t_prefix for a in t['a']):
        cx.violation(FILE_EXISTS, 'other-path', 'fstatat does not examine the accumulated prefix', loc=fb.loc(t))
    # the boolean returned: is_ok of that call on the path where it ran; false otherwise
    rets = [(b, j, s) for b, j, s in fb.stmts() if s['k'] == 'assign' and s['lhs']['l'] == 0 and not s['lhs'].get('p')]
    for b, j, s in rets:
        if s['rv']['k'] == 'use' and _bool_const(s['rv']['o']) is True:
            cx.violation(FILE_EXISTS, 'returns-true', 'file_exists returns true without consulting the system', loc=fb.loc(s))
    ok_calls = [(b, c) for b, c in Q.find_calls(fb, ['core::result::Result::<T, E>::is_ok']) if c['dest']['l'] == 0 and
                _behind(fdu, c['a'][0]) == t['dest']['l']]
    other_ret_calls = [(b, c) for b, c in fb.calls() if c['dest']['l'] == 0 and (b, c) not in ok_calls]
    if len(ok_calls) != 1 or other_ret_calls:
        cx.violation(FILE_EXISTS, 'result-not-is_ok', 'file_exists must return fstatat(..).is_ok()', loc=fb.loc(t))


@RS.rule('C05.R3', 'K-ORDER', 'results are sorted ascending before they are delivered; no match falls back to the quote-removed field')
def r3(cx):
    F = cx.F
    body = F.body(GLOB_FN)
    cx.fn(body.fn)
    du = Q.DefUse(body)
    many = Q.find_aggregates(body, GLOB + 'Inner', 'Many')
    sorts = Q.find_calls(body, [re.compile(r'^(core|alloc)::slice::<impl \[T\]>::sort(_unstable)?(_by|_by_key|_by_cached_key)?$')])
    cx.site('%s: Inner::Many x%d, sort x%d' % (body.fn, len(many), len(sorts)))
    if not many:
        cx.violation(GLOB_FN, 'no-many', 'glob never delivers more than one result', loc=body.loc(body.d))
        return
    field_args = [l for l in range(1, body.argc + 1) if 'AttrField' in body.locals[l]['ty']]
    cx.require(len(field_args) == 1, 'glob has no AttrField parameter')
    empties = [(b, t) for b, t in Q.find_calls(body, ['alloc::vec::Vec::<T, A>::is_empty'])]
    for b, j, s in many:
        src = Q.value_source(body, du, s['rv']['ops'][0])
        ok_src = src is not None and Q.callee_is(src, [re.compile(r'IntoIterator>::into_iter$')])
        vec_local = _behind(du, src['a'][0]) if ok_src else None
        sorted_here = [(sb, st) for sb, st in sorts if body.dominates(sb, b) and vec_local is not None and
                       _sorted_local(body, du, st) == vec_local]
        if not sorted_here:
            cx.violation(GLOB_FN, 'unsorted', 'the matches are delivered in directory order: the vector given to Inner::Many is not '
                         'the one sorted just before', loc=body.loc(s))
            continue
        for sb, st in sorted_here:
            cx.site('%s: %s at %s' % (body.fn, pp.callee(st).split('::')[-1], body.loc(st)))
            # nothing is added to the vector between the sort and the delivery
            if Q.callee_is(st, [re.compile(r'sort(_unstable)?$')]):
                continue          # natural order of Field? not the case today
            clo = du.origin(st['a'][1])
            cx.require(clo['k'] == 'agg' and clo['rv'].get('ak') == 'closure', 'sort comparator is not a closure')
            if Q.callee_is(st, [re.compile(r'_key$')]):
                _check_key(cx, F, clo['rv']['def'])
            else:
                _check_comparator(cx, F, clo['rv']['def'])
        conds = Q.dominating_conditions(F, body, du, b)
        if not any(Q.cond_is_call(org, ['alloc::vec::Vec::<T, A>::is_empty']) and lab == ('bool', False) and
                   _behind(du, org['t']['a'][0]) == vec_local for org, lab, e in conds):
            cx.violation(GLOB_FN, 'many-when-empty', 'an empty result list is delivered as zero fields instead of the pattern itself',
                         loc=body.loc(s))
    # fallback: on results.is_empty() the original characters are quote-removed
    rq = Q.find_calls(body, ['yash_env::semantics::expansion::attr::AttrField::remove_quotes_and_strip'])
    fb = []
    for b, t in rq:
        conds = Q.dominating_conditions(F, body, du, b)
        if any(Q.cond_is_call(org, ['alloc::vec::Vec::<T, A>::is_empty']) and lab == ('bool', True) for org, lab, e in conds):
            fb.append((b, t))
    cx.site('%s: fallback remove_quotes_and_strip under results.is_empty() x%d' % (body.fn, len(fb)))
    if len(fb) != 1:
        cx.violation(GLOB_FN, 'no-fallback', 'when nothing matches, glob must return the field itself with quotes removed',
                     loc=body.loc(body.d))
    else:
        t_field = Q.forward_taint(body, set(field_args), through_calls=[])
        agg = du.origin(fb[0][1]['a'][0])
        ok = False
        if agg['k'] == 'agg' and agg['rv'].get('adt', '').endswith('AttrField'):
            names = [f['name'] for f in F.adt('yash_env::semantics::expansion::attr::AttrField')['variants'][0]['fields']]
            o = agg['rv']['ops'][names.index('chars')]
            org = du.origin(o)
            ok = org['k'] == 'place' and org['pl']['l'] in field_args and \
                [e.get('f') for e in org['pl'].get('p') or [] if isinstance(e, dict)] == ['chars']
        elif Q.operand_local(fb[0][1]['a'][0]) in t_field:
            ok = True
        if not ok:
            cx.violation(GLOB_FN, 'fallback-other-text', 'the fallback result is not built from the characters of the original field',
                         loc=body.loc(fb[0][1]))


def _sorted_local(body, du, st):
    """The Vec local whose slice a sort call sorts."""
    l = Q.operand_local(st['a'][0])
    for _ in range(6):
        d = du.single_def(l)
        if d is None:
            return l
        if d[1] == 't':
            if Q.callee_is(d[2], [re.compile(r'Deref(Mut)?>::deref(_mut)?$'), re.compile(r'::as_mut_slice$')]):
                l = Q.operand_local(d[2]['a'][0])
                continue
            return l
        rv = d[2]['rv']
        if rv['k'] == 'ref':
            l = rv['pl']['l']
        elif rv['k'] == 'use' and Q.operand_local(rv['o']) is not None:
            l = Q.operand_local(rv['o'])
        else:
            return l
    return l


def _check_key(cx, F, cdef):
    """|f| f.value.clone() (or a borrow of it): the key is the pathname, not reversed."""
    cb = F.body(cdef)
    cx.fn(cdef)
    fields = set()
    for b, j, s in cb.stmts():
        if s['k'] == 'assign':
            for pl in Q.rvalue_places(s['rv']):
                for e in pl.get('p') or []:
                    if isinstance(e, dict) and 'f' in e:
                        fields.add((pl['l'], e['f']))
    rev = [s for b, j, s in cb.stmts() if s['k'] == 'assign' and s['rv']['k'] == 'agg' and 'Reverse' in str(s['rv'].get('adt'))]
    other_calls = [t for b, t in cb.calls() if not Q.callee_is(t, [re.compile(r'Clone>::clone$'), re.compile(r'::as_str$'), re.compile(r'Deref>::deref$')])]
    cx.site('%s: key reads %s' % (cdef, sorted(fields)))
    if fields != {(2, 'value')} or rev or other_calls:
        cx.violation(cdef, 'comparator', 'the sort key must be the pathname (field value), ascending', loc=cb.loc(cb.d))


def _check_comparator(cx, F, cdef):
    """|a, b| a.value.cmp(&b.value): ascending, on the pathname."""
    cb = F.body(cdef)
    cx.fn(cdef)
    du = Q.DefUse(cb)
    cmps = Q.find_calls(cb, [re.compile(r'^<(alloc::string::String|str) as core::cmp::Ord>::cmp$')])
    calls = list(cb.calls())
    ok = len(cmps) == 1 and len(calls) == 1 and cmps[0][1]['dest']['l'] == 0
    if ok:
        sides = []
        for a in cmps[0][1]['a']:
            org = du.origin(a)
            for _ in range(3):
                if org['k'] == 'ref':
                    pl = du.deref_origin(org['pl'])
                    if pl.get('p') and pl['p'] != ['*']:
                        break
                    org = du.origin_place({'l': pl['l']})
                else:
                    break
            if org['k'] == 'ref':
                pl = du.deref_origin(org['pl'])
                fs = [e.get('f') for e in pl.get('p') or [] if isinstance(e, dict) and 'f' in e]
                sides.append((pl['l'], fs))
            else:
                sides.append((None, None))
        cx.site('%s: compares %s' % (cdef, sides))
        ok = sides == [(1 + 1, ['value']), (1 + 2, ['value'])]     # _1 is the closure itself; _2 = a, _3 = b
    if not ok:
        cx.violation(cdef, 'comparator', 'the sort comparator must be a.value.cmp(&b.value) (ascending by pathname); a reversed or '
                     'different key delivers the matches in the wrong order', loc=cb.loc(cb.d))


def _private_helper_called_only_from(F, fn, allowed):
    """fn is a non-public method of SearchEnv (an extracted block) and every caller of it is in `allowed`."""
    sig = F.fns.get(fn)
    if sig is None or sig.get('vis') == 'pub' or '::SearchEnv::' not in fn:
        return False
    callers = F.callers_of(lambda names, t: fn in names)
    return bool(callers) and all(b.root in allowed for b, blk, t in callers)


@RS.rule('C05.R4', 'K-GUARD', 'noglob: no directory is scanned unless the Glob option is on; search_dir has no other entry')
def r4(cx):
    F = cx.F
    body = F.body(GLOB_FN)
    cx.fn(body.fn)
    du = Q.DefUse(body)
    sd = Q.find_calls(body, [SEARCH_DIR])
    cx.site('%s: search_dir x%d' % (body.fn, len(sd)))
    if len(sd) != 1:
        cx.violation(GLOB_FN, 'no-search', 'glob must start exactly one directory search', loc=body.loc(body.d))
        return

    def glob_test(org, lab):
        if org['k'] != 'call':
            return None
        t = org['t']
        neg = Q.callee_is(t, [re.compile(r'^<yash_env::option::State as core::cmp::PartialEq>::ne$')])
        if not neg and not Q.callee_is(t, [re.compile(r'^<yash_env::option::State as core::cmp::PartialEq>::eq$')]):
            return None
        sides = set()
        for a in t['a']:
            l = _behind(du, a)
            d = du.single_def(l) if l is not None else None
            if d and d[1] == 't' and Q.callee_is(d[2], ['yash_env::option::OptionSet::get']):
                og = du.origin(d[2]['a'][1])
                sides.add('get(%s)' % (og['rv'].get('variant') if og['k'] == 'agg' else '?'))
            elif d and d[1] != 't' and d[2]['k'] == 'assign' and d[2]['rv']['k'] == 'agg' and d[2]['rv'].get('adt') == 'yash_env::option::State':
                sides.add(d[2]['rv'].get('variant'))
        if sides != {'get(Glob)', 'Off'}:
            return None
        is_off = (lab[1] is True) if not neg else (lab[1] is False)
        return 'off' if is_off else 'on'
    conds = Q.dominating_conditions(F, body, du, sd[0][0])
    states = [glob_test(org, lab) for org, lab, e in conds]
    if 'on' not in states:
        cx.violation(GLOB_FN, 'scan-with-noglob', 'the directory search is not restricted to options.get(Glob) != Off: with `set -f` '
                     'patterns are still expanded', loc=body.loc(sd[0][1]))
    # on the Off edge the field itself is returned, quotes removed
    rq = Q.find_calls(body, ['yash_env::semantics::expansion::attr::AttrField::remove_quotes_and_strip'])
    off = [(b, t) for b, t in rq if 'off' in [glob_test(org, lab) for org, lab, e in Q.dominating_conditions(F, body, du, b)]]
    cx.site('%s: remove_quotes_and_strip on the Glob == Off edge x%d' % (body.fn, len(off)))
    field_args = [l for l in range(1, body.argc + 1) if 'AttrField' in body.locals[l]['ty']]
    if len(off) != 1 or _behind(du, off[0][1]['a'][0]) not in field_args:
        cx.violation(GLOB_FN, 'noglob-result', 'with the Glob option off the result must be the field itself with quotes removed',
                     loc=body.loc(body.d))
    # the search starts from the characters of the field and an empty prefix
    sa = du.origin(sd[0][1]['a'][1])
    t_field = Q.forward_taint(body, set(field_args))
    if Q.operand_local(sd[0][1]['a'][1]) not in t_field:
        cx.violation(GLOB_FN, 'search-other-text', 'the search does not run over the characters of the field', loc=body.loc(sd[0][1]))
    # entry points
    for prim, allowed in ((SEARCH_DIR, {GLOB_FN, PUSH_COMPONENT}), (PUSH_COMPONENT, {SEARCH_DIR}), (FILE_EXISTS, {PUSH_COMPONENT}),
                          (TO_PATTERN, {SEARCH_DIR})):
        for b2, blk, t2 in F.callers_of(lambda names, t: prim in names):
            cx.site('%s is called by %s at %s' % (prim.split('::')[-1], b2.root, b2.loc(t2)))
            if b2.root not in allowed and not _private_helper_called_only_from(F, b2.root, allowed):
                cx.violation(b2.root, 'caller:%s' % prim.split('::')[-1], '%s is entered from %s, bypassing the Glob option test / the '
                             'existence discipline' % (prim.split('::')[-1], b2.root), loc=b2.loc(t2))
    ods = F.callers_of(lambda names, t: any(n.endswith('::Open::opendir') for n in names), crates=None)
    for b2, blk, t2 in ods:
        if b2.crate in ('yash_semantics',) and b2.root != SEARCH_DIR:
            if _private_helper_called_only_from(F, b2.root, {SEARCH_DIR}):
                # an arm of search_dir extracted into a private method of SearchEnv that nothing else calls: still entered
                # only through search_dir, hence only on the Glob != Off edge
                cx.site('opendir in %s, a private helper called only by search_dir, at %s' % (b2.root, b2.loc(t2)))
                continue
            cx.violation(b2.root, 'caller:opendir', 'yash-semantics opens a directory outside search_dir', loc=b2.loc(t2))


def _chars_extern(F, feed):
    """extern callback for the interpreter running to_pattern::Chars::next: the inner iterator (the opaque ('O', 'inner')) yields the
    characters of `feed`, whether it is advanced by `for c in &mut self.inner`, by `self.inner.next()` (in a `loop { match .. }` /
    `while let`), or by `self.inner.find(closure)` (= next() until the closure says true); `by_ref()` is the iterator itself."""
    IT = 'core::iter::traits::iterator::Iterator::'

    def extern(name, recv, args, node):
        decl = (node.get('decl') if isinstance(node, dict) else None) or name
        if recv == ('O', 'inner'):
            if IT + 'next' in (name, decl) and not args:
                return V(SOME, feed.pop(0)) if feed else V(NONE)
            if IT + 'by_ref' in (name, decl) and not args:
                return recv
            if IT + 'find' in (name, decl) and len(args) == 1 and isinstance(args[0], tuple) and args[0] and args[0][0] == 'C':
                while feed:
                    x = feed.pop(0)
                    r = Interp(F, extern).call_closure(args[0], [x])
                    if not isinstance(r, bool):
                        raise Undecidable('Chars::next: the predicate given to find does not return a boolean')
                    if r:
                        return V(SOME, x)
                return V(NONE)
        raise Undecidable('Chars::next: call of %s is not modelled' % name)
    return extern


@RS.rule('C05.R5', 'K-EFFECT+K-TABLE', 'to_pattern: anchored at both ends with literal_period; quoted / hard-expansion characters are literals, quoting characters vanish; split at "/" first')
def r5(cx):
    F = cx.F
    body = F.body(TO_PATTERN)
    cx.fn(body.fn)
    # the Config VALUE that reaches parse_with_config (abstract evaluation through helpers: rules/C04.py _ConfigEval), whatever
    # function of the module builds it: Config::default() + field writes, a struct literal, a private `config()` ...
    pw = Q.find_calls(body, [PWC])
    if not pw:
        body = F.inlined(TO_PATTERN)          # the compile call itself moved into a private helper of the module
        pw = Q.find_calls(body, [PWC])
    cx.require(len(pw) == 1, 'expected one parse_with_config in to_pattern')
    fields = _config_fields(F)
    cx.require({'anchor_begin', 'anchor_end', 'literal_period'} <= set(fields), 'yash_fnmatch::Config has no anchor_begin / anchor_end / literal_period field')
    dflt = _config_default(F)
    cx.require(dflt is not None and all(len(dflt[f]) == 1 and '?' not in dflt[f] for f in fields), 'Config::default() could not be evaluated')
    val = _config_at_call(F, body, pw[0][0], pw[0][1]['a'][1])
    cx.site('%s: parse_with_config(chars, Config{%s}) at %s' % (body.fn, 'unknown' if val is None else
            ', '.join('%s=%s' % (f, '|'.join(sorted(val[f]))) for f in fields), body.loc(pw[0][1])))
    # a Config that cannot be followed at all (not built from Config::default() / a literal and constant writes in analysable
    # functions) is no verdict, not a violation: fail closed
    cx.require(val is not None, 'the Config given to parse_with_config in to_pattern cannot be followed to Config::default() and constant field writes')
    for f in ('anchor_begin', 'anchor_end', 'literal_period'):
        got = set(val[f])
        cx.cellcount(1)
        if got != {'true'}:
            what = {'anchor_begin': 'a pattern could match a name from its middle (`b*` matches `ab`)',
                    'anchor_end': 'a pattern could match a prefix of a name (`a` matches `ab`)',
                    'literal_period': 'wildcards could match a leading period (`*` matches `.hidden`)'}[f]
            cx.violation(TO_PATTERN, 'config:%s' % f, 'Config.%s is not set to true on every path to parse_with_config (found %s): %s%s'
                         % (f, sorted(got), what, ' [the value is not a constant]' if 'false' not in got else ''), loc=body.loc(pw[0][1]))
    for f in fields:
        if f in ('anchor_begin', 'anchor_end', 'literal_period'):
            continue
        cx.cellcount(1)
        if set(val[f]) != set(dflt[f]):
            cx.violation(TO_PATTERN, 'config-extra:%s' % f, 'to_pattern changes Config.%s, which pathname expansion leaves at its default '
                         '(%s; found %s)' % (f, '|'.join(sorted(dflt[f])), sorted(val[f])), loc=body.loc(pw[0][1]))
    # Chars::next table
    nxt = [k for k in F.hir if k.startswith('<' + TO_PATTERN + '::') and k.endswith('Iterator>::next')]
    cx.require(len(nxt) == 1, 'to_pattern::Chars::next not found')
    nfn = nxt[0]
    cx.fn(nfn)
    chars_adt = re.match(r'^<(.*?)<', nfn).group(1)
    feed = []

    extern = _chars_extern(F, feed)
    for nq in (False, True):
        for val in ('\\', 'x'):
            for org in _variants(F, ORIGIN):
                for quoted in (False, True):
                    for quoting in (False, True):
                        c = MutStruct(ATTRCHAR, {'value': val, 'origin': V('%s::%s' % (ORIGIN, org)), 'is_quoted': quoted, 'is_quoting': quoting})
                        feed[:] = [c]
                        me = MutStruct(chars_adt, {'inner': ('O', 'inner'), 'next_quoted': nq})
                        res = freeze(Interp(F, extern).call_fn(nfn, [me]))
                        cx.cellcount(1)
                        if quoting:
                            want, want_nq = V(NONE), None
                        elif nq or quoted or org == 'HardExpansion':
                            want, want_nq = V(SOME, V(PCHAR + '::Literal', val)), False
                        else:
                            want, want_nq = V(SOME, V(PCHAR + '::Normal', val)), (val == '\\')
                        cell = '%s/%s/%s/%s/%s' % ('after-backslash' if nq else 'plain', 'backslash' if val == '\\' else 'char', org,
                                                   'quoted' if quoted else 'unquoted', 'quoting' if quoting else 'nonquoting')
                        if res != want:
                            cx.violation(nfn, 'cell:' + cell, 'a %s character with origin=%s is_quoted=%s is_quoting=%s%s becomes %s in '
                                         'the pattern, expected %s: %s'
                                         % ('backslash' if val == '\\' else 'non-backslash', org, quoted, quoting,
                                            ' following an unquoted backslash' if nq else '', _short(res), _short(want),
                                            'quoted text or a tilde result would act as a wildcard' if _short(want).startswith('Some(Literal')
                                            else 'the character loses its pattern meaning or a quote mark becomes part of the name'),
                                         loc=_hloc(F, nfn))
                        elif want_nq is not None and me.fields['next_quoted'] is not want_nq:
                            cx.violation(nfn, 'escape-state:' + cell, 'after this character the iterator %s the next one as escaped'
                                         % ('treats' if me.fields['next_quoted'] else 'does not treat'), loc=_hloc(F, nfn))
    # to_pattern feeds the iterator with the characters of its argument, starting unescaped
    h = F.hir_of(TO_PATTERN)
    lits = [x for x in H.walk(h['body']) if x.get('k') == 'struct' and x['p'].get('def') == chars_adt]
    ok = len(lits) == 1
    if ok:
        fl = {f[0]: H.peel(f[1]) for f in lits[0]['fields']}
        ok = H.lit_value(fl.get('next_quoted')) is False and fl.get('inner', {}).get('k') == 'mcall' and \
            (fl['inner'].get('def') or '').endswith('::iter') and H.peel(fl['inner']['recv']).get('id') == h['params'][0].get('id')
    cx.site('%s: Chars { inner: field.iter(), next_quoted: false }' % TO_PATTERN)
    if not ok:
        cx.violation(TO_PATTERN, 'chars-init', 'the pattern character iterator must start unescaped over the characters of the component',
                     loc=_hloc(F, TO_PATTERN))
    # component split at '/', attributes ignored, before the pattern is compiled
    sb = F.body(SEARCH_DIR)
    cx.fn(sb.fn)
    sdu = Q.DefUse(sb)
    pos = Q.find_calls(sb, [re.compile(r'Iterator>::position$'), '*::Iterator::position'])
    tp = Q.find_calls(sb, [TO_PATTERN])
    cx.site('%s: position x%d, to_pattern x%d' % (sb.fn, len(pos), len(tp)))
    if len(pos) != 1 or len(tp) != 1:
        cx.violation(SEARCH_DIR, 'split-shape', 'search_dir must locate the first "/" once and compile one pattern per component',
                     loc=sb.loc(sb.d))
        return
    if not sb.dominates(pos[0][0], tp[0][0]):
        cx.violation(SEARCH_DIR, 'compile-before-split', 'a pattern is compiled before the component is cut at "/": `*` could match '
                     'across slashes', loc=sb.loc(tp[0][1]))
    clo = sdu.origin(pos[0][1]['a'][1])
    cx.require(clo['k'] == 'agg' and clo['rv'].get('ak') == 'closure', 'position predicate is not a closure')
    hs = F.hir_of(SEARCH_DIR)
    cn = [x for x in H.walk(hs['body']) if x.get('k') == 'closure' and x.get('def') == clo['rv']['def']]
    cx.require(len(cn) == 1, 'closure of position not found in HIR')
    it = Interp(F, lambda name, recv, args, node: (_ for _ in ()).throw(Undecidable('position predicate calls %s' % name)))
    for val in ('/', 'x', '\\'):
        for org in _variants(F, ORIGIN):
            for quoted in (False, True):
                for quoting in (False, True):
                    c = MutStruct(ATTRCHAR, {'value': val, 'origin': V('%s::%s' % (ORIGIN, org)), 'is_quoted': quoted, 'is_quoting': quoting})
                    r = it.call_closure(('C', cn[0], {}), [c])
                    cx.cellcount(1)
                    if r is not (val == '/'):
                        cx.violation(SEARCH_DIR, 'slash-predicate:%s/%s/%s/%s' % (repr(val), org, quoted, quoting),
                                     'the component separator test says %s for %r with origin=%s is_quoted=%s is_quoting=%s: every '
                                     'slash, quoted or not, separates components and nothing else does' % (r, val, org, quoted, quoting),
                                     loc=_hloc(F, SEARCH_DIR, cn[0]))
    # the component given to to_pattern ends before the slash; the rest starts after it
    t_pos = Q.forward_taint(sb, {pos[0][1]['dest']['l']})
    rng = [(b, j, s) for b, j, s in sb.stmts() if s['k'] == 'assign' and s['rv']['k'] == 'agg' and
           s['rv'].get('adt', '').startswith('core::ops::range::Range')]
    kinds = sorted(s['rv']['adt'].split('::')[-1] for b, j, s in rng)
    cx.site('%s: slices %s' % (sb.fn, kinds))
    if kinds != ['RangeFrom', 'RangeTo']:
        cx.violation(SEARCH_DIR, 'split-ranges', 'the field must be cut into [..index] and [index + 1..] at the slash (found %s)' % kinds,
                     loc=sb.loc(pos[0][1]))
    else:
        for b, j, s in rng:
            o = s['rv']['ops'][0]
            org = sdu.origin(o)
            if s['rv']['adt'].endswith('RangeTo'):
                good = Q.operand_local(o) in t_pos and org['k'] != 'binop' and not _is_plus(sb, sdu, o)
            else:
                good = Q.operand_local(o) in t_pos and _is_plus(sb, sdu, o)
            if not good:
                cx.violation(SEARCH_DIR, 'split-offset:%s' % s['rv']['adt'].split('::')[-1], 'the slash itself must belong to neither '
                             'the component nor the remaining suffix', loc=sb.loc(s))


def _is_plus(body, du, o):
    """operand = something + 1 (checked arithmetic lowers to AddWithOverflow + field .0)"""
    l = Q.operand_local(o)
    for _ in range(4):
        d = du.single_def(l) if l is not None else None
        if d is None or d[1] == 't' or d[2]['k'] != 'assign':
            return False
        rv = d[2]['rv']
        if rv['k'] == 'binop':
            return rv['op'] in ('Add', 'AddWithOverflow', 'AddUnchecked') and str(rv['b'].get('c', '')).startswith('1_')
        if rv['k'] == 'use' and Q.operand_local(rv['o']) is not None:
            l = Q.operand_local(rv['o'])
            continue
        return False
    return False


@RS.rule('C05.R1b', 'K-PASS', 'a directory entry is skipped only by the three reviewed tests (".", "..", pattern mismatch): no other condition can drop a matching name')
def r1b(cx):
    import mirq as Q
    import re as _re
    F = cx.F
    fn = [f for f in F.bodies if 'SearchEnv' in f and f.endswith('::search_dir')]
    cx.require(len(fn) == 1, 'SearchEnv::search_dir not found')
    b = _search_dir_body(F) if fn[0] == SEARCH_DIR else F.bodies[fn[0]]     # private helpers (fn search_entries) seen in place
    cx.fn(b.fn)
    for h in getattr(b, 'inlined_from', None) or []:
        cx.fn(h)
    du = Q.DefUse(b)
    pushes = [(blk, t) for blk, t in Q.find_calls(b, [_re.compile(r'::push_component$')])
              if 'const true' in [str(x) for x in Q.arg_names(b, du, t)]]
    cx.require(len(pushes) == 1, 'the push_component(.., true, ..) call was not found')
    pblk, pt = pushes[0]
    nes = [(blk, t) for blk, t in Q.find_calls(b, [_re.compile(r'PartialEq<.*>::(ne|eq)$'), _re.compile(r'PartialEq.*::(ne|eq)$')])
           if b.dominates(blk, pblk)]
    matches = [(blk, t) for blk, t in Q.find_calls(b, ['yash_fnmatch::Pattern::is_match']) if b.dominates(blk, pblk)]
    cx.require(nes and matches, 'the entry tests (name != "." / ".." and is_match) were not found before the push')
    start = min(blk for blk, _ in nes)
    nexts = [blk for blk, t in Q.find_calls(b, [_re.compile(r'::Dir::next$'), _re.compile(r'Dir>::next$')])]
    cx.require(nexts, 'Dir::next not found in search_dir')
    allowed = set()
    for u in b.live_blocks():
        ec = Q.edge_condition(F, b, du, u)
        if not ec:
            continue
        org, labels = ec
        for tgt, labs in labels.items():
            for lab in labs:
                if org['k'] == 'call' and Q.callee_is(org['t'], [_re.compile(r'PartialEq.*::ne$')]) and lab == ('bool', False):
                    allowed.add((u, tgt))
                if org['k'] == 'call' and Q.callee_is(org['t'], [_re.compile(r'PartialEq.*::eq$')]) and lab == ('bool', True):
                    allowed.add((u, tgt))
                if org['k'] == 'call' and Q.callee_is(org['t'], ['yash_fnmatch::Pattern::is_match']) and lab == ('bool', False):
                    allowed.add((u, tgt))
                if org['k'] == 'discr' and lab[0] == 'variant' and lab[1] in ('None', 'Err'):
                    allowed.add((u, tgt))
    goals = set(nexts) | set(b.return_blocks())
    cx.site('%s: from the first entry test (bb%d) every path that avoids the push passes a reviewed rejection edge (%d edges)'
            % (b.fn, start, len(allowed)))
    p = b.shortest_path(start, goals, removed={pblk}, removed_edges=allowed)
    if p is not None:
        cx.violation(b.root, 'entry-dropped-by-unreviewed-test', 'a directory entry can be skipped without being ".", ".." or a pattern mismatch: '
                     'an additional filter in the scan loop makes pathname expansion omit existing matching names (e.g. dot files '
                     'when the leading period of the pattern is quoted)', loc=b.loc(b.term(p[min(len(p) - 1, 1)])), path=Q.render_path(b, p))


@RS.rule('C05.R2b', 'K-PASS', 'when components remain, push_component always descends: no test (file type, symlink, name) may prune the search below a pushed component')
def r2b(cx):
    import mirq as Q
    F = cx.F
    body = _push_component_body(F)
    cx.fn(body.fn)
    du = Q.DefUse(body)
    rec = Q.find_calls(body, [SEARCH_DIR])
    cx.require(rec, 'push_component does not call search_dir (C05.R2 reports that)')
    starts = []
    for u in body.live_blocks():
        ec = Q.edge_condition(F, body, du, u)
        if not ec:
            continue
        org, labels = ec
        if org['k'] == 'discr' and 'Option' in org['ty'] and org['pl']['l'] <= body.argc:
            for tgt, labs in labels.items():
                if ('variant', 'Some') in labs and ('variant', 'None') not in labs:
                    starts.append(tgt)
    cx.require(starts, 'the test of `suffix` (Some = components remain) was not found in push_component')
    cx.site('%s: from the `suffix is Some` edge (bb%s) every path to the return passes search_dir' % (body.fn, sorted(set(starts))))
    p = Q.must_pass(body, starts, {b for b, _ in rec})
    if p is not None:
        cx.violation(PUSH_COMPONENT, 'descent-pruned', 'push_component can return without searching the remaining components although '
                     'components remain: a shortcut that prunes the descent (e.g. "the entry is not a directory" decided without '
                     'following symbolic links) makes pathname expansion omit existing matching paths such as link/*',
                     loc=body.loc(body.term(p[min(len(p) - 1, 1)])), path=Q.render_path(body, p))


@RS.rule('C05.R2c', 'K-SIBLING', 'a literal component exists iff the directory scan would list it: the existence test looks at the directory entry '
         'itself and does not follow a symbolic link in the last component (a dangling link is an existing, matching pathname)')
def r2c(cx):
    import mirq as Q
    F = cx.F
    fb = F.body(FILE_EXISTS)
    cx.fn(fb.fn)
    st = Q.find_calls(fb, ['*::Fstat::fstatat'])
    cx.require(len(st) == 1, 'file_exists does not call fstatat exactly once (C05.R2 reports that)')
    t = st[0][1]
    flag = t['a'][-1]
    val = str(flag.get('c')) if isinstance(flag, dict) and 'c' in flag else None
    cx.site('%s: fstatat(.., follow_symlinks = %s) at %s; the scan (Dir::next) lists every entry, dangling links included' % (fb.fn, val, fb.loc(t)))
    if val is None:
        cx.violation(FILE_EXISTS, 'follow-flag-computed', 'the follow-symlinks flag of the existence test is not a constant: review', loc=fb.loc(t))
    elif val.endswith('true'):
        cx.violation(FILE_EXISTS, 'existence-follows-symlink', 'the existence test of a literal last component follows symbolic links, the '
                     'directory scan of a pattern component does not: with `ln -s /nonexistent d/link`, `echo */lin*` prints d/link but '
                     '`echo */link` prints */link - an existing matching pathname is omitted, depending on how the same name is spelled',
                     loc=fb.loc(t))


# --- explanation addendum (generated catalogue in DESIGN.md reads RS.explanation)
RS.explanation += ' Added later: when components remain the search always descends (R2b); the existence test of a literal component does not follow a final symbolic link, like the directory scan (R2c).'


# shared with C19 (the simulated kernel pathname expansion is tested against): a literal component followed by `..` exists only if
# the tree resolution finds it - `nx/../[ab]` must stay unexpanded when `nx` does not exist
from rules.C19 import r16 as _c19_dotdot_resolved_in_tree
from engine import Rule
RS.rules.append(Rule('C05.R6', 'K-TAINT', 'the existence tests of pathname expansion (fstatat / opendir of the simulated kernel) resolve `..` '
                     'against the directory tree: no lexically shortened pathname reaches FileSystem::get, so `nx/../*` yields no '
                     'non-existing pathnames (C19.R16)', _c19_dotdot_resolved_in_tree))
RS.explanation += ' Added in wave 3: the simulated kernel behind fstatat/opendir resolves `..` in the directory tree, never lexically (R6 = C19.R16).'


# --- C05.R7: the scan loop is left only at the end of the directory or with a Break -------------------------------------------
_WRAPPED_ENTRY = re.compile(r"^(?:(?:core::result::Result|core::option::Option)<)+yash_env::system::file_system::DirEntry\b")
_ADAPTORS = [re.compile(r'^core::(option::Option|result::Result)::<.*>::\w+$')]
_FROM_RESIDUAL = [re.compile(r'FromResidual<.*>::from_residual$')]
_CF = 'core::ops::control_flow::ControlFlow'


def _search_dir_body(F):
    """search_dir with its private helpers inlined (one level); the mutually recursive pair and the reviewed leaves stay calls."""
    from facts import same_module_private
    acc = same_module_private(F, SEARCH_DIR)
    return F.inlined(F.body(SEARCH_DIR), accept=lambda n: acc(n) and n not in (FILE_EXISTS, SEARCH_DIR, PUSH_COMPONENT, TO_PATTERN))


def _comes_from(du, local, target, depth=10):
    """`local` holds the value of `target` (the destination of Dir::next), moved, borrowed, or passed through
    Option/Result adaptors (ok, flatten, unwrap_or, ..): still "the answer of readdir", not something computed from an entry."""
    for _ in range(depth):
        if local == target:
            return True
        d = du.single_def(local)
        if d is None:
            return False
        if d[1] == 't':
            if not Q.callee_is(d[2], _ADAPTORS) or not d[2]['a']:
                return False
            local = Q.operand_local(d[2]['a'][0])
        elif d[2]['k'] == 'assign' and d[2]['rv']['k'] == 'ref':
            local = d[2]['rv']['pl']['l']
        elif d[2]['k'] == 'assign' and d[2]['rv']['k'] == 'use':
            local = Q.operand_local(d[2]['rv']['o'])
        else:
            return False
        if local is None:
            return False
    return False


def _is_end_of_directory(du, org, labs, next_dest):
    """The switch tests the (Result/Option-wrapped) answer of Dir::next itself and this edge is its None / Err side."""
    if org['k'] != 'discr':
        return False
    ty = org['ty'].lstrip('&').strip()
    ty = ty[4:] if ty.startswith('mut ') else ty
    if not _WRAPPED_ENTRY.match(ty):
        return False
    if not _comes_from(du, org['pl']['l'], next_dest):
        return False
    return bool(labs) and all(lab in (('variant', 'None'), ('variant', 'Err')) for lab in labs)


def _return_value_kinds(F, body, du):
    """block -> [kind of each write of the return place in that block, in order]: 'break' if the value written is certainly
    ControlFlow::Break, else 'other'."""
    out = {}
    for b in sorted(body.live_blocks()):
        kinds = []
        for s in body.blocks[b]['s']:
            if s['k'] != 'assign' or s['lhs']['l'] != 0:
                continue
            rv = s['rv']
            kind = 'other'
            if not s['lhs'].get('p'):
                if rv['k'] == 'agg' and rv.get('adt') == _CF:
                    kind = 'break' if rv.get('variant') == 'Break' else 'other'
                elif rv['k'] == 'use':
                    org = du.origin(rv['o'])
                    if org['k'] == 'agg' and org['rv'].get('adt') == _CF and org['rv'].get('variant') == 'Break':
                        kind = 'break'
                    elif _known_break(F, body, du, rv['o'], b):
                        kind = 'break'
            kinds.append(kind)
        t = body.term(b)
        if t['k'] == 'call' and t['dest']['l'] == 0:
            # in a function returning ControlFlow<B, ()> the residual of `?` is ControlFlow<B, Infallible>: always Break
            kinds.append('break' if Q.callee_is(t, _FROM_RESIDUAL) and not t['dest'].get('p') else 'other')
        if kinds:
            out[b] = kinds
    return out


def _known_break(F, body, du, operand, block):
    """`return r` where r is a ControlFlow known to be Break here (matched as Break / r.is_break() / !r.is_continue())."""
    l = _behind(du, operand)
    if l is None or not body.locals[l]['ty'].startswith(_CF):
        return False
    for org, lab, e in Q.implied_conditions(F, body, du, block):
        if org['k'] == 'discr' and lab == ('variant', 'Break') and _behind(du, {'cp': {'l': org['pl']['l']}}) == l and not org['pl'].get('p'):
            return True
        if org['k'] == 'call' and org['t']['a'] and _behind(du, org['t']['a'][0]) == l:
            if Q.callee_is(org['t'], [re.compile(r'ControlFlow::<.*>::is_break$')]) and lab == ('bool', True):
                return True
            if Q.callee_is(org['t'], [re.compile(r'ControlFlow::<.*>::is_continue$')]) and lab == ('bool', False):
                return True
    return False


def _test_name(body, du, org):
    """Stable, position-free name of what a loop exit tests (for the violation key)."""
    if org is None:
        return 'unconditional'
    if org['k'] == 'call':
        return _callee_short(org['t'])
    if org['k'] == 'discr':
        src = Q.value_source(body, du, {'cp': {'l': org['pl']['l']}})
        if src is not None:
            return _callee_short(src)
        return 'match on ' + re.sub(r"<.*$", '', org['ty']).split('::')[-1]
    return org['k']


def _callee_short(t):
    n = t['f'].get('def') or t['f'].get('decl') or '?'
    n = re.sub(r'<[^<>]*>', '', re.sub(r'<[^<>]*>', '', n))
    return '::'.join(n.split('::')[-2:])


@RS.rule('C05.R7', 'K-PASS', 'the directory scan ends only when readdir says so: the loop over Dir::next is left at the end-of-directory '
         '(None / error) edge or with a Break; a test on one entry may skip that entry, never the rest of the directory')
def r7(cx):
    F = cx.F
    body = _search_dir_body(F)
    cx.fn(body.fn)
    du = Q.DefUse(body)
    cx.require(body.locals[0]['ty'].startswith(_CF), 'search_dir does not return a ControlFlow any more: review C05.R7')
    nexts = Q.find_calls(body, ['*::Dir::next'])
    cx.require(len(nexts) >= 1, 'Dir::next not found in search_dir')
    writes = _return_value_kinds(F, body, du)
    rets = set(body.return_blocks())
    for nb, nt in nexts:
        loop = {b for b in body.reachable(nb) if nb in body.reachable(b)}
        if nb not in loop or len(loop) < 2:
            cx.violation(SEARCH_DIR, 'scan-not-a-loop', 'Dir::next is not called in a loop: at most one entry of the directory is examined',
                         loc=body.loc(nt))
            continue
        next_dest = nt['dest']['l']
        exits = sorted((u, v) for u in loop for v in body.succ(u) if v not in loop)
        eod = 0
        for u, v in exits:
            ec = Q.edge_condition(F, body, du, u)
            org, labs = (ec[0], ec[1].get(v, [])) if ec else (None, [])
            if not any(r in rets for r in body.reachable(v)):
                continue            # unreachable!() / diverging arm: not a way out of the scan
            if org is not None and _is_end_of_directory(du, org, labs, next_dest):
                eod += 1
                cx.site('%s: scan loop exit at %s: Dir::next answered %s (end of directory)'
                        % (body.fn, body.loc(body.term(u)), '/'.join(l[1] for l in labs)))
                continue
            # any other way out must abandon the whole expansion (Break), never "go on" (Continue) with the directory half read
            bad = _path_returning_non_break(body, v, writes, rets)
            what = _test_name(body, du, org)
            cx.site('%s: scan loop exit at %s decided by %s: %s' % (body.fn, body.loc(body.term(u)), what,
                                                                     'returns Break' if bad is None else 'does NOT return Break'))
            if bad is not None:
                cx.violation(SEARCH_DIR, 'scan-abandoned-without-break:%s' % what,
                             'the scan of a directory can stop before Dir::next reported the end of the directory (exit decided by %s) and '
                             'the search then goes on as if the directory had been read completely: every entry the stream would have '
                             'yielded later is never examined, so existing matching pathnames are omitted, depending on readdir order '
                             '(a test on one entry may only skip to the next entry)' % what,
                             loc=body.loc(body.term(u)), path=Q.render_path(body, [u] + bad))
        if eod == 0:
            cx.violation(SEARCH_DIR, 'no-end-of-directory-exit', 'the scan loop has no exit on Dir::next answering None / an error: the end '
                         'of the directory is not what ends the scan', loc=body.loc(nt))


_BRANCH = [re.compile(r'^<core::ops::control_flow::ControlFlow<.*> as core::ops::try_trait::Try>::branch$')]


def _plain_local(o):
    pl = o.get('cp') or o.get('mv') if isinstance(o, dict) else None
    return pl['l'] if pl is not None and not pl.get('p') else None


def _path_returning_non_break(body, start, writes, rets):
    """A path from `start` to a return on which the last value written to the return place is not certainly Break (None if
    there is none). The state on entry is 'other': a value written before the loop was left does not count.

    The walk is value-sensitive for ControlFlow temporaries: a local assigned ControlFlow::Break (or the residual of `?`), moved,
    or passed through Try::branch is known to be Break along the path, and a switch on its discriminant takes the Break arm only.
    That is how the Break of an extracted helper (`fn search_entries(..) -> ControlFlow<..>`, inlined: its return local is tested
    by the caller's `?`) is followed to the caller's return instead of being lost at the merge in the helper's return block."""
    from collections import deque

    def is_cf(l):
        return body.locals[l]['ty'].startswith(_CF)
    first = (start, 'other', frozenset())
    prev = {first: None}
    q = deque([first])
    while q:
        node = q.popleft()
        b, st, brk = node
        brk = set(brk)
        kinds = list(writes.get(b, ()))
        discr_of = {}
        for s in body.blocks[b]['s']:
            if s['k'] != 'assign':
                continue
            lhs, rv = s['lhs'], s['rv']
            if lhs.get('p'):
                if lhs['l'] == 0:
                    st = kinds.pop(0) if kinds else 'other'
                brk.discard(lhs['l'])
                continue
            x = lhs['l']
            src = _plain_local(rv['o']) if rv['k'] == 'use' else None
            is_break = (rv['k'] == 'agg' and rv.get('adt') == _CF and rv.get('variant') == 'Break') or (src is not None and src in brk)
            if rv['k'] == 'discr' and not rv['pl'].get('p'):
                discr_of[x] = rv['pl']['l']
            else:
                discr_of.pop(x, None)
            if x == 0:
                k = kinds.pop(0) if kinds else 'other'
                st = 'break' if is_break else k
            if is_break:
                brk.add(x)
            else:
                brk.discard(x)
        t = body.term(b)
        succs = list(body.succ(b))
        if t['k'] == 'call' and not t['dest'].get('p'):
            x = t['dest']['l']
            a0 = _plain_local(t['a'][0]) if t['a'] else None
            is_break = is_cf(x) and ((Q.callee_is(t, _BRANCH) and a0 in brk) or Q.callee_is(t, _FROM_RESIDUAL))
            if x == 0:
                k = kinds.pop(0) if kinds else 'other'
                st = 'break' if is_break else k
            if is_break:
                brk.add(x)
            else:
                brk.discard(x)
        elif t['k'] == 'switch':
            d = _plain_local(t['d'])
            if d in discr_of and discr_of[d] in brk:
                tmap = {int(v): tb for v, tb in t['ts']}
                succs = [tmap.get(1, t.get('else'))]          # ControlFlow: Continue = 0, Break = 1
        if b in rets:
            if st != 'break':
                path = []
                while node is not None:
                    path.append(node[0])
                    node = prev[node]
                return path[::-1]
            continue
        nb = frozenset(brk)
        for s2 in succs:
            if s2 is None:
                continue
            if (s2, st, nb) not in prev:
                prev[(s2, st, nb)] = node
                q.append((s2, st, nb))
    return None


# shared with C19 (seed C05-s8): a pattern followed by a trailing `/` (or by a literal `.`) lists directories only. The existence test
# of the last component is fstatat(nofollow) = FileSystem::get of the simulated kernel, whose trailing-slash test must refuse every
# file kind but a directory (a symbolic link included: get does not follow links)
from rules.C19 import r19b as _c19_kind_tests_accept_directories_only
RS.rules.append(Rule('C05.R8', 'K-TABLE', 'a pathname that ends with `/` or `/.` exists only if its last file is a directory: the path walk '
                     'behind the existence tests of pathname expansion (fstatat / opendir of the simulated kernel -> FileSystem::get) lets no '
                     'other FileBody variant through its kind tests - not a symbolic link either, since the walk does not follow links - so '
                     '`d/*/` yields no links to regular files and no dangling links (C19.R19b)', _c19_kind_tests_accept_directories_only))
RS.explanation += (' The scan loop over Dir::next is left only at the end-of-directory edge or with a Break (R7). The simulated path walk '
                   'behind fstatat lets only a Directory through a trailing `/` or `/.` (R8 = C19.R19b).')


# ---------------------------------------------------------------------------------------
# added in wave 5 (reported as pre-existing by seed agent C05w5; sibling of C04.R9 / fix acc0ea7)
@RS.rule('C05.R9', 'K-TABLE', 'an unquoted backslash coming from an expansion escapes the next character OF THE PATTERN in pathname expansion too: '
         'the pattern character iterator of to_pattern, evaluated on every two-element sequence (quoting character, character) in both '
         'escape states, carries the escape state over a quoting character unchanged - the quoting character (an empty pair of quotes '
         'after the backslash) is not part of the pattern and must not use the escape up (C04.R9 is the same clause for case / trim)')
def r9(cx):
    F = cx.F
    nxt = [k for k in F.hir if k.startswith('<' + TO_PATTERN + '::') and k.endswith('Iterator>::next')]
    cx.require(len(nxt) == 1, 'to_pattern::Chars::next not found')
    nfn = nxt[0]
    cx.fn(nfn)
    chars_adt = re.match(r'^<(.*?)<', nfn).group(1)
    feed = []

    extern = _chars_extern(F, feed)

    def ac(val, org, quoted, quoting):
        return MutStruct(ATTRCHAR, {'value': val, 'origin': V('%s::%s' % (ORIGIN, org)), 'is_quoted': quoted, 'is_quoting': quoting})
    for nq in (False, True):
        for qval in ('"', "'", '\\'):
            for qorg in _variants(F, ORIGIN):
                for qquoted in (False, True):
                    for nquoting in (1, 2):
                        for val in ('*', '\\'):
                            feed[:] = [ac(qval, qorg, qquoted, True) for _ in range(nquoting)] + [ac(val, 'SoftExpansion', False, False)]
                            me = MutStruct(chars_adt, {'inner': ('O', 'inner'), 'next_quoted': nq})
                            res = freeze(Interp(F, extern).call_fn(nfn, [me]))
                            cx.cellcount(1)
                            want = V(SOME, V(PCHAR + ('::Literal' if nq else '::Normal'), val))
                            want_nq = (not nq) and val == '\\'
                            cell = '%s/%dx quoting %s %s %s/then %s' % ('after-backslash' if nq else 'plain', nquoting, repr(qval), qorg,
                                                                      'quoted' if qquoted else 'unquoted', 'backslash' if val == '\\' else 'star')
                            if res != want:
                                cx.violation(nfn, 'escape-used-up-by-quoting-character' if nq else 'quoting-character-escapes',
                                             'after %s, %d quoting character(s) and then an unquoted %r from an expansion give %s, expected %s: '
                                             'with p=\'\\\', `echo $p""*` treats the `*` as a wildcard although `echo $p*` takes it literally '
                                             '(dash, bash: both literal)'
                                             % ('an unquoted backslash' if nq else 'an ordinary character', nquoting, val, _short(res), _short(want)),
                                             loc=_hloc(F, nfn))
                            elif me.fields['next_quoted'] is not want_nq:
                                cx.violation(nfn, 'escape-state-after-quoting-character:' + cell, 'after this sequence the iterator %s the next '
                                             'character as escaped' % ('treats' if me.fields['next_quoted'] else 'does not treat'), loc=_hloc(F, nfn))
    cx.site('%s: escape state carried over quoting characters (2 states x 3 quote marks x origins x quoted x 1-2 marks x 2 followers)' % nfn)


RS.explanation += (' The escape state of the pattern character iterator survives quoting characters: a backslash from an expansion escapes the '
                   'next character of the pattern, not an empty pair of quotes (R9, sibling of C04.R9).')


# --- wave 5 (seed C05-s10): the directory scan needs a descriptor; the simulated opendir must take the lowest free one, as open does
from rules.C19 import r28 as _c19_lowest_free_descriptor
RS.rules.append(Rule('C05.R10', 'K-SIBLING', 'pathname expansion never omits a match because the directory scan could not get a descriptor '
                     'that was free: the simulated opendir behind search_dir allocates the lowest free descriptor (as a real open + '
                     'fdopendir does), not one above a constant bound - under `ulimit -n 10` with descriptors 3-9 free, `dir/*` still '
                     'lists the directory (C19.R28)', _c19_lowest_free_descriptor))
RS.explanation += ' The simulated opendir takes the lowest free descriptor, so a low descriptor limit does not hide matches (R10 = C19.R28).'
