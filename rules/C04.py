"""C04 - pattern matching: the fnmatch -> regex translation accepts exactly the POSIX language.

Structural clauses decided here (see DESIGN.md 4/C04):
  R1  no character taken from the pattern reaches the regex text unescaped (taint + escape structure)
  R2  the escape tables are the metacharacter set of the locked regex-syntax; regex dialect switches
  R3  only PatternChar::Normal gives a character syntactic meaning (quoted characters stay literal)
  R4  who compiles patterns, and where Normal pattern characters are made
  R5  anchoring / shortest-longest / first matching case item tables
Not decided: that the produced regex denotes the POSIX language in general."""
import glob
import json
import os
import re

from engine import RuleSet
import mirq as Q
import hirq as H
import pp

RS = RuleSet(
    'C04',
    explanation=(
        'Taint, guard and table rules over the MIR/HIR of yash-fnmatch and its three consumers: every character or '
        'string that originates in the pattern AST reaches the regex text only through the escape-if-special '
        'structure (a backslash is written exactly when a membership test in an escape table succeeded), through a '
        'validated class name, or not at all; the escape tables equal the metacharacter set of the regex-syntax '
        'version in Cargo.lock (read from the registry source at check time) and the regex is built with the '
        'reviewed dialect switches only; in the pattern parser every literal that gives a character syntactic '
        'meaning sits under PatternChar::Normal and values obtained through char_value() are never tested again; '
        'patterns are compiled only by case/trim/glob from iterators that produce Normal only for unquoted '
        'characters; the anchoring and greediness tables of case, trim and the literal fast path are the POSIX ones.'),
    not_decided='that the produced regex denotes the POSIX language in general (semantics of the regex engine, '
                'ranges with multi-character endpoints, locale classes); matching results for particular strings',
    trusted=['regex_syntax::is_meta_character of the locked version is the complete list of characters that are '
             'special somewhere in the regex dialect',
             'characters special only inside a regex character class: & - ~ (set operators and ranges); # only in '
             'verbose mode (transcribed in rules/C04.py)'],
    assumptions=['taint is flow-insensitive per local and follows assignments, all calls and &mut arguments',
                 'dominance is computed on normal control flow (unwind edges dropped)'],
)

REGEX_MOD = 'yash_fnmatch::ast::regex::'
PARSE_MOD = 'yash_fnmatch::ast::parse::'
AST_ADTS = ('yash_fnmatch::ast::Atom', 'yash_fnmatch::ast::BracketAtom', 'yash_fnmatch::ast::BracketItem',
            'yash_fnmatch::ast::Bracket', 'yash_fnmatch::ast::Ast')
WRITE_SINKS = ['core::fmt::Write::write_str', 'core::fmt::Write::write_char', 'core::fmt::Write::write_fmt']
TEXT_TY = re.compile(r'^(&(mut )?)*(char|str|alloc::string::String)$')
DYN_WRITE = 'dyn core::fmt::Write'
# calls that hand on the very same text (no character is added, dropped or changed)
IDENTITY_CALLS = ['*::Deref::deref', 'core::ops::deref::Deref::deref', 'alloc::string::String::as_str',
                  '*::AsRef::as_ref', '*::Borrow::borrow', '*::Clone::clone',
                  "core::fmt::rt::Argument::<'_>::new_display", "core::fmt::Arguments::<'a>::new"]
# calls whose result is an escaped (regex-literal) rendering of the argument
ESCAPERS = ['regex_syntax::escape', 'regex::escape', 'regex_syntax::escape_into']
CLASS_VALIDATORS = ['regex_syntax::ast::ClassAsciiKind::from_name']
META_TESTS = ['regex_syntax::is_meta_character']


# ------------------------------------------------------------------ helpers (candidates for promotion to mirq)
def _is_text_ty(ty):
    return bool(TEXT_TY.match(ty or ''))


def _place_seed(p):
    """('Adt::Variant.field') if place p reads a character/string field of an AST node."""
    proj = p.get('p') or []
    variant = None
    for e in proj:
        if isinstance(e, dict) and 'v' in e:
            variant = e['v']
        if isinstance(e, dict) and 'f' in e and e.get('adt') in AST_ADTS and _is_text_ty(e.get('ty')):
            adt = e['adt'].split('::')[-1]
            return '%s::%s.%s' % (adt, variant, e['f']) if variant else '%s.%s' % (adt, e['f'])
    return None


def _seeds(body):
    """{label: set(locals)}: parameters of text type, closure captures of text type, and locals assigned from a
    text field of an AST node."""
    out = {}
    for l in range(1, body.argc + 1):
        if _is_text_ty(body.locals[l]['ty']):
            out.setdefault('param %s' % body.local_name(l), set()).add(l)
    for b, j, s in body.stmts():
        if s['k'] != 'assign':
            continue
        for p in Q.rvalue_places(s['rv']):
            lab = _place_seed(p)
            if lab is None:
                # captured variable of a closure (field of the environment) with text type
                proj = p.get('p') or []
                for e in proj:
                    if isinstance(e, dict) and 'f' in e and '{closure' in (e.get('adt') or '') and _is_text_ty(e.get('ty')):
                        lab = 'capture %s' % e['f']
            if lab is not None:
                out.setdefault(lab, set()).add(s['lhs']['l'])
    for b, t in body.calls():
        for a in t['a']:
            p = Q.operand_place(a)
            if p is not None and _place_seed(p):
                out.setdefault(_place_seed(p), set()).add(t['dest']['l'])
    return out


def _taint(body, du, seeds, through=None, stop=None):
    """Forward taint over locals: assignments, calls (all, or only `through`), and locals behind `&mut`
    arguments of a call that also receives tainted data (a buffer the callee may copy the data into); the
    regex writer itself is not a buffer in this sense."""
    tainted = set(seeds)
    changed = True
    while changed:
        changed = False
        for i, j, s in body.stmts():
            if s['k'] != 'assign' or s['lhs']['l'] in tainted:
                continue
            if any(p['l'] in tainted for p in Q.rvalue_places(s['rv'])):
                tainted.add(s['lhs']['l'])
                changed = True
        for i, t in body.calls():
            if stop is not None and Q.callee_is(t, stop):
                continue
            if through is not None and not Q.callee_is(t, through):
                continue
            if not any(Q.operand_local(a) in tainted for a in t['a'] if Q.operand_local(a) is not None):
                continue
            new = {t['dest']['l']}
            for a, ty in zip(t['a'], t.get('at') or []):
                if ty.startswith('&mut ') and DYN_WRITE not in ty and Q.operand_local(a) is not None:
                    new.add(Q.operand_local(a))
                    org = du.origin(a)
                    if org['k'] == 'ref':
                        new.add(org['pl']['l'])
            if not new <= tainted:
                tainted |= new
                changed = True
    return tainted


def _const_of(du, operand, depth=5):
    """The constant operand an operand is a (re)borrow/copy of, or None."""
    o = operand
    for _ in range(depth):
        if 'cp' not in o and 'mv' not in o:
            return o
        p = Q.operand_place(o)
        d = du.single_def(p['l'])
        if d is None or d[1] == 't' or d[2]['k'] != 'assign':
            return None
        rv = d[2]['rv']
        if rv['k'] == 'use':
            o = rv['o']
        elif rv['k'] == 'ref':
            o = {'cp': rv['pl']}
        else:
            return None
    return None


def _char_const(o):
    """Python char of a constant char operand ('x' rendering), or None."""
    if o is None or o.get('ty') != 'char' or 'c' not in o:
        return None
    txt = o['c']
    if len(txt) >= 3 and txt[0] == "'" and txt[-1] == "'":
        inner = txt[1:-1]
        return {'\\\\': '\\', "\\'": "'", '\\n': '\n', '\\t': '\t'}.get(inner, inner)
    return None


def _switch_edges_of_call(F, body, du, call_term):
    """(true edges, false edges) of the switches that test the bool returned by call_term."""
    te, fe = [], []
    for b in sorted(body.live_blocks()):
        ec = Q.edge_condition(F, body, du, b)
        if ec is None:
            continue
        org, labels = ec
        if org['k'] != 'call' or org['t'] is not call_term:
            continue
        for tgt, labs in labels.items():
            if ('bool', True) in labs:
                te.append((b, tgt))
            if ('bool', False) in labs:
                fe.append((b, tgt))
    return te, fe


def _writes(body):
    return [(b, t) for b, t in body.calls() if Q.callee_is(t, WRITE_SINKS)]


def _escape_structure(F, body, du, sink_block, ident):
    """Is write_char(x) in sink_block the tail of `if x in SET.. { write '\\\\' } write x`?

    Returns (reason or None, [names of the sets tested]). Soundness conditions:
      S1 with the backslash writes removed, the sink is reachable only over the FALSE edge of every membership test;
      S2 a backslash write is reachable only over the TRUE edge of some membership test;
      S3 nothing else is written between the backslash and the character, and the character always follows."""
    guards = []
    for b, t in body.calls():
        if Q.callee_is(t, ['core::str::<impl str>::contains']) and len(t['a']) == 2 and Q.operand_local(t['a'][1]) in ident:
            c = _const_of(du, t['a'][0])
            if c is not None and c.get('cdef'):
                guards.append((b, t, c['cdef']))
        elif Q.callee_is(t, META_TESTS) and Q.operand_local(t['a'][0]) in ident:
            guards.append((b, t, 'regex_syntax::is_meta_character'))
    if not guards:
        return 'no membership test of the character in an escape table', []
    esc = {b for b, t in _writes(body) if Q.callee_is(t, ['core::fmt::Write::write_char'])
           and _char_const(t['a'][1]) == '\\'}
    if not esc:
        return 'no backslash is ever written', [g[2] for g in guards]
    true_edges = []
    for gb, gt, name in guards:
        te, fe = _switch_edges_of_call(F, body, du, gt)
        if not te or not fe:
            return 'result of the membership test in %s is not branched on directly' % name.split('::')[-1], [g[2] for g in guards]
        true_edges += te
        for e in fe:
            if sink_block in body.reachable(0, removed=esc, removed_edges={e}):
                return ('the character can be written without a backslash although the test against %s did not '
                        'fail' % name.split('::')[-1]), [g[2] for g in guards]
    for e in esc:
        if e in body.reachable(0, removed_edges=set(true_edges)):
            return 'a backslash is written on a path where no membership test succeeded', [g[2] for g in guards]
        if Q.must_pass(body, body.succ(e), {sink_block}) is not None:
            return 'after the backslash the character itself is not always written', [g[2] for g in guards]
        between = body.reachable(e, removed={sink_block}) - {e}
        for wb, wt in _writes(body):
            if wb in between and sink_block in body.reachable(wb):
                return 'something else is written between the backslash and the character', [g[2] for g in guards]
    return None, [g[2] for g in guards]


def _validated_class(F, body, du, sink_block, ident):
    """The sink is dominated by the Some/true edge of ClassAsciiKind::from_name(<same text>)."""
    for org, lab, e in Q.dominating_conditions(F, body, du, sink_block):
        call = None
        if org['k'] == 'call' and Q.callee_is(org['t'], ['core::option::Option::<T>::is_some']) and lab == ('bool', True):
            call = Q.value_source(body, du, org['t']['a'][0])
        elif org['k'] == 'discr' and lab == ('variant', 'Some'):
            call = Q.value_source(body, du, {'cp': {'l': org['pl']['l']}})
        if call is not None and Q.callee_is(call, CLASS_VALIDATORS) and Q.operand_local(call['a'][0]) in ident:
            return True
    return False


def regex_writer_sites(F):
    """Shared by R1 and R2: every write of pattern-derived data into the regex text.

    Returns (sites, others): sites = [{'body','block','term','seed','status','sets','why'}]"""
    sites = []
    consts = []
    for body in F.bodies_in([REGEX_MOD]):
        du = Q.DefUse(body)
        writes = _writes(body)
        seeds = _seeds(body)
        hit = set()
        for lab, locs in sorted(seeds.items()):
            full = _taint(body, du, locs, stop=ESCAPERS)
            ident = _taint(body, du, locs, through=IDENTITY_CALLS)
            for b, t in writes:
                args = [a for a in t['a'][1:] if Q.operand_local(a) is not None]
                if not any(Q.operand_local(a) in full for a in args):
                    continue
                hit.add(b)
                site = {'body': body, 'block': b, 'term': t, 'seed': lab, 'sets': [], 'why': None}
                name = pp.callee(t).split('::')[-1]
                if not all(Q.operand_local(a) in ident for a in args):
                    site['status'] = 'raw'
                    site['why'] = 'the text is transformed on its way from the pattern to the regex'
                elif name == 'write_char':
                    why, sets = _escape_structure(F, body, du, b, ident)
                    site['sets'] = sets
                    site['status'] = 'escaped' if why is None else 'raw'
                    site['why'] = why
                elif _validated_class(F, body, du, b, ident):
                    site['status'] = 'validated-class'
                else:
                    site['status'] = 'raw'
                    site['why'] = 'a string from the pattern is copied into the regex as it is'
                sites.append(site)
        for b, t in writes:
            if b not in hit:
                consts.append((body, b, t))
    return sites, consts


# ------------------------------------------------------------------ R1
@RS.rule('C04.R1', 'K-TAINT', 'no character or string of the pattern reaches the regex text unescaped')
def r1(cx):
    F = cx.F
    sites, consts = regex_writer_sites(F)
    n_bodies = 0
    for body in F.bodies_in([REGEX_MOD]):
        n_bodies += 1
        cx.fn(body.fn)
    cx.require(n_bodies >= 8, 'module yash_fnmatch::ast::regex not found')
    for body, b, t in consts:
        du = Q.DefUse(body)
        cx.site('%s: constant %s(%s) at %s' % (body.fn.replace(REGEX_MOD, ''), pp.callee(t).split('::')[-1],
                                              ', '.join(str(x) for x in Q.arg_names(body, du, t)[1:]), body.loc(t)))
    cx.floor(len(consts), 8, 'constant fragments written to the regex')
    n_ok = 0
    for s in sites:
        body, t = s['body'], s['term']
        name = pp.callee(t).split('::')[-1]
        cx.site('%s: %s of %s at %s -> %s %s' % (body.fn.replace(REGEX_MOD, ''), name, s['seed'], body.loc(t), s['status'],
                                                [x.split('::')[-1] for x in s['sets']]))
        if s['status'] == 'raw':
            cx.violation(body.fn, 'unescaped:%s<-%s' % (name, s['seed']),
                         '%s writes text taken from %s into the regular expression without escaping (%s): a '
                         'character that is special in regex syntax changes the meaning of the pattern or makes it '
                         'invalid' % (name, s['seed'], s['why']), loc=body.loc(t))
        else:
            n_ok += 1
    cx.floor(n_ok, 1, 'sanitised writes (escape structure / validated class name)')
    cx.sample({'sanitised': ['%s<-%s:%s' % (pp.callee(s['term']).split('::')[-1], s['seed'], s['status']) for s in sites]})
    # the regex writer is handed only to functions of this module; pattern text is written nowhere else
    for body in F.bodies_in(['yash_fnmatch::']):
        for b, t in body.calls():
            if Q.callee_is(t, WRITE_SINKS):
                if not body.fn.startswith(REGEX_MOD):
                    cx.site('%s: %s at %s' % (body.fn, pp.callee(t), body.loc(t)))
                    cx.violation(body.fn, 'writer-outside-module:%s' % pp.callee(t).split('::')[-1],
                                 'text is written through fmt::Write outside the escaping module', loc=body.loc(t))
                continue
            if any(DYN_WRITE in ty for ty in t.get('at') or []):
                names = Q.callee_names(t)
                cx.site('%s: regex writer passed to %s at %s' % (body.fn.replace(REGEX_MOD, ''), pp.callee(t).replace(REGEX_MOD, ''), body.loc(t)))
                if not any(n.startswith(REGEX_MOD) and n in F.bodies for n in names):
                    cx.violation(body.fn, 'writer-escapes:%s' % pp.callee(t).split('::')[-1],
                                 'the regex writer is handed to %s, which this rule cannot see into' % pp.callee(t),
                                 loc=body.loc(t))


# ------------------------------------------------------------------ R2
IN_CLASS_ONLY = set('&-~')     # special only inside a character class (set operators, ranges)
VERBOSE_ONLY = set('#')        # special only with the x flag / RegexBuilder::ignore_whitespace
BUILDER = 'regex::builders::string::RegexBuilder::'
REVIEWED_BUILDER_CALLS = {'new', 'case_insensitive', 'dot_matches_new_line', 'swap_greed', 'build'}


def _locked_version(repo, crate):
    try:
        txt = open(os.path.join(repo, 'Cargo.lock')).read()
    except OSError:
        return None
    m = re.search(r'name = "%s"\nversion = "([^"]+)"' % re.escape(crate), txt)
    return m.group(1) if m else None


def _meta_characters(repo):
    """(set of characters, source file) of regex_syntax::is_meta_character for the locked version."""
    ver = _locked_version(repo, 'regex-syntax')
    if ver is None:
        return None, 'regex-syntax not in Cargo.lock'
    home = os.environ.get('CARGO_HOME') or os.path.join(os.path.expanduser('~'), '.cargo')
    cands = sorted(glob.glob(os.path.join(home, 'registry', 'src', '*', 'regex-syntax-%s' % ver, 'src', 'lib.rs')))
    if not cands:
        return None, 'source of regex-syntax %s not in the cargo registry' % ver
    src = open(cands[0]).read()
    m = re.search(r'pub fn is_meta_character\(c: char\) -> bool \{\s*match c \{(.*?)=>\s*true\s*,\s*_\s*=>\s*false', src, re.S)
    if not m:
        return None, 'is_meta_character not recognised in %s' % cands[0]
    chars = set()
    for lit in re.findall(r"'(\\.|[^'\\])'", m.group(1)):
        chars.add({'\\\\': '\\', "\\'": "'"}.get(lit, lit))
    rest = re.sub(r"'(\\.|[^'\\])'", '', m.group(1))
    if rest.replace('|', '').strip():
        return None, 'is_meta_character has arms this rule does not understand: %r' % rest.strip()
    return chars, cands[0]


def _through_deref(body, du, operand):
    t = Q.value_source(body, du, operand)
    for _ in range(4):
        if t is not None and Q.callee_is(t, ['*::Deref::deref', 'alloc::string::String::as_str', '*::AsRef::as_ref']):
            t = Q.value_source(body, du, t['a'][0])
        else:
            break
    return t


@RS.rule('C04.R2', 'K-CONST', 'escape tables equal the metacharacter set of the locked regex-syntax; regex dialect switches are the reviewed ones')
def r2(cx):
    F = cx.F
    meta, src = _meta_characters(getattr(F, 'repo', '/repo'))
    cx.require(meta is not None, src)
    cx.require(len(meta) >= 14 and '\\' in meta and '[' in meta, 'implausible metacharacter set %r' % sorted(meta))
    cx.site('regex_syntax::is_meta_character (%s): %s' % ('/'.join(src.split('/')[-3:]), ''.join(sorted(meta))))
    tables = {}
    for name in ('SPECIAL_CHARS', 'BRACKET_SPECIAL_CHARS'):
        h = F.hir_of(REGEX_MOD + name)
        v = H.lit_value(h['body'])
        cx.require(isinstance(v, str), '%s is not a string literal' % name)
        tables[REGEX_MOD + name] = (set(v), '%s:%d' % (h['file'], h['line']))
        cx.fn(REGEX_MOD + name)
        cx.cellcount(len(v))
        cx.site('%s = %r' % (name, v))
        # an escaped character must be one whose escape is the literal character
        for c in sorted(set(v) - meta):
            cx.violation(REGEX_MOD + name, 'escape-table-extra:%r' % c,
                         '%r is escaped with a backslash but is not a regex metacharacter: `\\%s` is an error or a '
                         'different construct in regex syntax' % (c, c), loc=tables[REGEX_MOD + name][1])
    tables['regex_syntax::is_meta_character'] = (set(meta), src)
    sites, consts = regex_writer_sites(F)
    esc_sites = [s for s in sites if s['status'] == 'escaped']
    cx.floor(len(esc_sites), 1, 'escape-if-special sites')
    for s in esc_sites:
        body = s['body']
        covered = set()
        for n in s['sets']:
            cx.require(n in tables, 'escape table %s unknown' % n)
            covered |= tables[n][0]
        top_level = '<impl yash_fnmatch::ast::Atom>' in body.fn
        need = meta - VERBOSE_ONLY - (IN_CLASS_ONLY if top_level else set())
        cx.site('%s: escapes %s; %s context needs %s' % (body.fn.replace(REGEX_MOD, ''), ''.join(sorted(covered)),
                                                       'top-level' if top_level else 'bracket/any', ''.join(sorted(need))))
        cx.cellcount(len(need))
        for c in sorted(need - covered):
            cx.violation(body.fn, 'escape-table-missing:%r' % c,
                         'the regex metacharacter %r is written without a backslash here (%s context): a pattern '
                         'character %r changes the meaning of the regular expression'
                         % (c, 'outside brackets' if top_level else 'inside a bracket expression', c), loc=body.loc(s['term']))
    # '#' (and white space) are special only in verbose mode: nobody switches it on, no inline flag group is written
    for body, b, t in consts:
        du = Q.DefUse(body)
        c = _const_of(du, t['a'][1]) if len(t['a']) > 1 else None
        txt = (c or {}).get('c', '')
        if re.search(r'\(\?[A-Za-z-]', txt):
            cx.violation(body.fn, 'inline-flags', 'an inline flag group %s is written into the regex' % txt, loc=body.loc(t))
    users = F.callers_of(lambda names, t: any(n.startswith('regex::') or n.startswith('regex_syntax::') or n.startswith('regex_automata::')
                                              for n in names), crates=['yash_fnmatch'])
    compile_sites = 0
    for body, b, t in users:
        nm = pp.callee(t)
        short = nm.split('::')[-1]
        if nm.startswith(BUILDER):
            cx.site('%s: RegexBuilder::%s(%s) at %s' % (body.fn, short, ', '.join(str(x) for x in Q.arg_names(body, Q.DefUse(body), t)[1:]), body.loc(t)))
            if short not in REVIEWED_BUILDER_CALLS:
                cx.violation(body.fn, 'builder:%s' % short, 'RegexBuilder::%s changes the regex dialect; the escape tables were '
                             'reviewed for the default dialect only' % short, loc=body.loc(t))
            if short == 'new':
                compile_sites += 1
                du = Q.DefUse(body)
                srcc = _through_deref(body, du, t['a'][0])
                if not (srcc is not None and Q.callee_is(srcc, [REGEX_MOD + '<impl yash_fnmatch::ast::Ast>::to_regex'])):
                    cx.violation(body.fn, 'regex-source', 'the compiled text is not the unmodified result of Ast::to_regex',
                                 loc=body.loc(t))
            if short == 'dot_matches_new_line':
                if t['a'][1].get('c') != 'true':
                    cx.violation(body.fn, 'dot-matches-newline', '`?` and `*` are translated to `.`: they match a newline only '
                                 'if dot_matches_new_line(true)', loc=body.loc(t))
            if short == 'swap_greed':
                if Q.operand_name(body, Q.DefUse(body), t['a'][1]) != 'config.shortest_match':
                    cx.violation(body.fn, 'swap-greed', 'greediness must be swapped exactly for Config::shortest_match', loc=body.loc(t))
            if short == 'case_insensitive':
                if Q.operand_name(body, Q.DefUse(body), t['a'][1]) != 'config.case_insensitive':
                    cx.violation(body.fn, 'case-insensitive', 'case-insensitive matching must follow Config::case_insensitive', loc=body.loc(t))
        elif re.search(r'::(Regex|RegexSet|RegexBuilder|RegexSetBuilder)::(new|with_size_limit)$', nm) or 'ignore_whitespace' in nm:
            cx.site('%s: %s at %s' % (body.fn, nm, body.loc(t)))
            cx.violation(body.fn, 'other-compile:%s' % short, 'a regular expression is compiled outside the reviewed builder chain', loc=body.loc(t))
    if compile_sites != 1:
        cx.violation('yash_fnmatch::Pattern::from_ast_and_config', 'compile-sites', 'expected exactly one RegexBuilder::new in yash-fnmatch, '
                     'found %d' % compile_sites, loc=None)
    need_calls = {'dot_matches_new_line', 'swap_greed'}
    seen = {pp.callee(t).split('::')[-1] for body, b, t in users if pp.callee(t).startswith(BUILDER)}
    for m in sorted(need_calls - seen):
        cx.violation('yash_fnmatch::Pattern::from_ast_and_config', 'builder-missing:%s' % m, 'RegexBuilder::%s is no longer called' % m, loc=None)
    cx.sample({'meta': ''.join(sorted(meta)), 'tables': {k.split('::')[-1]: ''.join(sorted(v[0])) for k, v in tables.items()}})


# ------------------------------------------------------------------ R3
NORMAL = 'yash_fnmatch::char_iter::PatternChar::Normal'
LITERAL = 'yash_fnmatch::char_iter::PatternChar::Literal'
CHAR_VALUE = 'yash_fnmatch::char_iter::PatternChar::char_value'
ERASED_CTORS = ('yash_fnmatch::ast::Atom::Char', 'yash_fnmatch::ast::BracketAtom::Char')
COMPARISONS = re.compile(r'(PartialEq.*::(eq|ne)|::contains|::starts_with|::ends_with|::matches|::find|::rfind|::position|::strip_prefix|'
                         r'::strip_suffix|::split\w*|::trim\w*)$')
# stored-character tests outside the parser that are not about pattern syntax, one reason each
ERASED_TEST_OK = {
    ('yash_fnmatch::ast::Ast::starts_with_literal_dot', '.'):
        'a period has no meaning in pattern syntax; quoted or not, a leading period in the pattern is the literal '
        'period that the leading-period rule asks for',
}


def _pattern_roots(node):
    """All patterns below an expression node: (pattern, where)."""
    for x in H.walk(node):
        k = x.get('k')
        if k == 'match':
            for arm in x['arms']:
                yield arm['pat'], x
        elif k in ('letexpr', 'for'):
            if x.get('pat'):
                yield x['pat'], x
        elif k == 'block':
            for st in x.get('stmts') or []:
                if st.get('k') == 'let' and st.get('pat'):
                    yield st['pat'], x
        elif k == 'closure':
            for p in x.get('params') or []:
                if isinstance(p, dict):
                    yield p, x


def _pattern_leaves(p, ctor=None):
    """(leaf, nearest enclosing constructor path) for refutable character/string/constant leaves."""
    k = p.get('k')
    if k in ('ptuplestruct', 'pstruct'):
        c = p['p'].get('def')
        subs = p.get('sub') or [f[1] for f in p.get('fields') or []]
        for s in subs:
            yield from _pattern_leaves(s, c)
    elif k == 'por':
        for a in p['alts']:
            yield from _pattern_leaves(a, ctor)
    elif k in ('ptuple', 'pslice'):
        for s in (p.get('sub') or []) + (p.get('before') or []) + (p.get('after') or []):
            if isinstance(s, dict):
                yield from _pattern_leaves(s, None)
    elif k in ('pref', 'pderef', 'pbox'):
        yield from _pattern_leaves(p['sub'], ctor)
    elif k == 'bind':
        if p.get('sub'):
            yield from _pattern_leaves(p['sub'], ctor)
    elif k == 'pexpr':
        e = p['e']
        if e.get('k') == 'lit' and e.get('t') in ('char', 'str'):
            yield repr(e.get('v')), ctor
        elif e.get('k') == 'path' and 'Const' in (e.get('dk') or ''):
            yield 'const ' + str(e.get('def')), ctor
    elif k == 'prange':
        yield 'range', ctor


def _expr_with_parents(node, parents=()):
    yield node, parents
    for c in H.children(node):
        yield from _expr_with_parents(c, parents + (node,))


def _is_comparison(n):
    if n.get('k') == 'binary' and n.get('op') in ('==', '!='):
        return True
    if n.get('k') in ('mcall', 'call'):
        nm = n.get('def') or n.get('decl') or ''
        return bool(COMPARISONS.search(nm))
    return False


def _literal_uses(h):
    """For every char/str literal expression in a function: (literal, immediate constructor or None,
    used in a comparison?)."""
    out = []
    for x, parents in _expr_with_parents(h['body']):
        if x.get('k') != 'lit' or x.get('t') not in ('char', 'str'):
            continue
        ctor = None
        if parents and parents[-1].get('k') == 'call' and parents[-1].get('ctor'):
            ctor = parents[-1]['ctor'].get('def')
        cmp_ = any(_is_comparison(p) for p in parents)
        out.append((x, ctor, cmp_))
    return out


@RS.rule('C04.R3', 'K-GUARD', 'only PatternChar::Normal gives a character syntactic meaning; stored (erased) characters are never tested')
def r3(cx):
    F = cx.F
    fns = sorted(fn for fn in F.hir if fn.startswith(PARSE_MOD))
    cx.require(len(fns) >= 3, 'module yash_fnmatch::ast::parse not found')
    n_normal = 0
    for fn in fns:
        h = F.hir[fn]
        cx.fn(fn)
        loc0 = '%s:%d' % (h['file'], h['line'])
        short = fn.replace(PARSE_MOD, '')
        # (a) patterns
        for pat, where in _pattern_roots(h['body']):
            for leaf, ctor in _pattern_leaves(pat):
                cx.site('%s: pattern %s under %s' % (short, leaf, H.short(ctor) if ctor else 'no constructor'))
                if ctor == NORMAL:
                    n_normal += 1
                    continue
                cx.violation(fn, 'meaning-without-Normal:%s(%s)' % (H.short(ctor) if ctor else 'char', leaf),
                             'the parser tests a character against %s %s: a character has syntactic meaning only as '
                             'PatternChar::Normal; a quoted (Literal) character, or one stored after char_value(), '
                             'must match only itself' % (leaf, ('inside ' + ctor) if ctor else 'without looking at its PatternChar variant'),
                             loc='%s:%s' % (h['file'], where.get('line', h['line'])))
        # (b) literals in expressions
        for lit, ctor, cmp_ in _literal_uses(h):
            desc = '%s: literal %r %s%s' % (short, lit.get('v'), ('in ' + H.short(ctor)) if ctor else 'bare', ' (compared)' if cmp_ else '')
            cx.site(desc)
            loc = '%s:%s' % (h['file'], lit.get('line', h['line']))
            if ctor == NORMAL:
                n_normal += 1
            elif not cmp_:
                pass        # construction of an AST node, a message, ... : not a test
            else:
                cx.violation(fn, 'literal-test:%s(%r)' % (H.short(ctor) if ctor else 'bare', lit.get('v')),
                             'the parser compares against the literal %r outside PatternChar::Normal: this gives the '
                             'character a meaning whether or not it was quoted' % lit.get('v'), loc=loc)
        # (c) no decision on a bare char
        for m in H.matches_in(h['body']):
            if (m.get('sty') or '').lstrip('&').strip() in ('char', 'str', 'alloc::string::String'):
                cx.site('%s: match on %s' % (short, m.get('sty')))
                cx.violation(fn, 'match-on-char', 'the parser matches on a bare character value (quoting information already lost)',
                             loc='%s:%s' % (h['file'], m.get('line', h['line'])))
    cx.floor(n_normal, 10, 'syntactic tests on PatternChar::Normal in the parser')
    # (d) MIR: what char_value() returns goes into AST nodes / strings only
    n_cv = 0
    for body in F.bodies_in([PARSE_MOD]):
        du = Q.DefUse(body)
        seeds = set()
        for b, t in body.calls():
            if Q.callee_is(t, [CHAR_VALUE]):
                seeds.add(t['dest']['l'])
                n_cv += 1
                cx.site('%s: char_value() at %s' % (body.fn.replace(PARSE_MOD, ''), body.loc(t)))
            for a in t['a']:
                if a.get('fn') == CHAR_VALUE:
                    n_cv += 1
                    cx.site('%s: char_value passed to %s at %s' % (body.fn.replace(PARSE_MOD, ''), pp.callee(t), body.loc(t)))
                    ok = Q.callee_is(t, ['*::Iterator::map', 'core::iter::traits::iterator::Iterator::map'])
                    users = [(ub, ut) for ub, ut in body.calls() if any(Q.operand_local(x) == t['dest']['l'] for x in ut['a'])]
                    ok = ok and users and all(Q.callee_is(ut, ['*::Iterator::collect']) and
                                              ut.get('dty') in ('alloc::string::String', 'alloc::vec::Vec<char>') for ub, ut in users)
                    if not ok:
                        cx.violation(body.fn, 'erased-stream', 'characters stripped of their quoting by char_value are consumed by '
                                     'something other than collect() into a string', loc=body.loc(t))
        if not seeds:
            continue
        tainted = Q.forward_taint(body, seeds, through_calls=[])
        for b in sorted(body.live_blocks()):
            t = body.term(b)
            if t['k'] == 'switch' and Q.operand_local(t['d']) in tainted:
                cx.violation(body.fn, 'switch-on-erased-char', 'a decision is taken on a value returned by char_value()',
                             loc=body.loc(t))
            if t['k'] == 'call':
                for a, ty in zip(t['a'], t.get('at') or []):
                    if Q.operand_local(a) in tainted and _is_text_ty(ty):
                        if (t.get('dty') or '').split('<')[0] in AST_ADTS or Q.callee_is(t, ['alloc::string::String::push', '*::Vec::<T, A>::push']):
                            continue
                        cx.violation(body.fn, 'erased-char-passed:%s' % pp.callee(t).split('::')[-1],
                                     'a value returned by char_value() is examined by %s' % pp.callee(t), loc=body.loc(t))
    cx.floor(n_cv, 3, 'uses of char_value in the parser')
    # (e) crate-wide: stored characters are compared with literals nowhere else (the regex module escapes them, R1/R2)
    for fn in sorted(F.hir):
        if not fn.startswith('yash_fnmatch::') and not fn.startswith('<yash_fnmatch::'):
            continue
        if fn.startswith(PARSE_MOD) or fn.startswith(REGEX_MOD):
            continue
        h = F.hir[fn]
        found = []
        for pat, where in _pattern_roots(h['body']):
            for leaf, ctor in _pattern_leaves(pat):
                if ctor in ERASED_CTORS or ctor == LITERAL:
                    found.append((leaf.strip("'"), ctor, where.get('line', h['line'])))
        for lit, ctor, cmp_ in _literal_uses(h):
            if (ctor in ERASED_CTORS or ctor == LITERAL) and cmp_:
                found.append((lit.get('v'), ctor, lit.get('line', h['line'])))
        for v, ctor, line in found:
            cx.fn(fn)
            why = ERASED_TEST_OK.get((fn, v))
            cx.site('%s: stored character compared with %r%s' % (fn, v, ' (reviewed: %s)' % why if why else ''))
            if not why:
                cx.violation(fn, 'erased-test:%s(%r)' % (H.short(ctor), v), 'a character stored in the AST (quoting already '
                             'erased) is compared with %r' % v, loc='%s:%s' % (h['file'], line))


# ------------------------------------------------------------------ R4
ATTRCHAR = 'yash_env::semantics::expansion::attr::AttrChar'
PCHAR = 'yash_fnmatch::char_iter::PatternChar'
TO_PATTERN_CHARS = 'yash_semantics::expansion::attr_fnmatch::to_pattern_chars'
APPLY_ESCAPES = 'yash_semantics::expansion::attr_fnmatch::apply_escapes'
GLOB_CHARS_NEXT = "<yash_semantics::expansion::glob::to_pattern::Chars<'_> as core::iter::traits::iterator::Iterator>::next"
COMPILERS = ['yash_fnmatch::Pattern::parse', 'yash_fnmatch::Pattern::parse_with_config', 'yash_fnmatch::Pattern::from_ast',
             'yash_fnmatch::Pattern::from_ast_and_config', 'yash_fnmatch::ast::Ast::new']
# who may compile a pattern, and where its PatternChar stream must come from
CONSUMERS = {
    'yash_semantics::command::compound_command::case::matches': 'attr',
    'yash_semantics::expansion::initial::param::trim::apply': 'attr',
    'yash_semantics::expansion::glob::to_pattern': 'glob',
}
# where PatternChar::Normal may be made outside yash-fnmatch, and the tests that must all have failed there
PRODUCERS = {
    # hard-expansion: the result of a tilde expansion is literal in case / trim patterns too (fix ee4ee63)
    TO_PATTERN_CHARS + '::{closure#0}': {'is_quoting', 'is_quoted', 'hard-expansion'},
    GLOB_CHARS_NEXT: {'is_quoting', 'is_quoted', 'backslash-escaped', 'hard-expansion'},
}
ORIGIN_EQ = '<yash_env::semantics::expansion::attr::Origin as core::cmp::PartialEq>::eq'
DEREFS = ['*::Deref::deref', '*::DerefMut::deref_mut', '*::as_slice', '*::as_mut_slice', '*::AsRef::as_ref', '*::AsMut::as_mut',
          '*::Borrow::borrow', '*::BorrowMut::borrow_mut']


def _base_local(body, du, operand, depth=12):
    """The named local an operand is a (re)borrow / deref / copy of."""
    p = Q.operand_place(operand)
    for _ in range(depth):
        if p is None:
            return None
        l = p['l']
        d = du.single_def(l)
        if body.locals[l].get('name') and not (
                str(body.locals[l].get('ty') or '').startswith('&') and d is not None and d[1] != 't'
                and (d[2].get('rv') or {}).get('k') in ('ref', 'use', 'cast')):
            # an owned named variable; a named reference (`let p = &pattern;`, the parameter of an inlined helper) is followed
            return l
        if d is None:
            return l
        blk, idx, node = d
        if idx == 't':
            if Q.callee_is(node, DEREFS) and node['a']:
                p = Q.operand_place(node['a'][0])
                continue
            return l
        rv = node.get('rv') or {}
        if rv.get('k') == 'ref':
            p = rv['pl']
        elif rv.get('k') in ('use', 'cast'):
            p = Q.operand_place(rv['o'])
        else:
            return l
    return p['l'] if p else None


def _canon_local(du, l, depth=12):
    """The local that `l` is a plain copy / reborrow of (also through the parameter of an inlined helper)."""
    for _ in range(depth):
        d = du.single_def(l)
        if d is None or d[1] == 't':
            return l
        rv = d[2].get('rv') or {}
        if rv.get('k') in ('use', 'cast'):
            p = Q.operand_place(rv['o'])
        elif rv.get('k') == 'ref':
            p = rv['pl']
        else:
            return l
        if p is None or any(e != '*' for e in p.get('p') or []):
            return l
        l = p['l']
    return l


def _canon_key(du, l, depth=12):
    """(base local, non-deref projections) of the place that reference / copy `l` designates: `c = (_5 as Some).0` and
    `c2 = &(_5 as Some).0` (the two bindings of `Some(c) if c.flag => .., Some(c) => c`) are the same character."""
    proj = ()
    for _ in range(depth):
        d = du.single_def(l)
        if d is None or d[1] == 't':
            break
        rv = d[2].get('rv') or {}
        if rv.get('k') in ('use', 'cast'):
            p = Q.operand_place(rv['o'])
        elif rv.get('k') == 'ref':
            p = rv['pl']
        else:
            break
        if p is None:
            break
        proj = tuple(json.dumps(e, sort_keys=True) for e in p.get('p') or [] if e != '*') + proj
        l = p['l']
    return (l, proj)


def _field_of(pl, adt, names):
    for e in pl.get('p') or []:
        if isinstance(e, dict) and e.get('f') in names and e.get('adt') == adt:
            return e['f']
    return None


def _failed_tests(F, body, du, block):
    """Names of the quoting tests known to have FAILED on every path to block, and the locals they looked at."""
    out = {}
    origin_variants = set()
    for org, lab, e in Q.implied_conditions(F, body, du, block):
        if org['k'] == 'discr' and lab[0] == 'variant' and _field_of(org['pl'], ATTRCHAR, ('origin',)):
            origin_variants.add(lab[1])      # `match c.origin { HardExpansion => .., Literal | SoftExpansion => <here> }`
    if origin_variants and 'HardExpansion' not in origin_variants:
        out['hard-expansion'] = None
    for org, lab, e in Q.implied_conditions(F, body, du, block):
        org, lab = Q.peel_not(du, org, lab)
        if org['k'] == 'call' and lab == ('bool', True) and Q.callee_is(org['t'], ['core::cmp::PartialEq::ne']) \
                and org['t']['f'].get('self') == 'yash_env::semantics::expansion::attr::Origin':
            # `c.origin != Origin::HardExpansion` held (the derived PartialEq has the default `ne` = !eq)
            org = dict(org, t=dict(org['t'], f=dict(org['t']['f'], decl=ORIGIN_EQ, **{'def': ORIGIN_EQ})))
            lab = ('bool', False)
        if lab != ('bool', False):
            continue
        if org['k'] == 'place':
            f = _field_of(org['pl'], ATTRCHAR, ('is_quoting', 'is_quoted'))
            if f:
                out[f] = org['pl']['l']
            elif not org['pl'].get('p') and body.locals[org['pl']['l']].get('ty') == 'bool':
                # a bool variable: `quoted` = mem::replace(&mut self.next_quoted, false)
                defs = du.defs.get(org['pl']['l'], [])
                if len(defs) == 1 and defs[0][1] == 't' and Q.callee_is(defs[0][2], ['core::mem::replace']):
                    out['backslash-escaped'] = org['pl']['l']
        elif org['k'] == 'call' and Q.callee_is(org['t'], ['core::mem::replace']):
            out['backslash-escaped'] = org['t']['dest']['l']
        elif org['k'] == 'call' and Q.callee_is(org['t'], [re.compile(r'^<yash_env::semantics::expansion::attr::Origin as core::cmp::PartialEq>::eq$')]):
            # one side is the field `origin` of the AttrChar, the other the constant variant HardExpansion
            sides = [du.origin(a) for a in org['t']['a']]
            has_field = any(s['k'] == 'ref' and _field_of(s['pl'], ATTRCHAR, ('origin',)) for s in sides)
            has_hard = False
            for s in sides:
                if s['k'] == 'ref' and not s['pl'].get('p'):
                    o2 = du.origin_place(s['pl'])
                    if o2['k'] == 'agg' and o2['rv'].get('variant') == 'HardExpansion':
                        has_hard = True
            if has_field and has_hard:
                out['hard-expansion'] = None
    return out


def _closure_true_implies(F, fb):
    """Quoting flags of its argument that are known to be false whenever the predicate closure `fb` returns true
    (`|c| !c.is_quoting`, `|c| !(c.is_quoting || c.is_quoted)`, `|c| { if c.is_quoting { return false } .. }`)."""
    fdu = Q.DefUse(fb)
    res = None
    writes = []
    for b2, j2, s2 in fb.stmts():
        if s2['k'] == 'assign' and s2['lhs']['l'] == 0:
            if s2['lhs'].get('p'):
                return set()
            writes.append((b2, s2['rv']))
    for b2, t2 in fb.calls():
        if t2['dest']['l'] == 0:
            writes.append((b2, None))
    for b2, rv in writes:
        if rv is not None and rv['k'] == 'use' and rv['o'].get('c') == 'false':
            continue                                  # this exit does not let the item through
        got = {k for k in _failed_tests(F, fb, fdu, b2) if k in ('is_quoting', 'is_quoted')}
        if rv is not None and rv['k'] == 'unop' and rv['op'] == 'Not':
            org = fdu.origin(rv['o'])
            if org['k'] == 'place':
                f = _field_of(org['pl'], ATTRCHAR, ('is_quoting', 'is_quoted'))
                if f:
                    got.add(f)
        res = got if res is None else (res & got)
    return res or set()


def _find_established(F, body, du, char_local):
    """Quoting tests the character behind `char_local` has failed because it is the payload of
    `iter.find(|c| !c.<flag>)` (the Some payload of Iterator::find satisfies the predicate)."""
    src = Q.value_source(body, du, {'cp': {'l': char_local}})
    if src is None or not Q.callee_is(src, [re.compile(r'Iterator>?::find$')]) or len(src['a']) < 2:
        return set()
    clo = du.origin(src['a'][1])
    fb = F.bodies.get(clo['rv'].get('def')) if clo['k'] == 'agg' else None
    if fb is None:
        return set()
    return _closure_true_implies(F, fb)


def _filter_established(F, closure_body):
    """Quoting tests that every item reaching `closure_body` (a closure of an iterator chain) has already failed
    because an earlier `.filter(|c| !c.<flag>)` of the same chain let it through."""
    out = set()
    if '::{closure' not in closure_body.fn:
        return out
    parent = F.bodies.get(closure_body.root)
    if parent is None:
        return out
    pdu = Q.DefUse(parent)
    for blk, t in Q.find_calls(parent, [re.compile(r'Iterator::filter$')]):
        clo = pdu.origin(t['a'][1]) if len(t['a']) > 1 else {'k': '?'}
        fb = F.bodies.get(clo['rv'].get('def')) if clo['k'] == 'agg' else None
        if fb is None:
            continue
        out |= _closure_true_implies(F, fb)
    return out


@RS.rule('C04.R4', 'K-CALLERS+K-GUARD', 'patterns are compiled only by case/trim/glob, from streams that make Normal only for unquoted characters')
def r4(cx):
    F = cx.F
    # (a) who compiles
    callers = F.callers_of(lambda names, t: any(n in COMPILERS for n in names))
    callers = [(b, i, t) for b, i, t in callers if b.crate != 'yash_fnmatch']
    cx.floor(len(callers), 3, 'pattern compile sites outside yash-fnmatch')
    seen_roots = set()
    expanded = []
    for body, blk, t in callers:
        sig = F.fns.get(body.fn) or {}
        if body.root not in CONSUMERS and body.fn == body.root and sig and sig.get('vis') != 'pub' and not sig.get('async'):
            # `fn compile(chars: &[AttrChar]) -> Option<Pattern>` extracted from a reviewed compiler: a private function of the
            # same module that only that compiler calls is part of it, and is analysed inlined at its call site
            users = F.callers_of(lambda names, t_, _fn=body.fn: _fn in names)
            as_value = any(isinstance(o, dict) and o.get('fn') == body.fn for ob in F.bodies.values() for _b, t_ in ob.calls() for o in t_['a'])
            roots = {ub.root for ub, _b, _t in users}
            r0 = next(iter(roots)) if len(roots) == 1 else None
            if r0 in CONSUMERS and not as_value and r0.rsplit('::', 1)[0] == body.fn.rsplit('::', 1)[0]:
                found = 0
                for ufn in sorted({ub.fn for ub, _b, _t in users}):
                    ib = F.inlined(F.bodies[ufn])
                    if body.fn not in (getattr(ib, 'inlined_from', None) or []):
                        continue
                    if any(pp.callee(t2) == body.fn for _b2, t2 in ib.calls()):
                        continue              # a call site that could not be inlined stays unreviewed
                    for b2, t2 in ib.calls():
                        if any(n in COMPILERS for n in Q.callee_names(t2)) and ib.loc(t2) == body.loc(t):
                            expanded.append((ib, b2, t2))
                            found += 1
                if found:
                    cx.site('%s: private helper of %s, analysed inlined at its call site' % (body.fn, r0))
                    continue
        expanded.append((body, blk, t))
    for body, blk, t in expanded:
        cx.fn(body.root)
        kind = CONSUMERS.get(body.root)
        cx.site('%s compiles a pattern with %s at %s' % (body.root, pp.callee(t).split('::')[-1], body.loc(t)))
        if kind is None:
            cx.violation(body.root, 'compiler:%s' % pp.callee(t).split('::')[-1],
                         'a pattern is compiled here from a character stream this rule has not reviewed (quoted characters '
                         'may arrive as PatternChar::Normal)', loc=body.loc(t))
            continue
        seen_roots.add(body.root)
        du = Q.DefUse(body)
        src = Q.value_source(body, du, t['a'][0])
        if kind == 'attr':
            if not (src is not None and Q.callee_is(src, [TO_PATTERN_CHARS])):
                cx.violation(body.root, 'stream-source', 'the pattern characters do not come from to_pattern_chars', loc=body.loc(t))
                continue
            base = _base_local(body, du, src['a'][0])
            esc = [(eb, et) for eb, et in Q.find_calls(body, [APPLY_ESCAPES]) if _base_local(body, du, et['a'][0]) == base]
            srcb = [sb for sb, st in body.calls() if st is src][0]
            cx.site('%s: apply_escapes(%s) x%d before to_pattern_chars(%s)' % (body.root, body.local_name(base) if base is not None else '?',
                                                                            len(esc), body.local_name(base) if base is not None else '?'))
            if not any(body.dominates(eb, srcb) and eb != srcb for eb, et in esc):
                cx.violation(body.root, 'no-apply-escapes', 'apply_escapes is not applied to the expanded pattern before it is '
                             'converted: an unquoted backslash would not quote the next character (XCU 2.13.1)', loc=body.loc(src))
        else:
            org = du.origin(t['a'][0])
            ok = org['k'] == 'agg' and org['rv'].get('adt', '').startswith('yash_semantics::expansion::glob::to_pattern::Chars')
            cx.site('%s: stream is %s' % (body.root, org['rv'].get('adt') if org['k'] == 'agg' else org['k']))
            if not ok:
                cx.violation(body.root, 'stream-source', 'the glob pattern characters do not come from the Chars adaptor', loc=body.loc(t))
    for r in sorted(set(CONSUMERS) - seen_roots):
        cx.violation(r, 'consumer-missing', '%s no longer compiles a pattern (anchoring/quoting rules for it are vacuous)' % r, loc=None)
    # (b) who makes PatternChar values
    n_norm = 0
    for body0 in F.bodies.values():
        if body0.crate == 'yash_fnmatch':
            continue
        du = None
        body = body0
        if Q.find_aggregates(body0, PCHAR, 'Normal') or body0.root == TO_PATTERN_CHARS:
            # `fn is_literal(c) -> bool`, `fn pattern_char(c) -> Option<PatternChar>` are read at the call site (two levels)
            body = F.inlined(F.inlined(body0))
        if body0.fn not in PRODUCERS and body0.root != TO_PATTERN_CHARS and Q.find_aggregates(body0, PCHAR, 'Normal'):
            # a private helper of the attr_fnmatch module that only the reviewed producer calls is analysed inlined there
            sig = F.fns.get(body0.fn) or {}
            users = F.callers_of(lambda names, t, _fn=body0.fn: _fn in names)
            if sig.get('vis') != 'pub' and users and all(ub.root == TO_PATTERN_CHARS for ub, ublk, ut in users):
                cx.site('%s: private helper of to_pattern_chars, analysed at its call site' % body0.fn)
                continue
            as_value = [lb for lb in F.logical(TO_PATTERN_CHARS) if any(
                isinstance(o, dict) and o.get('fn') == body0.fn for blk_, t_ in lb.calls() for o in t_['a'])]
            if sig.get('vis') != 'pub' and not users and as_value and body0.fn.startswith(TO_PATTERN_CHARS.rsplit('::', 1)[0] + '::'):
                # `chars.iter().filter_map(pattern_char)`: the helper IS the producer
                PRODUCERS.setdefault(body0.fn, set(PRODUCERS[TO_PATTERN_CHARS + '::{closure#0}']))
        for b, j, s in Q.find_aggregates(body, PCHAR, 'Normal'):
            n_norm += 1
            du = du or Q.DefUse(body)
            need = PRODUCERS.get(body.fn)
            if need is None:
                # any closure of a reviewed producer function (the chain may be written filter + map instead of filter_map)
                need = {TO_PATTERN_CHARS: PRODUCERS[TO_PATTERN_CHARS + '::{closure#0}']}.get(body.root)
            cx.fn(body.fn)
            if need is None:
                cx.site('%s: PatternChar::Normal at %s' % (body.fn, body.loc(s)))
                cx.violation(body.fn, 'producer:Normal', 'PatternChar::Normal is made here without the reviewed quoting tests',
                             loc=body.loc(s))
                continue
            failed = _failed_tests(F, body, du, b)
            from_filter = _filter_established(F, body)
            for k_ in from_filter:
                failed.setdefault(k_, 'filter')
            vorg0 = du.origin(s['rv']['ops'][0])
            if vorg0['k'] == 'place' and _field_of(vorg0['pl'], ATTRCHAR, ('value',)):
                # `let c = self.inner.find(|c| !c.is_quoting)?;`: the character whose value is used passed the predicate
                for k_ in _find_established(F, body, du, vorg0['pl']['l']):
                    failed.setdefault(k_, 'filter')
            cx.site('%s: PatternChar::Normal at %s only after %s failed' % (body.fn.split('::')[-2] + '::' + body.fn.split('::')[-1], body.loc(s), sorted(failed)))
            for m in sorted(need - set(failed)):
                cx.violation(body.fn, 'normal-without:%s' % m, 'a character becomes PatternChar::Normal (syntactically active) although '
                             'the %s test has not failed for it: a quoted character would act as a pattern operator' % m,
                             loc=body.loc(s))
            # the flags tested and the value used belong to the same AttrChar
            vorg = du.origin(s['rv']['ops'][0])
            vl = vorg['pl']['l'] if vorg['k'] == 'place' and _field_of(vorg['pl'], ATTRCHAR, ('value',)) else None
            flags = {failed.get('is_quoting'), failed.get('is_quoted')} - {None, 'filter'}
            flags = {_canon_key(du, l_) for l_ in flags}
            vl = _canon_key(du, vl) if vl is not None else None
            if vl is None or (flags and flags != {vl}):
                cx.violation(body.fn, 'normal-other-char', 'the character made Normal is not the value of the AttrChar whose flags were tested',
                             loc=body.loc(s))
        for b, t in body.calls():
            if Q.callee_is(t, ['yash_fnmatch::char_iter::without_escape', 'yash_fnmatch::char_iter::with_escape']):
                cx.site('%s: %s at %s' % (body.fn, pp.callee(t), body.loc(t)))
                cx.violation(body.root, 'producer:%s' % pp.callee(t).split('::')[-1], 'a pattern is read from a plain string: every '
                             'character becomes PatternChar::Normal regardless of quoting', loc=body.loc(t))
    cx.floor(n_norm, 2, 'PatternChar::Normal construction sites outside yash-fnmatch')
    # (c) apply_escapes: the two flags are set exactly for an unquoted, non-quoting backslash and its successor
    ab = F.inlined(F.inlined(F.body(APPLY_ESCAPES)))
    cx.fn(APPLY_ESCAPES)
    du = Q.DefUse(ab)
    writes = {}
    for b, j, s in ab.stmts():
        if s['k'] == 'assign':
            f = _field_of(s['lhs'], ATTRCHAR, ('is_quoting', 'is_quoted', 'value', 'origin'))
            if f:
                writes.setdefault(f, []).append((b, s))
    cx.site('apply_escapes writes %s' % {k: len(v) for k, v in sorted(writes.items())})
    if set(writes) != {'is_quoting', 'is_quoted'} or any(len(v) != 1 for v in writes.values()):
        cx.violation(APPLY_ESCAPES, 'writes', 'apply_escapes must set is_quoting of the backslash and is_quoted of its successor, '
                     'nothing else (found %s)' % sorted(writes), loc=ab.loc(ab.d))
        return

    def idx_name(pl):
        if not any(isinstance(e, dict) and 'idx' in e for e in pl.get('p') or []):
            # `(*c).is_quoted` with `c = &chars[i]` handed to a helper: the index is on the reference's definition
            l = pl['l']
            for _ in range(8):
                d = du.single_def(l)
                if d is None or d[1] == 't':
                    break
                rv = d[2].get('rv') or {}
                q = Q.operand_place(rv['o']) if rv.get('k') in ('use', 'cast') else rv.get('pl') if rv.get('k') == 'ref' else None
                if q is None:
                    break
                if any(isinstance(e, dict) and 'idx' in e for e in q.get('p') or []):
                    pl = q
                    break
                if any(e != '*' for e in q.get('p') or []):
                    break
                l = q['l']
        for e in pl.get('p') or []:
            if isinstance(e, dict) and 'idx' in e:
                l = e['idx']
                for _ in range(6):
                    if ab.locals[l].get('name'):
                        break
                    d = du.single_def(l)
                    if d is None or d[1] == 't' or d[2]['rv']['k'] != 'use':
                        break
                    pp_ = Q.operand_place(d[2]['rv']['o'])
                    if pp_ is None or pp_.get('p'):
                        break
                    l = pp_['l']
                return ab.local_name(l)
        return None
    names = {}
    for f, [(b, s)] in writes.items():
        names[f] = idx_name(s['lhs'])
        if s['rv'].get('k') != 'use' or s['rv']['o'].get('c') != 'true':
            cx.violation(APPLY_ESCAPES, 'write-value:%s' % f, '%s must be set to true' % f, loc=ab.loc(s))
        conds = Q.implied_conditions(F, ab, du, b)
        have = set()
        for org, lab, e in conds:
            org, lab = Q.peel_not(du, org, lab)
            if org['k'] == 'binop' and ((org['rv']['op'] == 'Eq' and lab == ('bool', True)) or (org['rv']['op'] == 'Ne' and lab == ('bool', False))):
                cs = [_char_const(x) for x in (org['rv']['a'], org['rv']['b'])]
                vals = [du.origin(x) for x in (org['rv']['a'], org['rv']['b']) if 'c' not in x]
                if '\\' in cs and vals and vals[0]['k'] == 'place' and _field_of(vals[0]['pl'], ATTRCHAR, ('value',)):
                    have.add(('backslash', idx_name(vals[0]['pl'])))
            if org['k'] == 'place' and lab == ('bool', False):
                ff = _field_of(org['pl'], ATTRCHAR, ('is_quoting', 'is_quoted'))
                if ff:
                    have.add((ff, idx_name(org['pl'])))
        cx.site('apply_escapes: %s[%s] = true under %s' % (f, names[f], sorted(have)))
        for need in ('backslash', 'is_quoting', 'is_quoted'):
            if not any(h[0] == need and h[1] == idx_name(writes['is_quoting'][0][1]['lhs']) for h in have):
                cx.violation(APPLY_ESCAPES, 'unguarded:%s:%s' % (f, need), 'apply_escapes sets %s without testing %s of the backslash '
                             'candidate: a quoted or already-quoting backslash would quote the next character' % (f, need), loc=ab.loc(s))
    if names.get('is_quoting') is not None and names.get('is_quoting') == names.get('is_quoted'):
        cx.violation(APPLY_ESCAPES, 'same-index', 'the backslash marks itself as quoted instead of its successor', loc=ab.loc(ab.d))


# ------------------------------------------------------------------ R5
CONFIG = 'yash_fnmatch::Config'
CASE = 'yash_semantics::command::compound_command::case::'
TRIM = 'yash_semantics::expansion::initial::param::trim::'
PWC = 'yash_fnmatch::Pattern::parse_with_config'
# literal fast path: (anchor_begin, anchor_end) -> operation on `text`
LITERAL_TABLE = {
    'yash_fnmatch::Pattern::is_match': {(False, False): 'contains', (True, False): 'starts_with', (False, True): 'ends_with', (True, True): '=='},
    'yash_fnmatch::Pattern::find': {(False, False): 'find', (True, False): 'starts_with', (False, True): 'ends_with', (True, True): '=='},
    'yash_fnmatch::Pattern::rfind': {(False, False): 'rfind', (True, False): 'starts_with', (False, True): 'ends_with', (True, True): '=='},
}
SEARCH_OPS = {'contains', 'starts_with', 'ends_with', 'find', 'rfind', 'eq', 'ne', 'matches', 'strip_prefix', 'strip_suffix'}


def _config_writes(body):
    """[(block, stmt, field, constant text or None)] for assignments to fields of a yash_fnmatch::Config."""
    out = []
    for b, j, s in body.stmts():
        if s['k'] != 'assign':
            continue
        for e in s['lhs'].get('p') or []:
            if isinstance(e, dict) and e.get('adt') == CONFIG and 'f' in e:
                rv = s['rv']
                c = rv['o'].get('c') if rv['k'] == 'use' and 'c' in rv['o'] else None
                out.append((b, s, e['f'], c))
    return out


def _variant_conds(F, body, du, block):
    """{(field name of the tested place, variant)} for discriminant switches dominating block."""
    out = set()
    for org, lab, e in Q.dominating_conditions(F, body, du, block):
        if org['k'] == 'discr' and lab[0] == 'variant':
            fs = [x['f'] for x in org['pl'].get('p') or [] if isinstance(x, dict) and 'f' in x]
            if fs:
                out.add((fs[-1], lab[1]))
    return out


def _bool_field_conds(F, body, du, block, adt):
    out = {}
    for org, lab, e in Q.implied_conditions(F, body, du, block):
        if org['k'] == 'place' and lab[0] == 'bool':
            for x in org['pl'].get('p') or []:
                if isinstance(x, dict) and x.get('adt') == adt and 'f' in x:
                    out[x['f']] = lab[1]
    return out


# ---- the Config VALUE that reaches a compile site: forward abstract evaluation of MIR, through helpers (by value, by &mut, two levels deep)
_TOP = frozenset(['?'])


def _is_config_ty(ty):
    return isinstance(ty, str) and ty.replace('&mut ', '').replace('&', '').strip() == CONFIG


def _config_fields(F):
    return [f['name'] for f in F.adt(CONFIG)['variants'][0]['fields']]


def _cfg_top(F):
    return {f: _TOP for f in _config_fields(F)}


def _cfg_join(a, b):
    """Join of two abstract values (None = unknown)."""
    if a is None or b is None:
        return None
    if isinstance(a, dict) and isinstance(b, dict):
        return {f: a[f] | b[f] for f in a}
    if isinstance(a, frozenset) and isinstance(b, frozenset):
        return a | b
    return a if a == b else None


def _cfg_state_join(x, y):
    if x is None:
        return y
    if y is None:
        return x
    out = {}
    for k in x:
        if k in y:
            v = _cfg_join(x[k], y[k])
            if v is not None:
                out[k] = v
    return out


class _ConfigEval:
    """Abstract values: bool -> frozenset of 'true' / 'false' / '?'; Config -> {field: such a set}; ('ref', key) for `&[mut] local`.
    A local that is not in the state is unknown.  Calls to functions whose MIR is available are evaluated on the abstract
    arguments (depth-limited); a `&mut Config` handed to anything else makes the referent unknown."""

    def __init__(self, F, depth=3):
        self.F = F
        self.depth = depth

    def operand(self, body, st, o):
        if 'c' in o:
            return frozenset([o['c']]) if o.get('c') in ('true', 'false') else None
        pl = o.get('cp') or o.get('mv')
        if pl is None:
            return None
        return self.place(body, st, pl)

    def place(self, body, st, pl):
        key, proj = pl['l'], list(pl.get('p') or [])
        v = st.get(key)
        while proj and proj[0] == '*':
            if not (isinstance(v, tuple) and v[0] == 'ref'):
                return None
            key = v[1]
            v = st.get(key)
            proj.pop(0)
        if not proj:
            if v is None and _is_config_ty(self.ty(body, key)) and not str(self.ty(body, key)).startswith('&'):
                return None
            return v
        if len(proj) == 1 and isinstance(proj[0], dict) and proj[0].get('adt') == CONFIG and 'f' in proj[0]:
            return v.get(proj[0]['f'], _TOP) if isinstance(v, dict) else _TOP
        return None

    def ty(self, body, key):
        return body.locals[key].get('ty') if isinstance(key, int) and key < len(body.locals) else CONFIG

    def write(self, body, st, pl, v):
        key, proj = pl['l'], list(pl.get('p') or [])
        while proj and proj[0] == '*':
            r = st.get(key)
            if not (isinstance(r, tuple) and r[0] == 'ref'):
                # a write through an untracked pointer: every Config we know may have changed
                for k in [k for k, x in st.items() if isinstance(x, dict)]:
                    st.pop(k)
                return
            key = r[1]
            proj.pop(0)
        if not proj:
            if v is None:
                st.pop(key, None)
            else:
                st[key] = v
            return
        if len(proj) == 1 and isinstance(proj[0], dict) and proj[0].get('adt') == CONFIG and 'f' in proj[0]:
            cur = st.get(key)
            cur = dict(cur) if isinstance(cur, dict) else _cfg_top(self.F)
            cur[proj[0]['f']] = v if isinstance(v, frozenset) else _TOP
            st[key] = cur
            return
        if any(isinstance(e, dict) and e.get('adt') == CONFIG for e in proj):
            st.pop(key, None)

    def rvalue(self, body, st, rv):
        k = rv['k']
        if k == 'use':
            return self.operand(body, st, rv['o'])
        if k == 'ref':
            pl = rv.get('pl') or {}
            proj = list(pl.get('p') or [])
            key = pl.get('l')
            while proj and proj[0] == '*':          # reborrow `&mut *r`
                r = st.get(key)
                if not (isinstance(r, tuple) and r[0] == 'ref'):
                    return None
                key = r[1]
                proj.pop(0)
            return ('ref', key) if not proj and key is not None else None
        if k == 'agg' and rv.get('adt') == CONFIG:
            out = _cfg_top(self.F)
            for f, o in zip(rv.get('fields') or [], rv.get('ops') or []):
                v = self.operand(body, st, o)
                out[f] = v if isinstance(v, frozenset) else _TOP
            return out
        if k == 'unop' and rv.get('op') == 'Not':
            v = self.operand(body, st, rv.get('a') or rv.get('o') or {})
            if isinstance(v, frozenset):
                return frozenset({'true': 'false', 'false': 'true'}.get(x, '?') for x in v)
        return None

    def call(self, body, st, t, depth):
        """Effect of a call terminator on st (in place); returns the value of the destination."""
        F = self.F
        args = [self.operand(body, st, o) for o in t['a']]
        d = (t.get('f') or {}).get('def') or ''
        decl = (t.get('f') or {}).get('decl') or ''
        result = None
        handled = False
        if d == '<bool as core::default::Default>::default':
            return frozenset(['false'])
        if decl == 'core::clone::Clone::clone' and (t['f'].get('self') == CONFIG):
            a = args[0] if args else None
            return st.get(a[1]) if isinstance(a, tuple) and a[0] == 'ref' and isinstance(st.get(a[1]), dict) else None
        cb = F.bodies.get(d)
        interesting = _is_config_ty(t.get('dty')) or t.get('dty') == 'bool' or any(_is_config_ty(x) for x in t.get('at') or [])
        if cb is not None and interesting and depth > 0 and cb.kind in ('Fn', 'AssocFn') and len(cb.blocks) <= 60:
            cst = {}
            outs = {}
            for i, a in enumerate(args):
                if isinstance(a, tuple) and a[0] == 'ref':
                    ext = ('ext', i)
                    if st.get(a[1]) is not None:
                        cst[ext] = st[a[1]]
                    cst[i + 1] = ('ref', ext)
                    outs[ext] = a[1]
                elif a is not None:
                    cst[i + 1] = a
            states = self.flow(cb, cst, depth - 1)
            fin = None
            rets = [b for b in cb.return_blocks() if states.get(b) is not None]
            for b in rets:
                fin = _cfg_state_join(fin, self.block_out(cb, states[b], b, depth - 1))
            if rets and fin is not None:
                handled = True
                result = fin.get(0)
                if isinstance(result, tuple):
                    result = None
                for ext, key in outs.items():
                    if str((t.get('at') or [''] * 9)[ext[1]]).startswith('&mut'):
                        if fin.get(ext) is None:
                            st.pop(key, None)
                        else:
                            st[key] = fin[ext]
        if not handled:
            for a, ty in zip(args, t.get('at') or []):
                if isinstance(a, tuple) and a[0] == 'ref' and str(ty).startswith('&mut'):
                    st.pop(a[1], None)
        return result

    def block_out(self, body, st, b, depth):
        st = dict(st)
        for s in body.blocks[b]['s']:
            if s['k'] == 'assign':
                self.write(body, st, s['lhs'], self.rvalue(body, st, s['rv']))
        return st

    def flow(self, body, init, depth):
        """{block: state on entry} (None = not reached)."""
        states = {0: dict(init)}
        work = [0]
        n = 0
        while work:
            n += 1
            if n > 20000:
                raise Exception('Config value flow does not converge in %s' % body.fn)
            b = work.pop()
            st = self.block_out(body, states[b], b, depth)
            t = body.blocks[b]['t']
            outs = {}
            if t['k'] == 'call':
                st2 = dict(st)
                v = self.call(body, st2, t, depth)
                if t.get('dest') is not None:
                    self.write(body, st2, t['dest'], v)
                for s_ in body.succ(b):
                    outs[s_] = st2
            else:
                live = body.succ(b)
                if t['k'] == 'switch' and t.get('dty') == 'bool':
                    # a branch on a flag whose value is known (a constant handed to a helper) takes one edge only
                    dv = self.operand(body, st, t['d'])
                    if isinstance(dv, frozenset) and len(dv) == 1 and '?' not in dv:
                        want = 1 if 'true' in dv else 0
                        hit = [tg for val, tg in t['ts'] if val == want]
                        live = [hit[0] if hit else t['else']]
                for s_ in live:
                    outs[s_] = st
            for s_, o in outs.items():
                old = states.get(s_)
                new = _cfg_state_join(old, o) if old is not None else dict(o)
                if old is None or new != old:
                    states[s_] = new
                    work.append(s_)
        return states


def _config_default(F):
    ev = _ConfigEval(F)
    b = F.body('<%s as core::default::Default>::default' % CONFIG)
    fake = {'k': 'call', 'f': {'def': b.fn, 'decl': 'core::default::Default::default', 'self': CONFIG}, 'a': [], 'at': [], 'dty': CONFIG}
    v = ev.call(b, {}, fake, 3)
    return v if isinstance(v, dict) else None


def _config_at_call(F, body, blk, operand):
    """Abstract Config ({field: set of 'true'/'false'/'?'}) of `operand` at the call terminating block blk, or None (unknown)."""
    ev = _ConfigEval(F)
    states = ev.flow(body, {}, 3)
    if states.get(blk) is None:
        return None
    st = ev.block_out(body, states[blk], blk, 3)
    v = ev.operand(body, st, operand)
    if isinstance(v, tuple) and v[0] == 'ref':
        v = st.get(v[1])
    return v if isinstance(v, dict) else None


@RS.rule('C04.R5', 'K-TABLE', 'anchoring and shortest/longest tables of case, trim and the literal fast path; first matching case item')
def r5(cx):
    F = cx.F
    # (a) case: the Config VALUE that reaches every compile site of the case module (followed through helpers, whatever their name or
    #     module): both anchors true on every path, every other switch (literal_period, case_insensitive, shortest_match) false on every path
    fields = _config_fields(F)
    cx.require({'anchor_begin', 'anchor_end', 'literal_period'} <= set(fields), 'yash_fnmatch::Config has no anchor_begin / anchor_end / literal_period field')
    case_sites = [(b_, i_, t_) for b_, i_, t_ in F.callers_of(lambda names, t: any(n in COMPILERS for n in names)) if b_.root.startswith(CASE)]
    mb = F.main_body(CASE + 'matches')
    cx.fn(mb.root)
    if not case_sites:
        cx.violation(mb.root, 'case-compile-site-missing', 'no pattern is compiled in the case module: the configuration case patterns are '
                     'compiled with cannot be established', loc=mb.loc(mb.d))
    for cbody, cblk, t in case_sites:
        cx.fn(cbody.root)
        name = pp.callee(t).split('::')[-1]
        if len(t['a']) >= 2 and _is_config_ty((t.get('at') or [None, None])[1]):
            val = _config_at_call(F, cbody, cblk, t['a'][1])
        else:
            val = None if name not in ('parse', 'new') else _config_default(F)     # Pattern::parse(p) = parse_with_config(p, Config::default())
        shown = 'unknown' if val is None else ', '.join('%s=%s' % (f, '|'.join(sorted(val[f]))) for f in fields)
        cx.site('%s: %s(.., Config{%s})' % (cbody.root, name, shown))
        cx.cellcount(len(fields))
        for f in fields:
            want = 'true' if f in ('anchor_begin', 'anchor_end') else 'false'
            got = {'?'} if val is None else set(val[f])
            if got == {want}:
                continue
            if f in ('anchor_begin', 'anchor_end'):
                msg = 'a case pattern must match the whole subject: Config::%s must be true on every path to %s (found %s)' % (f, name, sorted(got))
            elif f == 'literal_period':
                msg = ('the leading-period rule belongs to pathname expansion only (XCU 2.13.3): a case pattern is compiled with '
                       'Config::literal_period possibly true (found %s), so `case .profile in *)` matches nothing' % sorted(got))
            else:
                msg = 'a case pattern is compiled with Config::%s possibly true (found %s): it no longer denotes the POSIX pattern' % (f, sorted(got))
            if got == {'?'}:
                msg += ' [the value could not be followed to Config::default() and constant field writes]'
            cx.violation(cbody.root, 'case-config:%s' % f, msg, loc=cbody.loc(t))
    du = Q.DefUse(mb)
    # matches: Ok(true) only after is_match returned true
    oks = []
    for b, j, s in Q.find_aggregates(mb, 'core::result::Result', 'Ok'):
        if s['lhs']['l'] == 0 and s['rv']['ops'] and s['rv']['ops'][0].get('c') in ('true', 'false'):
            oks.append((b, s, s['rv']['ops'][0]['c']))
    cx.require(any(c == 'true' for b, s, c in oks) and any(c == 'false' for b, s, c in oks), 'Ok(true)/Ok(false) returns of case::matches not found')
    ism = Q.find_calls(mb, ['yash_fnmatch::Pattern::is_match'])
    cx.require(len(ism) == 1, 'expected one is_match call in case::matches')
    for b, s, c in oks:
        conds = Q.dominating_conditions(F, mb, du, b)
        hit = any(Q.cond_is_call(org, ['yash_fnmatch::Pattern::is_match']) and lab == ('bool', True) for org, lab, e in conds)
        cx.site('case::matches: Ok(%s) %s the is_match == true edge' % (c, 'on' if hit else 'not on'))
        if (c == 'true') != hit:
            cx.violation(mb.root, 'matches-result:%s' % c, 'matches must return Ok(true) exactly when a pattern matched', loc=mb.loc(s))
    # the subject is matched as given: is_match(subject)
    if Q.operand_name(mb, du, ism[0][1]['a'][1]) not in ('subject', '*subject'):
        base = _base_local(mb, du, ism[0][1]['a'][1])
        if base is None or mb.local_name(base) != 'subject':
            cx.violation(mb.root, 'matches-subject', 'the pattern is not matched against the subject', loc=mb.loc(ism[0][1]))
    # (b) execute: an item body runs only after falling through or after matches() == Ok(true); Break leaves the loop
    eb = F.main_body(CASE + 'execute')
    cx.fn(eb.root)
    du = Q.DefUse(eb)
    nxt = [(b, t) for b, t in eb.calls() if Q.callee_is(t, ['*::Iterator::next']) and 'Iter<' in (pp.callee(t) + str(t.get('at')))]
    runs = [(b, t) for b, t in eb.calls() if Q.callee_is(t, ['*::Command::execute', re.compile(r'Command<S>>::execute$')])]
    cx.require(len(nxt) == 1 and len(runs) == 1, 'loop shape of case::execute not recognised (%d next, %d execute)' % (len(nxt), len(runs)))
    allowed = set()
    brk = []
    for b in sorted(eb.live_blocks()):
        ec = Q.edge_condition(F, eb, du, b)
        if ec is None:
            continue
        org, labels = ec
        for tgt, labs in labels.items():
            if org['k'] == 'place' and ('bool', True) in labs:
                pl = org['pl']
                if not pl.get('p') and eb.locals[pl['l']].get('name') == 'falling_through':
                    allowed.add((b, tgt))
                elif any(isinstance(x, dict) and x.get('v') == 'Ok' for x in pl.get('p') or []):
                    src = Q.value_source(eb, du, {'cp': {'l': pl['l']}})
                    if src is not None and Q.callee_is(src, [CASE + 'matches']):
                        allowed.add((b, tgt))
            if org['k'] == 'discr' and ('variant', 'Break') in labs and 'CaseContinuation' in (org.get('ty') or ''):
                brk.append((b, tgt))
    cx.site('case::execute: %d edges admit an item body (fall-through / matches == Ok(true)); %d Break edge' % (len(allowed), len(brk)))
    if len(allowed) != 2:
        cx.violation(eb.root, 'admitting-edges', 'expected the item body to be admitted by exactly the fall-through flag and '
                     'matches() == Ok(true) (found %d such edges)' % len(allowed), loc=eb.loc(runs[0][1]))
    elif runs[0][0] in eb.reachable(nxt[0][0], removed_edges=allowed):
        p = eb.shortest_path(nxt[0][0], {runs[0][0]}, removed_edges=allowed)
        cx.violation(eb.root, 'body-without-match', 'a case item body can run although its patterns did not match and the previous '
                     'item did not fall through', loc=eb.loc(runs[0][1]), path=Q.render_path(eb, p))
    if len(brk) != 1 or nxt[0][0] in eb.reachable(brk[0][1]):
        cx.violation(eb.root, 'break-continues', 'after an item terminated by `;;` later items are still examined: case must run '
                     'the FIRST matching item only', loc=eb.loc(runs[0][1]))
    # (c) trim: side/length -> Config
    tb = F.main_body(TRIM + 'apply')
    cx.fn(tb.root)
    du = Q.DefUse(tb)
    want = {'anchor_begin': ('side', 'Prefix'), 'anchor_end': ('side', 'Suffix'), 'shortest_match': ('length', 'Shortest')}
    ws = _config_writes(tb)
    got = {}
    cfg_local = set()
    for b, s, f, c in ws:
        conds = _variant_conds(F, tb, du, b)
        got.setdefault(f, []).append((c, conds))
        cfg_local.add(s['lhs']['l'])
        cx.site('trim::apply: config.%s = %s under %s' % (f, c, sorted(conds & {('side', 'Prefix'), ('side', 'Suffix'), ('length', 'Shortest'), ('length', 'Longest')})))
        cx.cellcount(1)
    loc = tb.loc(tb.d)
    for f, (fld, var) in want.items():
        ent = got.get(f, [])
        if len(ent) != 1 or ent[0][0] != 'true' or (fld, var) not in ent[0][1] or \
                any((fld, v2) in ent[0][1] for v2 in ('Prefix', 'Suffix', 'Shortest', 'Longest') if v2 != var and (fld, v2) != (fld, var)):
            cx.violation(tb.root, 'trim-table:%s' % f, 'Config::%s must be set to true exactly for %s::%s (found %s)'
                         % (f, fld, var, [(c, sorted(cs)) for c, cs in ent]), loc=loc)
    for f in sorted(set(got) - set(want)):
        cx.violation(tb.root, 'trim-table-extra:%s' % f, 'trim sets Config::%s, which changes what the pattern matches' % f, loc=loc)
    for b, t in Q.find_calls(tb, [PWC]):
        base = _base_local(tb, du, t['a'][1])
        if base not in cfg_local:
            cx.violation(tb.root, 'trim-config-source', 'the trim pattern is not compiled with the configuration built from side/length',
                         loc=tb.loc(t))
    # (d) trim_value: rfind exactly for (anchor_end and shortest_match); the matched range is what is removed
    vb = F.body(TRIM + 'trim_value')
    cx.fn(vb.fn)
    du = Q.DefUse(vb)
    picks = []
    for b, j, s in vb.stmts():
        if s['k'] == 'assign' and s['rv']['k'] == 'use' and s['rv']['o'].get('fn', '').startswith('yash_fnmatch::Pattern::'):
            picks.append((b, s, s['rv']['o']['fn'].split('::')[-1]))
    cx.require(picks, 'no Pattern::find / Pattern::rfind selection in trim_value')
    for b, s, name in picks:
        conds = _bool_field_conds(F, vb, du, b, CONFIG)
        both = conds.get('anchor_end') is True and conds.get('shortest_match') is True
        cx.site('trim_value: selects %s under %s' % (name, sorted(conds.items())))
        cx.cellcount(1)
        if name == 'rfind' and not both:
            cx.violation(vb.fn, 'select:rfind', 'rfind (last match start) must be used only for the shortest suffix (anchor_end and shortest_match)', loc=vb.loc(s))
        elif name == 'find' and both:
            cx.violation(vb.fn, 'select:find', 'for the shortest suffix the leftmost match is the LONGEST suffix: rfind is required', loc=vb.loc(s))
        elif name not in ('find', 'rfind'):
            cx.violation(vb.fn, 'select:%s' % name, 'unexpected matcher %s' % name, loc=vb.loc(s))
    if {n for b, s, n in picks} != {'find', 'rfind'}:
        cx.violation(vb.fn, 'select-missing', 'trim_value must choose between find and rfind (found %s)' % sorted({n for b, s, n in picks}), loc=vb.loc(vb.d))
    drains = Q.find_calls(vb, ['alloc::string::String::drain'])
    ind = [(b, t) for b, t in vb.calls() if 'indirect' in t['f']]
    cx.require(len(drains) == 1 and len(ind) == 1, 'drain / indirect matcher call not found in trim_value')
    org = du.origin(drains[0][1]['a'][1])
    ok = org['k'] == 'place' and org['pl']['l'] == ind[0][1]['dest']['l'] and any(isinstance(x, dict) and x.get('v') == 'Some' for x in org['pl'].get('p') or [])
    cx.site('trim_value: value.drain(range returned by the selected matcher): %s' % ok)
    if not ok:
        cx.violation(vb.fn, 'drain-range', 'the removed range is not the range the matcher returned', loc=vb.loc(drains[0][1]))
    if _base_local(vb, du, ind[0][1]['a'][1]) != _base_local(vb, du, drains[0][1]['a'][0]):
        cx.violation(vb.fn, 'drain-other-string', 'the range is removed from a string other than the one that was matched', loc=vb.loc(drains[0][1]))
    # (e) the anchors reach the regex: \A iff anchor_begin, before the atoms; \z iff anchor_end, after them
    ab = F.body(REGEX_MOD + '<impl yash_fnmatch::ast::Ast>::fmt_regex')
    cx.fn(ab.fn)
    du = Q.DefUse(ab)
    atoms = Q.find_calls(ab, ['*::Iterator::try_for_each', '*::Iterator::try_fold'])
    cx.require(len(atoms) == 1, 'atom loop of Ast::fmt_regex not recognised')
    seen = {}
    for b, t in _writes(ab):
        c = _const_of(du, t['a'][1])
        txt = (c or {}).get('c')
        conds = _bool_field_conds(F, ab, du, b, CONFIG)
        cx.site('Ast::fmt_regex: writes %s under %s' % (txt, sorted(conds.items())))
        cx.cellcount(1)
        if txt == '"\\\\A"':
            seen['A'] = True
            if conds.get('anchor_begin') is not True or atoms[0][0] not in ab.reachable(b) or b in ab.reachable(atoms[0][0]):
                cx.violation(ab.fn, 'anchor:begin', '\\A must be written exactly when anchor_begin is set, before the atoms', loc=ab.loc(t))
        elif txt == '"\\\\z"':
            seen['z'] = True
            if conds.get('anchor_end') is not True or not ab.dominates(atoms[0][0], b):
                cx.violation(ab.fn, 'anchor:end', '\\z must be written exactly when anchor_end is set, after the atoms', loc=ab.loc(t))
        else:
            cx.violation(ab.fn, 'anchor:other', 'Ast::fmt_regex writes %s around the atoms' % txt, loc=ab.loc(t))
    for k in ('A', 'z'):
        if k not in seen:
            cx.violation(ab.fn, 'anchor-missing:%s' % k, 'the \\%s anchor is never written: anchored patterns match anywhere' % k, loc=ab.loc(ab.d))
    # (f) literal fast path
    for fn, table in LITERAL_TABLE.items():
        h = F.hir_of(fn)
        cx.fn(fn)
        ms = [m for m in H.matches_in(h['body']) if (m.get('sty') or '') == '(bool, bool)']
        cx.require(len(ms) == 1, '%s: (anchor_begin, anchor_end) match not found' % fn)
        m = ms[0]
        sc = H.peel(m['scrut'])
        order = [x.get('name') for x in sc.get('a', [])] if sc.get('k') == 'tup' else None
        cx.require(order == ['anchor_begin', 'anchor_end'], '%s: scrutinee is not (anchor_begin, anchor_end)' % fn)
        for (ab_, ae_), op in table.items():
            i, arm = H.first_matching_arm(m, ('tuple', [('lit', ab_), ('lit', ae_)]))
            cx.require(i is not None, '%s: arm for (%s, %s) not decidable' % (fn, ab_, ae_))
            ops = []
            for x in H.walk(arm['body']):
                if x.get('k') == 'mcall' and x.get('name') in SEARCH_OPS and H.peel(x['recv']).get('name') == 'text':
                    ops.append(x['name'])
                if x.get('k') == 'binary' and x.get('op') in ('==', '!='):
                    names = {H.peel(x['a']).get('name'), H.peel(x['b']).get('name')}
                    if 'text' in names:
                        ops.append(x['op'])
            cx.cellcount(1)
            if ops != [op]:
                cx.violation(fn, 'literal-path:(%s,%s)' % (ab_, ae_), 'for a literal pattern with anchor_begin=%s, anchor_end=%s the text '
                             'must be tested with %s (found %s)' % (ab_, ae_, op, ops), loc='%s:%s' % (h['file'], arm.get('line', h['line'])))
    cx.sample({'literal_table': {k.split('::')[-1]: {str(c): v for c, v in t.items()} for k, t in LITERAL_TABLE.items()}})


@RS.rule('C04.R5b', 'K-GUARD', 'case item: "no pattern matches" is concluded only after every alternative was tried (a pattern that fails to compile just matches nothing)')
def r5b(cx):
    import mirq as Q
    F = cx.F
    b = F.main_body('yash_semantics::command::compound_command::case::matches')
    cx.fn(b.fn)
    du = Q.DefUse(b)
    oks = [(blk, j, s) for blk, j, s in Q.find_aggregates(b, 'core::result::Result', 'Ok') if s['lhs']['l'] == 0]
    cx.require(oks, 'no Ok(..) result in case::matches')
    n_false = 0
    for blk, j, s in oks:
        val = s['rv']['ops'][0]
        c = str(val.get('c')) if 'c' in val else None
        if c is None:
            org = du.origin(val)
            c = str(org['o'].get('c')) if org['k'] == 'const' else None
        cx.site('%s: return Ok(%s) at %s' % (b.fn, c, b.loc(s)))
        if c != 'false':
            continue
        n_false += 1
        exhausted = False
        for org, lab, e in Q.dominating_conditions(F, b, du, blk):
            if org['k'] == 'discr' and lab == ('variant', 'None'):
                src = Q.value_source(b, du, {'cp': {'l': org['pl']['l']}})
                if src is not None and Q.callee_is(src, [Q.re.compile(r'Iterator>::next$'), '*::Iterator::next']):
                    exhausted = True
        if not exhausted:
            cx.violation(b.root, 'no-match-before-all-alternatives', 'case::matches answers "no match" before the list of `|` alternatives is '
                         'exhausted: an alternative that cannot be compiled (e.g. [[:nosuchclass:]]) must only match nothing, the following '
                         'alternatives of the same item still have to be tried', loc=b.loc(s))
    cx.require(n_false >= 1, 'case::matches never returns Ok(false)')


@RS.rule('C04.R3b', 'K-GUARD', 'every unquoted `[` is tried as a bracket expression on its own: nothing but the character itself decides whether the attempt is made')
def r3b(cx):
    import mirq as Q
    F = cx.F
    sites = F.callers_of(lambda names, t: any(Q.re.search(r'yash_fnmatch::ast::Bracket>::parse$', n) for n in names))
    sites = [(b, blk, t) for b, blk, t in sites if 'yash_fnmatch::ast::Atom>::parse' in b.fn]
    cx.require(len(sites) == 1, 'the Bracket::parse attempt in Atom::parse was not found (%d)' % len(sites))
    b, blk, t = sites[0]
    cx.fn(b.fn)
    du = Q.DefUse(b)
    for org, lab, e in Q.dominating_conditions(F, b, du, blk):
        ok = False
        desc = org['k']
        if org['k'] == 'discr' and 'PatternChar' in org['ty']:
            ok, desc = True, 'PatternChar variant'
        elif org['k'] == 'place':
            fields = [x for x in (org['pl'].get('p') or []) if isinstance(x, dict)]
            if any(x.get('adt', '').endswith('PatternChar') for x in fields):
                ok, desc = True, 'the pattern character'
            else:
                desc = 'the value of %s' % Q.operand_name(b, du, {'cp': org['pl']})
        elif org['k'] == 'call':
            desc = 'the result of ' + pp.callee(org['t'])
        elif org['k'] == 'arg':
            desc = 'a parameter'
        cx.site('%s: Bracket::parse attempted under %s = %s' % (b.fn, desc, lab))
        if not ok:
            cx.violation(b.root, 'bracket-attempt-depends-on-state', 'whether an unquoted `[` is tried as a bracket expression additionally depends '
                         'on %s: each `[` must be examined on its own (an earlier unclosed `[` is literal, but a later one may still open a '
                         'complete bracket expression, e.g. `[[.a.]`)' % desc, loc=b.loc(t))
    # the attempt uses the iterator positioned right after this `[` (a clone of the current position)
    src = Q.value_source(b, du, t['a'][0]) if t['a'] else None
    if src is None or not Q.callee_is(src, [Q.re.compile(r'Clone>::clone$'), '*::Clone::clone']):
        cx.violation(b.root, 'bracket-attempt-position', 'the bracket attempt does not start from a clone of the current position', loc=b.loc(t))


@RS.rule('C04.R1c', 'K-CALLERS', 'the pattern AST is a sequence of characters: no byte length of pattern text is used when parsing or translating it')
def r1c(cx):
    import mirq as Q
    F = cx.F
    BYTE_LEN = ['core::str::<impl str>::len', 'alloc::string::String::len']
    # positive example for the matcher: Pattern::find legitimately works with byte ranges of the matched text
    pos = [1 for b in F.bodies_in(['yash_fnmatch::Pattern::find', 'yash_fnmatch::Pattern::rfind']) for _ in Q.find_calls(b, BYTE_LEN)]
    cx.require(pos, 'the byte-length matcher no longer matches its positive example (Pattern::find)')
    n = 0
    for b in F.bodies_in(['yash_fnmatch::ast::']):
        n += 1
        for blk, t in Q.find_calls(b, BYTE_LEN):
            cx.violation(b.root, 'byte-length-of-pattern-text', 'a byte length (%s) decides something about pattern text, which is a sequence of '
                         'characters: a single non-ASCII character then counts as "more than one character" (a one-character collating '
                         'symbol such as [.é.] is dropped from a complemented bracket expression)' % pp.callee(t), loc=b.loc(t))
    cx.site('yash_fnmatch::ast: %d bodies scanned for byte lengths; matcher validated on %d Pattern::find/rfind sites' % (n, len(pos)))
    cx.floor(n, 20, 'pattern AST bodies')


# ---------------------------------------------------------------------------------------
# added after the audit of the unmodified tree (fix 51af144: `[![.ch.]]` became the invalid regex `[^]`)
@RS.rule('C04.R6', 'K-PASS+K-GUARD', 'a bracket written to the regex is never empty (`[]` / `[^]` do not compile, and a pattern that does not '
         'compile matches nothing): between the opening and the closing bracket at least one item is written on every feasible path')
def r6(cx):
    F = cx.F
    fn = 'yash_fnmatch::ast::regex::<impl yash_fnmatch::ast::Bracket>::fmt_regex'
    body = F.main_body(fn)
    cx.fn(body.fn)
    du = Q.DefUse(body)

    def written(t):
        """The literal a write_char / write_str call writes, or None."""
        if not Q.callee_is(t, ['core::fmt::Write::write_char', 'core::fmt::Write::write_str']) or len(t['a']) < 2:
            return None
        o = t['a'][1]
        if 'c' in o:
            return str(o['c']).strip("'\"")
        org = du.origin(o)
        for _ in range(4):
            if org['k'] == 'ref':
                d = du.single_def(org['pl']['l'])
                if d and d[1] != 't' and d[2]['rv']['k'] == 'use' and 'c' in d[2]['rv']['o']:
                    return str(d[2]['rv']['o']['c']).strip("'\"")
                org = du.origin_place(org['pl'])
            elif org['k'] == 'const':
                return str(org['o'].get('c')).strip("'\"")
            else:
                break
        return None

    opens, closes = [], []
    for blk, t in body.calls():
        w = written(t)
        if w is None:
            continue
        if w in ('[', '[^'):
            opens.append((blk, t, w))
        elif w == ']':
            closes.append((blk, t))
    cx.require(len(opens) >= 2 and closes, 'the writes of `[` / `[^` and `]` were not found in Bracket::fmt_regex (%d/%d)' % (len(opens), len(closes)))
    ITEM = [re.compile(r'yash_fnmatch::ast::regex::<impl yash_fnmatch::ast::Bracket(Item|Atom)>::fmt_regex(_single|_char)?$')]
    item_writes = {blk for blk, t in Q.find_calls(body, ITEM)}
    cx.require(item_writes, 'no item is written in Bracket::fmt_regex (anchor moved)')
    nexts = {blk for blk, t in Q.find_calls(body, [re.compile(r'Iterator>::next$')])}
    close_blocks = {b for b, t in closes}
    for blk, t, w in opens:
        p = body.shortest_path(body.succ(blk)[0], close_blocks, removed=item_writes)
        conds = Q.implied_conditions(F, body, du, blk)
        nonempty = any(Q.cond_is_call(org, [re.compile(r'Vec::<T, A>::is_empty$'), re.compile(r'<impl \[T\]>::is_empty$')]) and lab == ('bool', False)
                       for org, lab, e in conds)
        some_single = False
        for org, lab, e in conds:
            org, lab = Q.peel_not(du, org, lab)
            if org['k'] != 'call':
                continue
            c = pp.callee(org['t'])
            pred = ' '.join(str(a.get('fn') or a.get('c') or '') for a in org['t']['a'][1:] if isinstance(a, dict))
            if c.endswith('Iterator>::all') and 'matches_multi_character' in pred and lab == ('bool', False):
                some_single = True          # not all items are multi-character: a single-character item exists
            if c.endswith('Iterator>::any') and lab == ('bool', True) and 'matches_multi_character' not in pred:
                some_single = True          # any(|i| !i.matches_multi_character()) - closure form
        if p is None:
            cx.site('Bracket::fmt_regex: `%s` at %s: an item is written on every path to the closing bracket' % (w, body.loc(t)))
            continue
        # a path that goes through a loop body (the Some edge of Iterator::next) without writing the item skips items by a test
        via_body = None
        for n in nexts:
            sw = body.succ(n)[0]
            ec = Q.edge_condition(F, body, du, sw) if body.term(sw)['k'] == 'switch' else None
            if not ec:
                continue
            for tgt, labs in ec[1].items():
                if ('variant', 'Some') not in labs:
                    continue
                p1 = body.shortest_path(body.succ(blk)[0], {tgt}, removed=item_writes)
                p2 = body.shortest_path(tgt, close_blocks, removed=item_writes)
                if p1 is not None and p2 is not None:
                    via_body = p1 + p2[1:]
        if via_body:
            p = via_body
        if via_body:
            ok = some_single
            why = 'items are skipped by a per-item test; a whole-list test that one item is written dominates the opening: %s' % some_single
        else:
            ok = nonempty or some_single
            why = 'only the zero-iteration path writes nothing; the list is known to be non-empty: %s' % (nonempty or some_single)
        cx.site('Bracket::fmt_regex: `%s` at %s: %s' % (w, body.loc(t), why))
        if not ok:
            cx.violation(fn, 'empty-bracket:%s' % ('complement' if '^' in w else 'plain'), 'a path writes `%s` and then `]` with nothing in '
                         'between (%s): e.g. a complemented bracket expression made only of multi-character collating symbols, `[![.ch.]]`, '
                         'becomes the regex `[^]`, which does not compile - the whole pattern then matches nothing although POSIX says it '
                         'matches any single character' % (w, 'every item can be skipped' if via_body else 'empty item list'),
                         loc=body.loc(t), path=Q.render_path(body, p))


RS.explanation += ' Added after the audit: a bracket written to the regex is never empty (R6).'


# ---------------------------------------------------------------------------------------
# added after the independent report C04w3 #3 (fix a6e85c3: `"$@"` joined with an unquoted separator)
@RS.rule('C04.R4b', 'K-EFFECT', 'a character the shell inserts inside a quoted string is quoted: the separator that joins the fields of "$@" into '
         'one field (case pattern, trim pattern) takes its is_quoted attribute from the quoting of the adjoining fields - it is never '
         'the constant `false`, which would hand it to the pattern compiler as an active `?` / `*` / `[`')
def r4b(cx):
    F = cx.F
    root = 'yash_semantics::expansion::phrase::Phrase::ifs_join'
    ATTR = 'yash_env::semantics::expansion::attr::AttrChar'
    bodies = list(F.logical(root))
    cx.require(bodies, 'Phrase::ifs_join not found')
    # a private helper of the module that ifs_join calls (e.g. an extracted `ifs_separator`) belongs to it
    for b in list(bodies):
        for blk, t in b.calls():
            c = pp.callee(t)
            if c.startswith('yash_semantics::expansion::phrase::') and c != root and c in F.by_root:
                bodies += [x for x in F.logical(c) if x not in bodies]
    built, computed = 0, 0
    where = None
    for body in bodies:
        cx.fn(body.fn)
        du = Q.DefUse(body)
        for blk, j, st in body.stmts():
            if st['k'] != 'assign':
                continue
            rv = st['rv']
            if rv['k'] == 'agg' and str(rv.get('adt') or '').endswith('attr::AttrChar'):
                built += 1
                where = where or body.loc(st)
                fields = rv.get('fields') or []
                ops = rv.get('ops') or []
                for name, o in zip(fields, ops):
                    if name == 'is_quoted' and 'c' not in o:
                        computed += 1
        for b, j, s, kind, f in Q.field_writes(body, ATTR, 'is_quoted'):
            if kind == 'assign' and not (s['rv']['k'] == 'use' and 'c' in s['rv']['o']):
                computed += 1
    cx.require(built >= 1, 'Phrase::ifs_join no longer builds the separator character (anchor moved)')
    cx.site('Phrase::ifs_join: separator built %d time(s); is_quoted computed from the adjoining fields: %s' % (built, computed > 0))
    if not computed:
        cx.violation(root, 'separator-never-quoted', 'the separator that joins several fields into one is always built unquoted: for `"$@"` '
                     '(whose fields are wrapped in quoting marks one by one) it lands between a closing and an opening quote and reaches the '
                     'pattern compiler as an active character - `set -- a b; IFS=?; case axb in ("$@")` matches, `${v#"$@"}` removes axb, '
                     'while "$*" is literal', loc=where)


RS.explanation += ' The separator joining the fields of a quoted $@ is quoted (R4b).'


# ---------------------------------------------------------------------------------------
# added for the seeded defect C04-s7 (Pattern::rfind stepped with str::get and stopped at a multi-byte character)
MATCHERS = ('yash_fnmatch::Pattern::is_match', 'yash_fnmatch::Pattern::find', 'yash_fnmatch::Pattern::rfind')
REGEX_SEARCHES = [re.compile(r'^regex::regex::(string|bytes)::Regex::(find|find_at|is_match|is_match_at|shortest_match|shortest_match_at|'
                             r'captures|captures_at)$'),
                  'yash_fnmatch::Pattern::find', 'yash_fnmatch::Pattern::rfind', 'yash_fnmatch::Pattern::is_match']
TEXT_LEN = ['core::str::<impl str>::len', 'alloc::string::String::len']
TEXT_EMPTY = ['core::str::<impl str>::is_empty', 'alloc::string::String::is_empty']
# str operations whose failure means "this byte offset is past the end OR inside a multi-byte character"
BOUNDARY_DEPENDENT = [re.compile(r'^core::str::<impl str>::(get|get_mut|is_char_boundary|split_at_checked|split_at_mut_checked)$'),
                      re.compile(r'^core::str::traits::<impl core::slice::index::SliceIndex<str> for .*>::(get|get_mut)$')]
# Option -> Option calls that are None exactly when their first argument is None
OPTION_PASS = [re.compile(r'^core::option::Option::<T>::(map|inspect|as_ref|as_mut|as_deref|as_deref_mut|copied|cloned|take)$'),
               re.compile(r'Try>::branch$'), '*::Try::branch', re.compile(r'^core::option::Option::<&T>::(copied|cloned)$'),
               re.compile(r'^core::option::Option::<&mut T>::(copied|cloned)$')]
ITER_SEARCH = [re.compile(r'^core::iter::traits::iterator::Iterator::(find|find_map|position|next|nth|last|min|max)$'),
               re.compile(r'Iterator>::(find|find_map|position|next|nth|last)$'),
               re.compile(r'^core::iter::traits::double_ended::DoubleEndedIterator::(rfind|next_back|rposition)$')]
TEXT_ITERS = [re.compile(r'^core::str::<impl str>::(char_indices|chars|bytes)$')]
CMP_OPS = ('Lt', 'Le', 'Gt', 'Ge', 'Eq', 'Ne')


def _loops(body):
    """Strongly connected components of the normal-flow CFG that contain a cycle (Tarjan, iterative)."""
    live = sorted(body.live_blocks())
    index, low, onstack, stack, out = {}, {}, set(), [], []
    counter = [0]
    for root in live:
        if root in index:
            continue
        work = [(root, iter(body.succ(root)))]
        index[root] = low[root] = counter[0]
        counter[0] += 1
        stack.append(root)
        onstack.add(root)
        while work:
            v, it = work[-1]
            advanced = False
            for w in it:
                if w not in index:
                    index[w] = low[w] = counter[0]
                    counter[0] += 1
                    stack.append(w)
                    onstack.add(w)
                    work.append((w, iter(body.succ(w))))
                    advanced = True
                    break
                if w in onstack:
                    low[v] = min(low[v], index[w])
            if advanced:
                continue
            work.pop()
            if work:
                u = work[-1][0]
                low[u] = min(low[u], low[v])
            if low[v] == index[v]:
                comp = set()
                while True:
                    w = stack.pop()
                    onstack.discard(w)
                    comp.add(w)
                    if w == v:
                        break
                if len(comp) > 1 or v in body.succ(v):
                    out.append(comp)
    return out


class _ExitCauses:
    """Why can an Option / bool that decides a loop exit be None / false?  Every cause is one of
       ('no-match', ..)     a regex search found nothing
       ('end-of-text', ..)  a position was compared with the length of the text / the candidates up to the end ran out
       ('boundary', ..)     a str operation failed because the offset is not a character boundary (or past the end)
       ('unknown', ..)      anything this analysis does not understand (reported: fail closed)."""

    def __init__(self, F):
        self.F = F
        self._du = {}

    def du(self, body):
        if id(body) not in self._du:
            self._du[id(body)] = (body, Q.DefUse(body))
        return self._du[id(body)][1]

    # ---- does a region run a regex search (directly, or in a closure / helper it calls)?
    def searches(self, body, blocks=None, depth=0):
        if depth > 4:
            return False
        du = self.du(body)
        for b, t in body.calls():
            if blocks is not None and b not in blocks:
                continue
            if Q.callee_is(t, REGEX_SEARCHES):
                return True
            for a in t['a']:
                cb = self.fn_behind(body, du, a)
                if cb is not None and self.searches(cb, None, depth + 1):
                    return True
            cal = t['f'].get('def')
            if cal in self.F.bodies and cal.startswith('yash_fnmatch::') and cal != body.fn and self.searches(self.F.bodies[cal], None, depth + 1):
                return True
        return False

    def fn_behind(self, body, du, operand):
        """The body of the closure / fn item an operand denotes, or None."""
        if operand.get('fn') in self.F.bodies:
            return self.F.bodies[operand['fn']]
        if 'cp' not in operand and 'mv' not in operand:
            return None
        org = du.origin(operand)
        for _ in range(3):
            if org['k'] == 'ref':
                org = du.origin_place(org['pl'])
        if org['k'] == 'agg' and org['rv'].get('ak') == 'closure':
            return self.F.bodies.get(org['rv'].get('def'))
        if org['k'] == 'const' and org['o'].get('fn') in self.F.bodies:
            return self.F.bodies[org['o']['fn']]
        return None

    # ---- Option values
    def of_operand(self, body, operand, scc, depth=0):
        p = Q.operand_place(operand)
        if p is None:
            if 'None' in str(operand.get('c')):
                return [('unknown', 'a constant None')]
            return []
        return self.of_place(body, p, scc, depth)

    def of_place(self, body, p, scc, depth=0):
        proj = [e for e in p.get('p') or [] if e != '*']
        if proj:
            return [('unknown', 'a value read from %s' % Q.operand_name(body, self.du(body), {'cp': p}))]
        return self.of_local(body, p['l'], scc, depth)

    def of_local(self, body, l, scc, depth=0):
        du = self.du(body)
        if depth > 10:
            return [('unknown', 'a chain of definitions deeper than this rule follows')]
        defs = du.defs.get(l, [])
        if not defs:
            return [('unknown', 'the parameter / captured value %s' % body.local_name(l))]
        out = []
        for blk, idx, node in defs:
            if idx == 't':
                out += self.of_call(body, blk, node, scc, depth + 1)
                continue
            if node['k'] != 'assign' or node['lhs'].get('p'):
                out.append(('unknown', 'a partial write to %s' % body.local_name(l)))
                continue
            rv = node['rv']
            if rv['k'] == 'use':
                out += self.of_operand(body, rv['o'], scc, depth + 1)
            elif rv['k'] == 'ref':
                out += self.of_place(body, rv['pl'], scc, depth + 1)
            elif rv['k'] == 'agg' and rv.get('ak') == 'adt' and rv.get('variant') in ('None', 'Break', 'Err'):
                out += self.of_conditions(body, blk, scc, depth + 1)
            elif rv['k'] == 'agg' and rv.get('ak') == 'adt' and rv.get('variant') in ('Some', 'Continue', 'Ok'):
                pass
            else:
                out.append(('unknown', 'a value computed by %s' % rv['k']))
        return out

    def of_conditions(self, body, blk, scc, depth):
        """Causes for "this block (which chooses None / leaves) is executed"."""
        du = self.du(body)
        conds = [(org, lab, e) for org, lab, e in Q.implied_conditions(self.F, body, du, blk) if scc is None or e[0] in scc]
        if not conds:
            return [('unknown', 'a None chosen on paths that have no single deciding test')]
        out = []
        for org, lab, e in conds:
            out += self.of_condition(body, org, lab, scc, depth + 1)
        return out

    def of_condition(self, body, org, lab, scc, depth=0):
        du = self.du(body)
        org, lab = Q.peel_not(du, org, lab)
        k = org['k']
        if k == 'discr':
            ty = org.get('ty') or ''
            if ty.lstrip('&').startswith(('core::option::Option<', 'core::ops::control_flow::ControlFlow<', 'core::result::Result<')):
                return self.of_place(body, org['pl'], scc, depth + 1)
            return [('unknown', 'a test of the variant of %s' % ty)]
        if k == 'call':
            t = org['t']
            if Q.callee_is(t, [re.compile(r'^core::option::Option::<T>::(is_some|is_none|is_some_and|is_none_or)$')]):
                return self.of_operand(body, t['a'][0], scc, depth + 1)
            return self.of_call(body, org.get('b'), t, scc, depth + 1, as_bool=True)
        if k == 'binop' and org['rv'].get('op') in CMP_OPS:
            for side in (org['rv']['a'], org['rv']['b']):
                so = du.origin(side) if ('cp' in side or 'mv' in side) else {'k': 'const'}
                if so['k'] == 'call' and Q.callee_is(so['t'], TEXT_LEN):
                    return [('end-of-text', 'a position compared with %s' % pp.callee(so['t']).split('::')[-1] + '()')]
            return [('unknown', 'a comparison that does not involve the length of the text')]
        if k == 'place' and not org['pl'].get('p') and body.locals[org['pl']['l']].get('ty') == 'bool':
            out = []
            for blk, idx, node in du.defs.get(org['pl']['l'], []):
                if idx == 't':
                    out += self.of_call(body, blk, node, scc, depth + 1, as_bool=True)
                elif node['k'] == 'assign' and node['rv']['k'] == 'use' and 'c' in node['rv']['o']:
                    if (str(node['rv']['o']['c']) == 'true') == lab[1]:
                        out += self.of_conditions(body, blk, scc, depth + 1)
                elif node['k'] == 'assign' and node['rv']['k'] in ('use', 'unop', 'binop'):
                    o2 = du.origin({'cp': {'l': org['pl']['l']}}) if len(du.defs.get(org['pl']['l'], [])) == 1 else {'k': 'unknown'}
                    if o2['k'] in ('call', 'binop', 'unop', 'discr'):
                        out += self.of_condition(body, o2, lab, scc, depth + 1)
                    else:
                        out.append(('unknown', 'the flag %s' % body.local_name(org['pl']['l'])))
                else:
                    out.append(('unknown', 'the flag %s' % body.local_name(org['pl']['l'])))
            return out or [('unknown', 'the flag %s' % body.local_name(org['pl']['l']))]
        return [('unknown', 'a test on %s' % k)]

    def of_call(self, body, blk, t, scc, depth=0, as_bool=False):
        du = self.du(body)
        name = pp.callee(t)
        short = name.split('::')[-1]
        if Q.callee_is(t, REGEX_SEARCHES):
            return [('no-match', short)]
        if Q.callee_is(t, BOUNDARY_DEPENDENT):
            return [('boundary', 'str::' + short)]
        if as_bool:
            if Q.callee_is(t, TEXT_EMPTY):
                return [('end-of-text', 'is_empty() of the rest of the text')]
            return [('unknown', 'the result of %s' % name)]
        if Q.callee_is(t, OPTION_PASS) and t['a']:
            return self.of_operand(body, t['a'][0], scc, depth + 1)
        if Q.callee_is(t, [re.compile(r'^core::option::Option::<T>::and_then$')]):
            return self.of_operand(body, t['a'][0], scc, depth + 1) + self.of_return(body, t['a'][1], depth + 1)
        if Q.callee_is(t, [re.compile(r'^core::option::Option::<T>::filter$')]):
            return self.of_operand(body, t['a'][0], scc, depth + 1) + self.of_return(body, t['a'][1], depth + 1, as_bool=True)
        if Q.callee_is(t, [re.compile(r'^core::bool::<impl bool>::(then|then_some)$')]):
            c = t['a'][0]
            if 'cp' not in c and 'mv' not in c:
                return [('unknown', 'a constant condition')]
            return self.of_condition(body, du.origin(c), ('bool', False), scc, depth + 1)
        if Q.callee_is(t, ITER_SEARCH) and t['a']:
            out = self.of_iterator(body, t['a'][0], depth + 1)
            if short == 'find_map' and len(t['a']) > 1:
                # the closure's None only skips a candidate; its causes are the search's own
                out += [c for c in self.of_return(body, t['a'][1], depth + 1) if c[0] != 'no-match']
            return out
        cal = t['f'].get('def')
        if cal in self.F.bodies and cal.startswith('yash_fnmatch::') and cal != body.fn:
            hb = self.F.bodies[cal]
            return self.of_local(hb, 0, None, depth + 1)
        return [('unknown', 'the result of %s' % name)]

    def of_return(self, body, operand, depth, as_bool=False):
        cb = self.fn_behind(body, self.du(body), operand)
        if cb is None:
            return [('unknown', 'a function value this rule cannot resolve')]
        if as_bool:
            return self.of_condition(cb, {'k': 'place', 'pl': {'l': 0}}, ('bool', False), None, depth + 1)
        return self.of_local(cb, 0, None, depth + 1)

    def of_iterator(self, body, operand, depth):
        """None of find/position/next over this iterator = the candidates ran out: up to where do they go?"""
        du = self.du(body)
        org = du.origin(operand) if ('cp' in operand or 'mv' in operand) else {'k': 'const'}
        for _ in range(6):
            if org['k'] == 'ref':
                org = du.origin_place(org['pl'])
            elif org['k'] == 'call' and Q.callee_is(org['t'], [re.compile(r'IntoIterator>::into_iter$'), '*::IntoIterator::into_iter',
                                                               re.compile(r'Iterator::(by_ref|skip|skip_while|filter|map|rev|peekable|enumerate)$')]):
                a0 = org['t']['a'][0]
                org = du.origin(a0) if ('cp' in a0 or 'mv' in a0) else {'k': 'const'}
            else:
                break
        hi = None
        if org['k'] == 'call' and Q.callee_is(org['t'], [re.compile(r'^core::ops::range::RangeInclusive::<Idx>::new$')]):
            hi = org['t']['a'][1]
        elif org['k'] == 'agg' and str(org['rv'].get('adt')).startswith('core::ops::range::Range'):
            fields = org['rv'].get('fields') or []
            ops = org['rv'].get('ops') or []
            if 'end' in fields:
                hi = ops[fields.index('end')]
            elif len(ops) == 2:
                hi = ops[1]
            else:
                return [('unknown', 'the exhaustion of an unbounded range')]
        elif org['k'] == 'call' and Q.callee_is(org['t'], TEXT_ITERS):
            return [('end-of-text', 'the characters of the text ran out')]
        if hi is not None:
            ho = du.origin(hi) if ('cp' in hi or 'mv' in hi) else {'k': 'const'}
            if ho['k'] == 'call' and Q.callee_is(ho['t'], TEXT_LEN):
                return [('end-of-text', 'the candidate positions up to len() ran out')]
            return [('unknown', 'the exhaustion of a range of positions whose upper bound is not the length of the text')]
        return [('unknown', 'the exhaustion of an iterator this rule cannot bound')]


@RS.rule('C04.R7', 'K-GUARD', 'Pattern::rfind (shortest suffix, ${v%pat}) retries the regex from later and later positions: the retry loop ends only '
         'because the regex found no further match or the position passed the end of the text - never because a byte offset failed a '
         'character-boundary test (str::get, is_char_boundary, ..), which would stop the search at the first multi-byte character')
def r7(cx):
    F = cx.F
    EC = _ExitCauses(F)
    n_loops = 0
    per_fn = {}
    for fn in MATCHERS:
        if fn not in F.bodies and not [b for b in F.logical(fn)]:
            cx.require(fn != 'yash_fnmatch::Pattern::rfind', 'yash_fnmatch::Pattern::rfind not found')
            continue
        body = F.inlined(F.main_body(fn))
        cx.fn(body.fn)
        du = EC.du(body)
        per_fn[fn] = 0
        for scc in _loops(body):
            if not EC.searches(body, scc):
                continue
            n_loops += 1
            per_fn[fn] += 1
            exits = [(u, v) for u in sorted(scc) for v in body.succ(u) if v not in scc]
            causes = []
            for u, v in exits:
                ec = Q.edge_condition(F, body, du, u)
                if ec is None:
                    causes.append(((u, v), ('unknown', 'an exit that is not a two-way test')))
                    continue
                org, labels = ec
                labs = labels.get(v) or [('else',)]
                if org['k'] == 'discr':
                    cs = EC.of_condition(body, org, labs[0], scc)
                elif labs[0][0] == 'bool':
                    cs = EC.of_condition(body, org, labs[0], scc)
                else:
                    cs = [('unknown', 'a test on %s' % org['k'])]
                causes += [((u, v), c) for c in cs]
            kinds = sorted({c[0] for e, c in causes})
            cx.site('%s: retry loop (%d blocks, header near %s) has %d exit edge(s); causes: %s'
                    % (fn.split('::')[-1], len(scc), body.loc(body.term(min(scc))), len(exits),
                       sorted({'%s (%s)' % c for e, c in causes})))
            cx.cellcount(len(causes))
            if 'no-match' not in kinds:
                cx.violation(fn, 'retry-loop-ignores-the-search', 'no exit of the retry loop depends on the result of the regex search: the loop '
                             'cannot stop at the last match', loc=body.loc(body.term(min(scc))))
            seen = set()
            for (u, v), (kind, what) in causes:
                if kind == 'boundary' and ('b', what) not in seen:
                    seen.add(('b', what))
                    cx.violation(fn, 'retry-ends-on-char-boundary-failure:%s' % what,
                                 'the retry loop also ends when %s fails, i.e. when the next byte offset lies inside a multi-byte character: '
                                 'the search for a later match stops at the first match that starts with a non-ASCII character, so '
                                 '${v%%pattern} removes a longer suffix than the shortest one (v=aéxéy, ${v%%é*} gives a instead of aéx)'
                                 % what, loc=body.loc(body.term(u)), path=Q.render_path(body, [u, v]))
                elif kind == 'unknown' and ('u', what) not in seen:
                    seen.add(('u', what))
                    cx.violation(fn, 'retry-exit-cause-unrecognised:%s' % re.sub(r'\s+', ' ', what)[:80],
                                 'the retry loop can end because of %s: this is neither "the regex found no further match" nor "the '
                                 'position passed the end of the text", the only two reasons for which the last match has been found'
                                 % what, loc=body.loc(body.term(u)), path=Q.render_path(body, [u, v]))
    if per_fn.get('yash_fnmatch::Pattern::rfind', 0) == 0:
        b = F.main_body('yash_fnmatch::Pattern::rfind')
        cx.site('Pattern::rfind: no loop that runs the regex again')
        cx.violation('yash_fnmatch::Pattern::rfind', 'no-retry-loop', 'Pattern::rfind no longer searches again from later positions: the regex '
                     'engine only reports the leftmost match, so the LAST match (the shortest suffix for ${v%pat}) is not found',
                     loc=b.loc(b.d))
    cx.floor(n_loops, 1, 'retry loops around a regex search in Pattern::{is_match, find, rfind}')


RS.explanation += (' The retry loop of Pattern::rfind ends only on "no further match" or "end of text", never on a failed character-boundary '
                   'test (R7).')


# ---------------------------------------------------------------------------------------
# added for the seeded defect C04-s8 (the scanner of `[. .]` `[= =]` `[: :]` swallowed the character after a non-closing delimiter)
from rules.C01 import Interp, Undecidable, V, is_variant, freeze      # the concrete HIR interpreter (shared with rules/C05.py)

OPT_SOME = 'core::option::Option::Some'
OPT_NONE = 'core::option::Option::None'
BRACKET_ATOM = 'yash_fnmatch::ast::BracketAtom'
INNER_KINDS = {'.': 'CollatingSymbol', '=': 'EquivalenceClass', ':': 'CharClass'}
UNIT = ('T', ())


class _PcIter:
    """The `I: Iterator<Item = PatternChar>` handed to the parser: a position in a fixed sequence."""

    def __init__(self, items, pos=0):
        self.items = items
        self.pos = pos

    def next(self):
        if self.pos >= len(self.items):
            return V(OPT_NONE)
        self.pos += 1
        return V(OPT_SOME, self.items[self.pos - 1])

    def clone(self):
        return _PcIter(self.items, self.pos)


class _ScanInterp(Interp):
    """rules/C01.Interp plus: calls through a function value (`let new: fn(String) -> Self = BracketAtom::CharClass; new(v)`),
    calls of other functions of yash-fnmatch (evaluated from their HIR), and the few Vec / String / slice / iterator
    operations a character scanner uses. Anything else is Undecidable (exit 2, fail closed)."""

    def __init__(self, F, fuel=20000):
        Interp.__init__(self, F, self._extern, fuel)

    def ev(self, n, env):
        if isinstance(n, dict) and n.get('k') == 'call' and not (n.get('def') or n.get('decl') or n.get('ctor')) \
                and isinstance(n.get('f'), dict):
            f = self.ev(n['f'], env)
            args = [self.ev(x, env) for x in n['a']]
            return self._apply(f, args)
        return Interp.ev(self, n, env)

    def assign(self, lhs, v, env):
        # `*i = j` where i: &mut I is the caller's iterator: the caller must see the new position
        tgt = self.strip(lhs)
        if isinstance(tgt, dict) and tgt.get('k') == 'local' and isinstance(env.get(tgt['id']), _PcIter) and isinstance(v, _PcIter) \
                and tgt is not lhs:
            cur = env[tgt['id']]
            cur.items, cur.pos = v.items, v.pos
            return
        return Interp.assign(self, lhs, v, env)

    def _apply(self, f, args):
        if is_variant(f) and not f[2]:
            return V(f[1], *args)                      # a tuple-variant constructor used as a function
        if isinstance(f, tuple) and f and f[0] == 'F':
            return self.call_fn(f[1], args)
        if isinstance(f, tuple) and f and f[0] == 'C':
            return self.call_closure(f, args)
        raise Undecidable('call through the value %r' % (f,))

    def _extern(self, name, recv, args, node):
        name = name or ''
        last = name.split('::')[-1]
        if name.startswith('path:'):
            p = name[5:]
            if p in self.F.hir:
                return ('F', p)
            raise Undecidable('path %s' % p)
        if isinstance(recv, _PcIter):
            if last == 'next' and not args:
                return recv.next()
            if last in ('clone', 'by_ref') and not args:
                return recv.clone() if last == 'clone' else recv
        if recv is None and len(args) == 1 and isinstance(args[0], _PcIter) and last in ('into_iter', 'by_ref'):
            return args[0]
        if name in ('alloc::string::String::new', 'alloc::vec::Vec::<T>::new') and recv is None:
            return []
        if isinstance(recv, list):
            if name in ('alloc::string::String::push', 'alloc::vec::Vec::<T, A>::push') and len(args) == 1:
                recv.append(args[0])
                return UNIT
            if name == 'alloc::string::String::push_str' and len(args) == 1 and isinstance(args[0], (list, str)):
                recv.extend(list(args[0]))
                return UNIT
            if last == 'ends_with' and len(args) == 1 and isinstance(args[0], list):
                k = len(args[0])
                return k <= len(recv) and freeze(recv[len(recv) - k:]) == freeze(args[0])
            if last == 'starts_with' and len(args) == 1 and isinstance(args[0], list):
                return freeze(recv[:len(args[0])]) == freeze(args[0])
            if last == 'truncate' and len(args) == 1 and isinstance(args[0], int):
                del recv[args[0]:]
                return UNIT
            if last == 'pop' and not args:
                return V(OPT_SOME, recv.pop()) if recv else V(OPT_NONE)
            if last in ('last', 'last_mut') and not args:
                return V(OPT_SOME, recv[-1]) if recv else V(OPT_NONE)
            if last == 'clear' and not args:
                del recv[:]
                return UNIT
            if last == 'len' and not args:
                return len(recv)
            if last == 'is_empty' and not args:
                return not recv
            if last in ('into_iter', 'iter', 'drain') and len(args) <= 1:
                return ('I', list(recv))
            if last in ('as_slice', 'as_str', 'deref', 'as_ref', 'clone', 'to_owned', 'to_vec') and not args:
                return list(recv) if last in ('clone', 'to_owned', 'to_vec') else recv
        if isinstance(recv, tuple) and len(recv) == 2 and recv[0] == 'I':
            if last == 'map' and len(args) == 1:
                return ('I', [self._apply(args[0], [x]) for x in recv[1]])
            if last == 'collect' and not args:
                return list(recv[1])
        if recv is None and last in ('from_iter', 'from') and len(args) == 1 and isinstance(args[0], tuple) and args[0][:1] == ('I',):
            return list(args[0][1])
        if name in self.F.hir and (name.startswith('yash_fnmatch::') or name.startswith('<yash_fnmatch::')):
            return self.call_fn(name, ([recv] if recv is not None else []) + list(args))
        raise Undecidable('call of %s is not modelled by the scanner evaluation' % name)


def _pc(kind, c):
    return V(NORMAL if kind == 'N' else LITERAL, c)


def _inner_reference(word):
    """POSIX XBD 9.3.5 items 4-6 as yash reads them: after `[` + opener, the expression closes at the FIRST unquoted
    opener character that is immediately followed by an unquoted `]`; everything before it is content."""
    if not word or word[0][0] != 'N' or word[0][1] not in INNER_KINDS:
        return None
    d = word[0][1]
    for k in range(1, len(word) - 1):
        if word[k] == ('N', d) and word[k + 1] == ('N', ']'):
            return INNER_KINDS[d], ''.join(c for _, c in word[1:k]), tuple(word[k + 2:])
    return None


def _inner_words():
    """Inputs (after the `[`): for each opener, all words up to length 7 over {opener, `]`, other} and up to length 4 over
    that alphabet plus the quoted forms and another opener; a few inputs that do not start an inner expression."""
    import itertools
    for d in sorted(INNER_KINDS):
        other = {'.': '=', '=': ':', ':': '.'}[d]
        small = [('N', d), ('N', ']'), ('N', 'a')]
        big = small + [('L', d), ('L', ']'), ('N', other)]
        seen = set()
        for alpha, maxlen in ((small, 7), (big, 4)):
            for n in range(maxlen + 1):
                for w in itertools.product(alpha, repeat=n):
                    if w not in seen:
                        seen.add(w)
                        yield (('N', d),) + w
        for first in (('L', d), ('N', 'a'), ('N', ']'), ('N', '[')):
            for w in ((), (('N', d), ('N', ']')), (('N', 'a'), ('N', d), ('N', ']'))):
                yield (first,) + w
    yield ()


def _show_word(w):
    return ''.join(c if k == 'N' else '\\' + c for k, c in w)


@RS.rule('C04.R8', 'K-TABLE', 'the scanner of `[.x.]` `[=x=]` `[:x:]` (BracketAtom::parse_inner), evaluated from its HIR on every short input over '
         '{opener, `]`, other, quoted forms}, closes at the FIRST opener character followed by `]`, keeps every other character - the opener '
         'included - as content, and leaves the iterator right after the closing `]`')
def r8(cx):
    F = cx.F
    cands = [fn for fn in F.hir if fn.startswith(PARSE_MOD) and fn.endswith('::parse_inner') and 'BracketAtom' in fn]
    cx.require(len(cands) == 1, 'BracketAtom::parse_inner not found in yash_fnmatch::ast::parse (%d candidates)' % len(cands))
    entry = cands[0]
    h = F.hir[entry]
    cx.require(len(h['params']) == 1, 'parse_inner no longer takes exactly the character iterator')
    cx.fn(entry)
    loc = '%s:%d' % (h['file'], h['line'])
    for v in INNER_KINDS.values():
        cx.require(any(x['name'] == v for x in F.adt(BRACKET_ATOM)['variants']), 'BracketAtom::%s not found' % v)
    bad = []
    n = n_closed = 0
    for w in _inner_words():
        n += 1
        want = _inner_reference(w)
        it = _PcIter([_pc(k, c) for k, c in w])
        r = _ScanInterp(F).call_fn(entry, [it])
        if is_variant(r, OPT_NONE):
            got = None
        elif is_variant(r, OPT_SOME) and isinstance(r[2][0], tuple) and r[2][0][0] == 'T' and len(r[2][0][1]) == 2 \
                and is_variant(r[2][0][1][0]) and isinstance(r[2][0][1][1], _PcIter) and len(r[2][0][1][0][2]) == 1 \
                and isinstance(r[2][0][1][0][2][0], (list, str)) and r[2][0][1][0][1].startswith(BRACKET_ATOM + '::'):
            atom, rest = r[2][0][1]
            content = ''.join(atom[2][0])
            got = atom[1].split('::')[-1], content, tuple(w[rest.pos:]) if rest.items is it.items else None
            cx.require(got[2] is not None, 'parse_inner returns an iterator over other characters than its input')
        else:
            raise Undecidable('parse_inner returned %r' % (r,))
        if want is not None:
            n_closed += 1
        if got != want:
            bad.append((w, got, want))
    cx.cellcount(n)
    cx.site('%s evaluated on %d inputs (%d of them closed by the reference): openers . = : x words over {opener, ], a} up to length 7 and '
            'over {opener, ], a, \\opener, \\], other opener} up to length 4' % (entry.replace(PARSE_MOD, ''), n, n_closed))
    cx.require(n_closed >= 100, 'the reference closes only %d inputs (the evaluation exercises nothing)' % n_closed)

    def show(res):
        if res is None:
            return 'no inner expression (the `[` is an ordinary character)'
        return '%s(%r) with %r left to parse' % (res[0], res[1], _show_word(res[2]))
    if bad:
        bad.sort(key=lambda b: (len(b[0]), _show_word(b[0])))
        w, got, want = bad[0]
        cx.violation(entry, 'diverges:[%s' % _show_word(w),
                     'for the pattern text `[[%s` (characters after the first `[`: %s) the scanner yields %s; POSIX (XBD 9.3.5: the '
                     'expression ends at the first opener character followed by `]`) gives %s. E.g. `[[...]]` must be the collating '
                     'symbol of the period and `[[=a==]]` the class of `a=`; a scanner that swallows the character after a non-closing '
                     'delimiter turns them into an ordinary `[` list followed by a literal `]` (%d of %d inputs diverge)'
                     % (_show_word(w), ', '.join(('unquoted ' if k == 'N' else 'quoted ') + c for k, c in w) or 'none', show(got), show(want),
                        len(bad), n), loc=loc)
    cx.sample({'inputs': n, 'closed': n_closed, 'diverging': len(bad)})


RS.explanation += (' The scanner of [. .] [= =] [: :] is evaluated on all short inputs and closes at the first delimiter followed by `]` (R8).')



# ---------------------------------------------------------------------------------------
# added after the audit C04h4 (`p='\'; case x in $p""*)` matched: the backslash escaped the quoting character `"`, which is then dropped)
@RS.rule('C04.R9', 'K-GUARD', 'an unquoted backslash coming from an expansion escapes the next character OF THE PATTERN (XCU 2.13.1): the element that '
         'apply_escapes marks is_quoted is one whose is_quoting flag was found false - quoting characters in between (an empty pair of '
         'quotes) are not part of the pattern and are dropped by to_pattern_chars, so marking one of them escapes nothing')
def r9(cx):
    F = cx.F
    ab = F.inlined(F.inlined(F.body(APPLY_ESCAPES)))
    cx.fn(APPLY_ESCAPES)
    du = Q.DefUse(ab)
    writes = [(b, st) for b, j, st in ab.stmts() if st['k'] == 'assign' and _field_of(st['lhs'], ATTRCHAR, ('is_quoted',))]
    cx.require(writes, 'apply_escapes no longer sets is_quoted (anchor moved)')
    # values that come out of a search for a non-quoting element
    searched = set()
    for blk, t in ab.calls():
        if Q.callee_is(t, [re.compile(r'::Iterator::(position|find|find_map|skip_while|rposition)$'), re.compile(r'::(iter::)?position$')]):
            clo = du.origin(t['a'][1]) if len(t['a']) > 1 else {'k': '?'}
            cb = F.bodies.get(clo['rv'].get('def')) if clo.get('k') == 'agg' else None
            if cb is not None and any(s2['k'] == 'assign' and any(_field_of(p_, ATTRCHAR, ('is_quoting',)) for p_ in Q.rvalue_places(s2['rv']))
                                      for b2, j2, s2 in cb.stmts()):
                searched.add(t['dest']['l'])
    searched = Q.forward_taint(ab, searched, through_calls=Q.PROPAGATING_CALLS + Q.TRY_BRANCH +
                               [re.compile(r'option::Option::<T>::\w+$'), re.compile(r'::Iterator::\w+$')]) if searched else set()
    for b, st in writes:
        idx = [e['idx'] for e in st['lhs'].get('p') or [] if isinstance(e, dict) and 'idx' in e]
        by_search = any(i in searched or any((Q.operand_place(o) or {}).get('l') in searched for o in Q.rvalue_operands(dd[2]['rv'])
                                             if dd[1] != 't') for i in idx for dd in ([du.single_def(i)] if du.single_def(i) else [])) \
            or any(i in searched for i in idx)
        # or: reached through a reference found by the search (`if let Some(next) = rest.iter_mut().find(|c| !c.is_quoting)`)
        base = st['lhs']['l']
        by_search = by_search or base in searched
        by_test = False
        for org, lab, e in Q.implied_conditions(F, ab, du, b):
            org, lab = Q.peel_not(du, org, lab)
            if org['k'] == 'place' and lab == ('bool', False) and _field_of(org['pl'], ATTRCHAR, ('is_quoting',)):
                tested_idx = [e2['idx'] for e2 in org['pl'].get('p') or [] if isinstance(e2, dict) and 'idx' in e2]
                if (tested_idx and idx and _canon_local(du, tested_idx[0]) == _canon_local(du, idx[0])) or \
                        (not tested_idx and not idx and _canon_local(du, org['pl']['l']) == _canon_local(du, base)):
                    by_test = True
        cx.site('apply_escapes: is_quoted set at %s on an element found non-quoting: by search %s, by test %s' % (ab.loc(st), by_search, by_test))
        if not (by_search or by_test):
            cx.violation(APPLY_ESCAPES, 'escape-lands-on-quoting-character', 'apply_escapes marks the element right after the backslash as quoted without '
                         'looking whether it is a quoting character: with p=\'\\\', `case x in $p""*)` matches (the `"` is "escaped", then '
                         'dropped, and `*` stays active; dash and bash: no match), `${v##$p""*}` on `*x` removes everything', loc=ab.loc(st))


RS.explanation += ' The character escaped by an unquoted backslash from an expansion is the next non-quoting one (R9).'

RS.explanation += (' The anchoring of case (R5a) is decided on the Config VALUE that reaches each compile site of the case module - Config::default() '
                   'and constant field writes followed through helpers of any name or module (by value, by &mut, constant flags) - both anchors '
                   'true and literal_period / case_insensitive / shortest_match false on every path: the leading-period rule is pathname expansion\'s only.')
